#!/bin/sh
# offline setup: nothing to build; verify the tool-chain the checks need is present.
set -e
cd "$(dirname "$0")"
java -version >/dev/null 2>&1
test -f /opt/veriftools/tla/tla2tools.jar
/venv/bin/python -c "import numbers_parser, hypothesis" 
PYTHONPATH=/repo/src:harness /venv/bin/python -c "import nv.core, nv.tlc, nv.tlaval"
mkdir -p evidence replays
echo setup ok

---- MODULE Trace_RefLabels ----
(***************************************************************************)
(* Judge for recorded label references (property C09, RefLabels.tla).      *)
(* One event per line of TRACE_FILE:                                       *)
(*  ns, labs : the document's table names per sheet and, per table, the    *)
(*             header labels of its NL lines as the library reports them   *)
(*  xlabs    : per table the labels on its OTHER axis (a sequence)         *)
(*  host, target, i, j, ab, single : the stored reference (lines i..j of   *)
(*             the target, begin/end absolute or not, stored as a single   *)
(*             line or as a span)                                          *)
(*  wellformed, num, sq, tq, l1, l2, n1, n2, a1, a2 : the printed text as  *)
(*             parsed by the harness (sq = -1: unknown sheet name)         *)
(* The state variables of RefLabels are bound to the event, so that the    *)
(* operators of the specification are evaluated unchanged.                 *)
(***************************************************************************)
EXTENDS RefLabels, Json, IOUtils, TLCExt
Traces == ndJsonDeserialize(IOEnv.TRACE_FILE)
VARIABLE tid
E == Traces[tid]
TInit == /\ tid \in 1..Len(Traces)
         /\ ns = Traces[tid].ns /\ ns0 = Traces[tid].ns /\ renamed = <<>> /\ uniq = {}
         /\ host = <<Traces[tid].host[1], Traces[tid].host[2]>> /\ target = <<Traces[tid].target[1], Traces[tid].target[2]>>
         /\ lab = [x \in Tables(Traces[tid].ns) |-> Traces[tid].labs[x[1]][x[2]]]
         /\ xlab = [x \in Tables(Traces[tid].ns) |-> {Traces[tid].xlabs[x[1]][x[2]][k] : k \in 1..Len(Traces[tid].xlabs[x[1]][x[2]])}]
         /\ line = <<Traces[tid].i, Traces[tid].j>> /\ ab = Traces[tid].ab
TSpec == TInit /\ [][UNCHANGED <<lvars, tid>>]_<<lvars, tid>>
P == [num |-> E.num, q |-> <<E.sq, E.tq>>, l1 |-> E.l1, l2 |-> E.l2]
D == Denoted(host, P.q, P.l1, P.l2)
Verdict ==
  IF ~E.wellformed THEN "unreadable"
  ELSE IF E.sq = -1 THEN "unknown-sheet-qualifier"
  ELSE IF E.a1 # ab \/ E.a2 # ab THEN "absolute-marker"
  ELSE IF E.num THEN
       (IF E.n1 # line[1] \/ E.n2 # line[2] THEN "coordinates"
        ELSE IF Resolve(ns, host, P.q) = {} THEN "qualifier-matches-nothing"
        ELSE IF Resolve(ns, host, P.q) # {target} THEN (IF target \in Resolve(ns, host, P.q) THEN "qualifier-ambiguous" ELSE "qualifier-wrong-table")
        ELSE "ok")
  ELSE IF D = {} THEN "label-denotes-nothing"
  ELSE IF D # {<<target, line[1], line[2]>>} THEN (IF <<target, line[1], line[2]>> \in D THEN "label-ambiguous" ELSE "label-wrong-lines")
  ELSE "ok"
\* Level B: the text is the one the modelled chooser prints
Drift == IF Printed2(host, target, line[1], line[2], ab, E.single) = P THEN "same" ELSE "drift"
Judge == PrintT("V " \o ToString(tid) \o " " \o Verdict \o " " \o Drift)
====

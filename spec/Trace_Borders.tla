---- MODULE Trace_Borders ----
(***************************************************************************)
(* Code -> spec binding for C15 (borders): one ndjson line per stroke      *)
(* history on one grid line of a real table.  Each event is one            *)
(* set_cell_border call [o, len, v] followed by what both cells adjacent   *)
(* to every edge position report: a (the cell that owns the edge as its    *)
(* top/left) and b (the neighbour, as its bottom/right; "edge" where the   *)
(* table has no neighbour), on the open document (oa, ob) and on the file  *)
(* saved at that point and opened again (ra, rb).  v = "reopen": the       *)
(* document object is replaced by one loaded from the last saved file;     *)
(* v = "touch-write" / "touch-merge": Table.write on the cells along the   *)
(* line / Table.merge_cells elsewhere in the table; "touch-merge-over" /   *)
(* "touch-merge-outer" [o, len]: merge_cells of a range straddling the     *)
(* line at those positions / with the line as its outer edge there.        *)
(* Only Level A is judged here (edge = last writer wins), so the trace may *)
(* start from any line content (init).                                     *)
(***************************************************************************)
EXTENDS Borders, Json, IOUtils, TLCExt
Traces == ndJsonDeserialize(IOEnv.TRACE_FILE)
VARIABLES tid, l
tvars == <<vars, tid, l>>
RejBase == 1000000
NEv == Len(Traces[tid].ev)
Evt == Traces[tid].ev[l]
Same(view, e) == \A i \in 1..N : view[i] = "edge" \/ view[i] = e[i]
\* a recorded reopen: the document object is replaced by one loaded from the last saved file - nothing that Level A speaks of changes
\* (the guards of Borders!Reopen are about the generator's bookkeeping, which a trace starting from a preloaded line does not have)
TReopen == UNCHANGED <<edge, runs, openv, maxOrder, hidden>> /\ hist' = Append(hist, [o |-> 0, len |-> 0, v |-> "reopen"])
\* a recorded touch (write to the cells along the line / merge_cells elsewhere): no border changes
TTouch == UNCHANGED <<edge, runs, openv, maxOrder, hidden>> /\ hist' = Append(hist, [o |-> 0, len |-> 0, v |-> Evt.v])
\* a recorded merge on the line: straddling it (those edges are hidden from now on) or with the line as its outer edge (nothing changes)
TOver == /\ hidden' = hidden \cup Span(Evt.o, Evt.len) /\ edge' = [i \in 1..N |-> IF i \in Span(Evt.o, Evt.len) THEN NoBorder ELSE edge[i]]
         /\ UNCHANGED <<runs, openv, maxOrder>> /\ hist' = Append(hist, [o |-> Evt.o, len |-> Evt.len, v |-> Evt.v])
TOuter == UNCHANGED <<edge, runs, openv, maxOrder, hidden>> /\ hist' = Append(hist, [o |-> Evt.o, len |-> Evt.len, v |-> Evt.v])
Act == IF Evt.v = "reopen" THEN TReopen ELSE IF Evt.v \in Touches THEN TTouch
       ELSE IF Evt.v = "touch-merge-over" THEN TOver ELSE IF Evt.v = "touch-merge-outer" THEN TOuter ELSE Stroke(Evt.o, Evt.len, Evt.v)
Matches == Act /\ Same(Evt.oa, edge') /\ Same(Evt.ob, edge') /\ Same(Evt.ra, edge') /\ Same(Evt.rb, edge')
Clause == IF ~ENABLED Act THEN "not-enabled"
          ELSE IF ~ENABLED (Act /\ Same(Evt.oa, edge')) THEN "open.own-side"
          ELSE IF ~ENABLED (Act /\ Same(Evt.ob, edge')) THEN "open.neighbour-side"
          ELSE IF ~ENABLED (Act /\ Same(Evt.ra, edge')) THEN "reopened.own-side"
          ELSE "reopened.neighbour-side"
\* init: what the line showed before the first recorded call (all "none" on a new table; the existing borders of a fixture table)
TInit == /\ tid \in 1..Len(Traces) /\ l = 1
         /\ edge = [i \in 1..N |-> Traces[tid].init[i]] /\ runs = <<>> /\ maxOrder = 1 /\ hist = <<>> /\ hidden = {}
         /\ openv = [i \in 1..N |-> [value |-> Traces[tid].init[i], order |-> 0]]
Step == l <= NEv /\ Matches /\ l' = l + 1 /\ UNCHANGED tid
Reject == /\ l <= NEv /\ ~ENABLED Matches /\ PrintT(<<"REJECT", tid, l, "stroke", Clause>>) /\ l' = RejBase + l /\ UNCHANGED <<vars, tid>>
Finish == (l = NEv + 1 \/ l >= RejBase) /\ UNCHANGED tvars
TSpec == TInit /\ [][Step \/ Reject \/ Finish]_tvars
Done == (l = NEv + 1) => PrintT(<<"ACCEPT", tid, NEv>>)
====

---- MODULE Trace_Refs ----
(***************************************************************************)
(* Code -> spec binding for C09: one event per printed reference.          *)
(*  ns      : the document's namespace as the library reports it: per      *)
(*            sheet the table names (strings)                              *)
(*  host, target : <<sheet index, table index>>; hr, hc the host cell      *)
(*  kind    : cell | rect | rows | cols                                    *)
(*  ends    : stored ends <<row begin, col begin, row end, col end>>, each  *)
(*            <<number, absolute>> (unused ends <<0, FALSE>>)              *)
(*  sq, tq  : printed sheet qualifier (sheet index, 0 = none, -1 = a name  *)
(*            that is not a sheet of the document) and table qualifier     *)
(*  body    : coordinates and '$' flags parsed from the printed body, same *)
(*            shape as ends, with resolved (absolute) numbers              *)
(*  wellformed : the printed text had the shape of its kind                *)
(* hr, hc are where the host cell is at the time of printing: in the       *)
(* "host-moved" phase rows were deleted above it after the reference was   *)
(* stored, and a relative end resolves from the NEW position.              *)
(***************************************************************************)
EXTENDS Refs, Json, IOUtils, TLCExt
Traces == ndJsonDeserialize(IOEnv.TRACE_FILE)
VARIABLE tid
E == Traces[tid]
TInit == tid \in 1..Len(Traces) /\ ns = <<>> /\ host = <<1, 1>> /\ target = <<1, 1>> /\ ns0 = <<>> /\ renamed = <<>> /\ uniq = {}
TSpec == TInit /\ [][UNCHANGED <<vars, tid>>]_<<vars, tid>>
Used == CASE E.kind = "cell" -> {1, 2} [] E.kind = "rect" -> {1, 2, 3, 4} [] E.kind = "rows" -> {1, 3} [] E.kind = "cols" -> {2, 4}
HostCoord(i) == IF i \in {1, 3} THEN E.hr ELSE E.hc
CoordOK == \A i \in Used : E.body[i][1] = ResolveEnd(E.ends[i], HostCoord(i)) /\ E.body[i][2] = E.ends[i][2]
Verdict ==
  IF ~E.wellformed THEN "unreadable"
  ELSE IF ~CoordOK THEN "coordinates"
  ELSE IF E.sq = -1 THEN "unknown-sheet-qualifier"
  ELSE IF Resolve(E.ns, <<E.host[1], E.host[2]>>, <<E.sq, E.tq>>) # {<<E.target[1], E.target[2]>>} THEN
       (IF Resolve(E.ns, <<E.host[1], E.host[2]>>, <<E.sq, E.tq>>) = {} THEN "qualifier-matches-nothing"
        ELSE IF <<E.target[1], E.target[2]>> \in Resolve(E.ns, <<E.host[1], E.host[2]>>, <<E.sq, E.tq>>) THEN "qualifier-ambiguous" ELSE "qualifier-wrong-table")
  ELSE "ok"
Judge == PrintT("V " \o ToString(tid) \o " " \o Verdict)
====

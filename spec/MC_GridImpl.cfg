CONSTANTS MaxR = 3
MaxC = 3
Vals = {"a"}
Bug = "none"
D = 7
SPECIFICATION Spec
CONSTRAINT Depth
INVARIANT Rect
INVARIANT CellPos
INVARIANT RefinesGrid
CHECK_DEADLOCK FALSE

---- MODULE Loader ----
(***************************************************************************)
(* Loading a Numbers container (property C17): the pipeline of IWork.open  *)
(* and ObjectStore.__init__ with fault injection.                          *)
(*                                                                         *)
(* Stages in order:  exists, suffix, container (zip directory), plist,     *)
(* encrypted?, each archive member (read from the zip, sniff, un-frame and *)
(* parse, store), init of the store (largest identifier).  A fault is      *)
(* attached to one stage; the pipeline stops at the first stage that       *)
(* raises.  outcome is the class of what the caller sees.                  *)
(* Level A: Total - outcome is a document or one of the library's three    *)
(* error types, never anything else.  Which of the three is Level B.       *)
(* Level B: where the code translates errors; Mode "pinned" is the tree    *)
(* before the repair: CRC/zlib errors from ZipFile.read, an empty member   *)
(* (chunks[0]), a 1-3 byte member (struct.unpack in the sniffer) and an    *)
(* empty object store (max of nothing) escape untranslated.                *)
(***************************************************************************)
EXTENDS Integers, Sequences, FiniteSets, TLC
CONSTANTS Members, Mode
VARIABLES faults, stage, outcome
vars == <<faults, stage, outcome>>
Lib == {"Document", "FileError", "FileFormatError", "UnsupportedError"}
ContainerFaults == {"missing", "wrong-suffix", "truncated-0", "truncated-local-header", "truncated-in-member", "truncated-central-dir",
                    "truncated-end-record", "nested-index-damaged", "zip-feature", "bad-plist", "plist-xml-garbage", "plist-no-version", "plist-version-type", "missing-plist", "missing-build-history", "encrypted", "no-objects"}
MemberFaults == {"crc", "empty", "short", "cut-at-chunk", "cut-off-chunk", "trailing", "marker", "len-long", "len-short", "bad-snappy", "bad-varint",
                 "bad-archive-info", "unknown-type", "no-messages"}
AllFaults == [kind : ContainerFaults, at : {0}] \cup [kind : MemberFaults, at : Members]
Stages == <<"exists", "suffix", "container", "plist", "encrypted">> \o [i \in 1..Cardinality(Members) |-> <<"member", i>>] \o <<"init">>
\* what a fault does when its stage is reached: an outcome class, or "pass" (the stage completes; for a member: stored as an opaque blob / objects lost)
Effect(f) ==
  CASE f.kind = "missing" -> "FileError"
    [] f.kind = "wrong-suffix" -> "FileFormatError"
    [] f.kind \in {"truncated-0", "truncated-central-dir", "truncated-end-record", "truncated-local-header", "truncated-in-member"} -> "FileFormatError"
    [] f.kind = "nested-index-damaged" -> "FileFormatError"            \* the archives live in an Index.zip inside the zip, and that inner zip is damaged
    [] f.kind = "zip-feature" -> (IF Mode = "pinned" THEN "Other" ELSE "FileFormatError")   \* an intact zip asking for what zipfile does not do: version needed > 6.3,
                                                                            \* unknown compression method, encrypted member, patched data
    [] f.kind = "bad-plist" -> "pass"                                    \* malformed Properties.plist: a warning, not an error
    [] f.kind \in {"plist-xml-garbage", "plist-no-version", "plist-version-type"} -> (IF Mode = "pinned" THEN "Other" ELSE "pass")   \* so are the other ways of not stating a version
    [] f.kind \in {"missing-plist", "missing-build-history"} -> "FileFormatError"       \* either of the two metadata files (zip file or package folder)
    [] f.kind = "encrypted" -> "UnsupportedError"
    [] f.kind = "no-objects" -> (IF Mode = "pinned" THEN "Other" ELSE "FileFormatError")
    [] f.kind = "crc" -> (IF Mode = "pinned" THEN "Other" ELSE "FileFormatError")
    [] f.kind = "empty" -> (IF Mode = "pinned" THEN "Other" ELSE "pass")
    [] f.kind = "short" -> (IF Mode = "pinned" THEN "Other" ELSE "pass")
    [] f.kind \in {"marker", "len-long", "len-short", "cut-at-chunk", "cut-off-chunk", "trailing"} -> "pass"   \* the sniffer says "not an archive" (marker, or the
                                                                            \* chunk lengths no longer add up to the file length): stored as a blob
    [] f.kind \in {"bad-snappy", "bad-varint", "bad-archive-info", "unknown-type"} -> "FileFormatError"
    [] f.kind = "no-messages" -> (IF Mode = "pinned" THEN "Other" ELSE "FileFormatError")      \* a well-formed segment header that lists no message
StageOf(f) == CASE f.kind \in {"missing"} -> 1 [] f.kind = "wrong-suffix" -> 2
                [] f.kind \in {"truncated-0", "truncated-central-dir", "truncated-end-record", "truncated-local-header", "nested-index-damaged", "zip-feature"} -> 3
                [] f.kind \in {"bad-plist", "plist-xml-garbage", "plist-no-version", "plist-version-type", "missing-plist", "missing-build-history"} -> 4 [] f.kind = "encrypted" -> 5
                [] f.kind = "truncated-in-member" -> 3
                [] f.kind = "no-objects" -> Len(Stages)
                [] OTHER -> 5 + f.at
Init == /\ faults \in {{}} \cup {{f} : f \in AllFaults} \cup {{f, g} : f \in AllFaults, g \in AllFaults}
        /\ stage = 1 /\ outcome = "loading"
Advance == /\ outcome = "loading"
           /\ LET here == {f \in faults : StageOf(f) = stage}
                  bad == {f \in here : Effect(f) # "pass"} IN
              IF bad # {} THEN /\ outcome' = Effect(CHOOSE f \in bad : TRUE) /\ UNCHANGED <<faults, stage>>
              ELSE IF stage = Len(Stages) THEN outcome' = "Document" /\ UNCHANGED <<faults, stage>>
              ELSE stage' = stage + 1 /\ UNCHANGED <<faults, outcome>>
Next == Advance
Spec == Init /\ [][Next]_vars
Total == outcome \in Lib \cup {"loading"}
Terminates == <>(outcome # "loading")
EmitCase == outcome # "loading" => PrintT("F " \o ToString(faults) \o " -> " \o outcome)
====

---- MODULE Collections ----
(***************************************************************************)
(* Level B for C19: ItemsList.__getitem__ / __contains__ as containers.py  *)
(* performs them.  A state is one lookup on a list of n items.             *)
(* IndexAgreesWithOrder: for -n <= i < n the item is the one iteration     *)
(* order gives, otherwise IndexError.  ContainsFolds: membership ignores   *)
(* case.  Bug re-enables the defective variants.                           *)
(***************************************************************************)
EXTENDS Integers, Sequences, TLC
CONSTANTS MaxN, Bug
VARIABLES n, i
Init == n \in 1..MaxN /\ i \in (-2 * MaxN)..(2 * MaxN)
Next == UNCHANGED <<n, i>>
Spec == Init /\ [][Next]_<<n, i>>
\* the code: if key < 0: key += len; if key >= len: IndexError (defective) / if key < 0 or key >= len (repaired)
CodeIndex == LET k == IF i < 0 THEN i + n ELSE i IN
             IF k >= n \/ (Bug # "NegWrap" /\ k < 0) THEN -1
             ELSE IF k < 0 THEN k + n + 1 ELSE k + 1       \* python's own negative wrap on the underlying list (1-based position)
SpecIndex == IF i >= 0 /\ i < n THEN i + 1 ELSE IF i < 0 /\ i >= -n THEN n + i + 1 ELSE -1
IndexAgreesWithOrder == (i >= -2 * n /\ i <= 2 * n) => (CodeIndex = SpecIndex)
Fold(x) == IF x = "t" THEN "T" ELSE x
CodeContains(items, key) == IF Bug = "ContainsCaseSensitive" THEN key \in items ELSE Fold(key) \in {Fold(x) : x \in items}
ContainsFolds == n >= 1 => CodeContains({"T", "X"}, "t") /\ ~CodeContains({"X"}, "t") /\ CodeContains({"t"}, "T")
====

---- MODULE IWAFrame ----
(***************************************************************************)
(* IWA archive framing (properties C05, C06-chunking, C17-member faults).  *)
(*                                                                         *)
(* An archive stream is a sequence of segments; a segment is a header of   *)
(* h bytes that DECLARES the lengths of its messages, followed by the      *)
(* messages.  Bytes are modelled as unique tokens so that equality of      *)
(* byte sequences is identity of content:                                  *)
(*    <<"V", s, h, decl>>  the varint in front of segment s (carries the   *)
(*                         header length and, standing for the header's    *)
(*                         content, the declared message lengths)          *)
(*    <<"H", s, i>>        header byte i of segment s                      *)
(*    <<"M", s, j, i>>     byte i of message j of segment s                *)
(* A file is a sequence of chunks [marker, lenField, data]; CHUNK is the    *)
(* maximum data per chunk (65536 in reality).                              *)
(*                                                                         *)
(* Level A: Decode(Encode(s)) = s; Decode is independent of the cuts;      *)
(* every encoded chunk obeys the container rules; after encoding every     *)
(* declared length equals the message size.                                *)
(* Level B: the encoder's take-CHUNK loop, the 3-byte length field, the    *)
(* in-place repair of stale declared lengths, the decoder's offset walk.   *)
(* The WRITER never emits more than CHUNK bytes per chunk, but a READER    *)
(* must accept what the 3-byte length field can express: re-chunkings use  *)
(* pieces of up to 2 * CHUNK (shipped documents contain such chunks).      *)
(* Bug "DecLen2Bytes": the reader takes two of the three length bytes.     *)
(* A re-chunking may also contain an EMPTY chunk (two cut points that      *)
(* coincide: length field 0, no data) anywhere; it contributes nothing.    *)
(* Bug "EmptyChunkEndsStream": the reader takes it for the end.            *)
(***************************************************************************)
EXTENDS Integers, Sequences, FiniteSets, TLC
CONSTANTS CHUNK, MaxSegs, MaxMsgs, MaxLen, Bug,
          Empties     \* TRUE: the re-chunkings also include the cuts with one empty chunk put in
VARIABLES stream,   \* Seq([h, decl, msgs])   msgs = sequence of message lengths, decl = declared lengths (may be stale)
          cuts      \* a composition of the stream's byte length into chunk sizes (for the re-chunking property)
vars == <<stream, cuts>>

RECURSIVE SumSeq(_)
SumSeq(s) == IF s = <<>> THEN 0 ELSE Head(s) + SumSeq(Tail(s))
RECURSIVE Flat(_)
Flat(ss) == IF ss = <<>> THEN <<>> ELSE Head(ss) \o Flat(Tail(ss))

\* ---- serialisation of a stream whose declared lengths are decl
SegBytes(s, seg, decl) ==
  <<<<"V", s, seg.h, decl>>>> \o [i \in 1..seg.h |-> <<"H", s, i>>]
  \o Flat([j \in 1..Len(seg.msgs) |-> [i \in 1..seg.msgs[j] |-> <<"M", s, j, i>>]])
StreamBytes(st, repaired) == Flat([s \in 1..Len(st) |-> SegBytes(s, st[s], IF repaired THEN st[s].msgs ELSE st[s].decl)])

\* ---- Level B encoder: repair stale lengths, then cut into pieces of at most CHUNK
Repaired(st) == Bug # "StaleLength"
RECURSIVE Cut(_, _)
Cut(b, n) == IF b = <<>> THEN <<>>
             ELSE IF Len(b) <= n THEN <<b>> ELSE <<SubSeq(b, 1, n)>> \o Cut(SubSeq(b, n + 1, Len(b)), n)
LenField(n) == IF Bug = "LenField2Bytes" THEN n % 4 ELSE n        \* 3-byte field holds n; the defective one truncates
EncodeChunks(st) == LET b == StreamBytes(st, Repaired(st))
                        pieces == Cut(b, IF Bug = "Boundary" THEN CHUNK + 1 ELSE CHUNK)
                    IN [k \in 1..Len(pieces) |-> [marker |-> 0, lenField |-> LenField(Len(pieces[k])), data |-> pieces[k]]]

\* ---- decoder: concatenate the chunk data, then walk the segments using the header lengths
\* the reader cuts the file by the length fields it reads; a wrong length makes it lose the framing of everything that follows
DecLen(c) == IF Bug = "DecLen2Bytes" THEN c.lenField % CHUNK ELSE c.lenField
Considered(chunks) == IF Bug = "EmptyChunkEndsStream" /\ \E k \in 1..Len(chunks) : chunks[k].lenField = 0
                        THEN SubSeq(chunks, 1, (CHOOSE k \in 1..Len(chunks) : chunks[k].lenField = 0 /\ \A j \in 1..(k - 1) : chunks[j].lenField # 0) - 1)
                      ELSE chunks
Concat(chunks0) == LET chunks == Considered(chunks0) IN
                  IF \E k \in 1..Len(chunks) : DecLen(chunks[k]) # Len(chunks[k].data) THEN <<<<"X">>>>
                  ELSE Flat([k \in 1..Len(chunks) |-> chunks[k].data])
RECURSIVE TakeMsgs(_, _, _)
TakeMsgs(b, p, decl) == \* lengths actually taken for the declared lengths, starting at position p (1-based)
  IF decl = <<>> THEN <<>> ELSE <<Head(decl)>> \o TakeMsgs(b, p + Head(decl), Tail(decl))
RECURSIVE Walk(_, _)
Walk(b, p) == \* -> sequence of [h, msgs (as cut by the declared lengths), content]
  IF p > Len(b) THEN <<>>
  ELSE IF b[p][1] # "V" THEN <<[h |-> -1, msgs |-> <<>>, content |-> <<>>]>>      \* lost framing
  ELSE LET h == b[p][3] decl == b[p][4] total == 1 + h + SumSeq(decl) IN
       IF p + total - 1 > Len(b) THEN <<[h |-> -1, msgs |-> <<>>, content |-> <<>>]>>
       ELSE <<[h |-> h, msgs |-> decl, content |-> SubSeq(b, p, p + total - 1)]>> \o Walk(b, p + total)
Decode(chunks) == Walk(Concat(chunks), 1)
\* what a faithful decode of st looks like
Expected(st) == [s \in 1..Len(st) |-> [h |-> st[s].h, msgs |-> st[s].msgs, content |-> SegBytes(s, st[s], st[s].msgs)]]

\* ---- re-chunking: the same bytes cut at the positions given by cuts
RECURSIVE CutBy(_, _)
CutBy(b, cs) == IF cs = <<>> THEN <<>> ELSE <<[marker |-> 0, lenField |-> Head(cs), data |-> SubSeq(b, 1, Head(cs))]>>
                                            \o CutBy(SubSeq(b, Head(cs) + 1, Len(b)), Tail(cs))
RECURSIVE Compositions(_)
Compositions(n) == IF n = 0 THEN {<<>>} ELSE UNION {{<<k>> \o c : c \in Compositions(n - k)} : k \in 1..(IF n < 2 * CHUNK THEN n ELSE 2 * CHUNK)}

\* ... and the same cuts with one empty chunk put in anywhere
WithEmpty(cs) == cs \cup UNION {{SubSeq(c, 1, k) \o <<0>> \o SubSeq(c, k + 1, Len(c)) : k \in 0..Len(c)} : c \in cs}
Segs == [h : 1..2, msgs : UNION {[1..k -> 0..MaxLen] : k \in 0..MaxMsgs}]
WithDecl(seg) == {[h |-> seg.h, msgs |-> seg.msgs, decl |-> d] : d \in {seg.msgs} \cup {[j \in 1..Len(seg.msgs) |-> (seg.msgs[j] + 1) % (MaxLen + 1)]}}
Init == /\ stream \in UNION {[1..n -> UNION {WithDecl(sg) : sg \in Segs}] : n \in 0..MaxSegs}
        /\ cuts = <<>>
Rechunk == /\ cuts = <<>> /\ Len(StreamBytes(stream, TRUE)) > 0
           /\ cuts' \in (IF Empties THEN WithEmpty(Compositions(Len(StreamBytes(stream, TRUE)))) ELSE Compositions(Len(StreamBytes(stream, TRUE))))
           /\ UNCHANGED stream
Next == Rechunk
Spec == Init /\ [][Next]_vars

\* ---- Level A
RoundTrip == Decode(EncodeChunks(stream)) = Expected(stream)
ChunkRules == \A k \in 1..Len(EncodeChunks(stream)) : LET c == EncodeChunks(stream)[k] IN
                 c.marker = 0 /\ c.lenField = Len(c.data) /\ Len(c.data) <= CHUNK /\ Len(c.data) > 0
DataComplete == SumSeq([k \in 1..Len(EncodeChunks(stream)) |-> Len(EncodeChunks(stream)[k].data)]) = Len(StreamBytes(stream, TRUE))
ChunkingIndependent == cuts # <<>> => Decode(CutBy(StreamBytes(stream, TRUE), cuts)) = Expected(stream)
\* compact emission of the re-chunking cases for the spec -> code replay
EmitCuts == cuts # <<>> => PrintT("C " \o ToString(Len(StreamBytes(stream, TRUE))) \o " " \o ToString(cuts))
====

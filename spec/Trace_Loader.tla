---- MODULE Trace_Loader ----
(***************************************************************************)
(* Code -> spec binding for C17: one event per attempt to load a damaged   *)
(* or foreign file.  loading = the class of what ObjectStore(path) (the    *)
(* container loader: unzip, un-frame, decode archives, initialise the      *)
(* store) returned or raised; after = what Document(path) did beyond that  *)
(* point (informational, outside C17); predicted = Loader.tla's outcome    *)
(* for the same fault set, or "" for random damage.                        *)
(***************************************************************************)
EXTENDS Integers, Sequences, TLC, Json, IOUtils, TLCExt
Traces == ndJsonDeserialize(IOEnv.TRACE_FILE)
VARIABLE tid
Ev == Traces[tid]
TInit == tid \in 1..Len(Traces)
TSpec == TInit /\ [][UNCHANGED tid]_tid
Lib == {"Document", "FileError", "FileFormatError", "UnsupportedError"}
LevelA == IF Ev.loading \in Lib THEN "ok" ELSE "escaped"
LevelB == IF Ev.predicted = "" \/ Ev.predicted = Ev.loading THEN "ok" ELSE "class-differs"
Judge == PrintT("V " \o ToString(tid) \o " " \o LevelA \o " " \o LevelB)
====

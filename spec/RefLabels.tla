---- MODULE RefLabels ----
(***************************************************************************)
(* Row and column references printed with HEADER LABELS (property C09:     *)
(* "header rows/columns absent, present with unique labels, present with   *)
(* labels duplicated within the table, sheet or document").                *)
(*                                                                         *)
(* Every table has NL lines (rows, or columns) on its labelled axis; the   *)
(* header cell of a line holds a label or is empty ("").  A stored         *)
(* reference points at the lines i..j (i <= j) of a target table; the      *)
(* begin end may be absolute ('$').  It is printed either with numbers /   *)
(* column letters (Refs.tla judges those) or with labels:                  *)
(*        [Sheet::][Table::] L1 [: L2]                                     *)
(*                                                                         *)
(* Level A (Denotes): read with the document's own names and labels, the   *)
(* printed text denotes exactly the stored lines of exactly the stored     *)
(* table.  Reading rule (the most permissive one consistent with what      *)
(* Numbers itself prints, see tests/data/create-formulas.numbers): the     *)
(* qualifiers select tables as in Refs.tla; a span names lines of ONE      *)
(* table that carries both labels; without a table qualifier the nearest   *)
(* scope that contains such a table counts (host table, host sheet, whole  *)
(* document).  A label repeated on the axis of its table names nothing.    *)
(* The denoted set must be the singleton {target lines}.                   *)
(*                                                                         *)
(* Level B (Printed): the chooser of xrefs.py - ScopedNameRefCache scopes  *)
(* (DOCUMENT / SHEET / TABLE / NONE) and CellRange.expand_ref.  TLC checks *)
(* that it satisfies Level A on every namespace and labelling.             *)
(* Bug = "EmptyLabelUsable": a single empty header cell counts as a label  *)
(* (pinned tree: the reference prints as '$:$').                           *)
(* Bug = "SpanEndUnchecked": only the first line of a span is checked for  *)
(* a usable label (pinned tree: 'x:None').                                 *)
(* Bug = "SheetScopeAnywhere": a sheet-unique label printed bare from any  *)
(* sheet.                                                                  *)
(* CROSS LABELS: a table may also have a header on its OTHER axis (a table *)
(* referenced by column labels can have row labels as well).  xlab[x] is   *)
(* the set of labels on that other axis.  A label that heads both a column *)
(* and a row of one table names two different things; like a label that   *)
(* is repeated on one axis it names nothing (Level A), so it must not be   *)
(* used.                                                                   *)
(* Bug = "CrossAxisIgnored": the chooser looks at one axis at a time       *)
(* (pinned tree: column C and row 4 of Data both print as Data::x).        *)
(***************************************************************************)
EXTENDS Refs
CONSTANTS Labels, NL, MaxTotal, CrossOn
VARIABLES lab,      \* [Tables(ns) -> [1..NL -> Labels \cup {""}]]
          xlab,     \* [Tables(ns) -> SUBSET Labels]: the labels on the other axis of each table
          line,     \* <<i, j>> with i <= j: the stored target lines
          ab        \* the begin end is absolute
lvars == <<vars, lab, xlab, line, ab>>
None == ""
AllT == Tables(ns)
\* ---- which lines have a label that can be used at all: non-empty and unique on its axis in its table
CountIn(x, L) == Cardinality({k \in 1..NL : lab[x][k] = L})
Usable(x, i) == /\ (lab[x][i] # None \/ Bug = "EmptyLabelUsable")
                /\ CountIn(x, lab[x][i]) = 1
                /\ (lab[x][i] \notin xlab[x] \/ Bug = "CrossAxisIgnored")
UsableLines(S, L) == {<<x, i>> \in S \X (1..NL) : Usable(x, i) /\ lab[x][i] = L}
\* usable names on the other axis: those that do not occur on the referenced axis of their table at all
XUsable(x, L) == L \in xlab[x] /\ (CountIn(x, L) = 0 \/ Bug = "CrossAxisIgnored")
Occ(S, L) == Cardinality(UsableLines(S, L)) + Cardinality({x \in S : XUsable(x, L)})
SheetOf(s) == {x \in AllT : x[1] = s}
Scope(x, i) == LET L == lab[x][i] IN
               IF Occ(AllT, L) = 1 THEN "DOC"
               ELSE IF Occ(SheetOf(x[1]), L) = 1 THEN "SHEET"
               ELSE IF UniqueInDoc(ns, NameOf(ns, x)) THEN "TABLE" ELSE "NONE"
\* ---- Level B: expand_ref.  Returns the qualifier pair <<sheet or 0, table name or "">>
Prefix(h, t, scope, isabs, noprefix) ==
  IF noprefix \/ scope = "DOC" THEN <<0, "">>
  ELSE IF h = t THEN <<0, "">>
  ELSE IF scope = "SHEET" /\ (h[1] = t[1] \/ Bug = "SheetScopeAnywhere") THEN (IF isabs THEN <<0, NameOf(ns, t)>> ELSE <<0, "">>)
  ELSE IF h[1] = t[1] \/ scope = "TABLE" \/ UniqueInDoc(ns, NameOf(ns, t)) THEN <<0, NameOf(ns, t)>>
  ELSE <<t[1], NameOf(ns, t)>>
\* printed form: [num |-> TRUE] = numbers / letters (body judged by Refs.tla), else labels l1 (and l2 when a span)
Labelled(t, i, j) == IF Bug = "SpanEndUnchecked" THEN Usable(t, i) ELSE Usable(t, i) /\ Usable(t, j)
Printed2(h, t, i, j, isabs, single) ==
  IF single THEN
       (IF Usable(t, i) THEN [num |-> FALSE, q |-> Prefix(h, t, Scope(t, i), isabs, FALSE), l1 |-> lab[t][i], l2 |-> lab[t][i]]
        ELSE [num |-> TRUE, q |-> Prefix(h, t, "NONE", isabs, FALSE), l1 |-> None, l2 |-> None])
  ELSE IF Labelled(t, i, j) THEN
       [num |-> FALSE, q |-> Prefix(h, t, Scope(t, i), isabs, Scope(t, i) = "DOC" \/ (Usable(t, j) /\ Scope(t, j) = "DOC")),
        l1 |-> lab[t][i], l2 |-> IF Usable(t, j) THEN lab[t][j] ELSE "None"]
  ELSE [num |-> TRUE, q |-> Prefix(h, t, "NONE", isabs, FALSE), l1 |-> None, l2 |-> None]
\* ---- Level A: what a printed label reference denotes, read from host h.  A label names a line when the header cell holds it.
\* (a label that occurs twice on the axis of its table names nothing: Numbers itself refers to such lines by number)
\* ... and so does a label that heads lines of BOTH axes of its table: within a table a name is usable when it occurs once among
\* all its header labels
LinesNamed(x, L) == {k \in 1..NL : lab[x][k] = L /\ L # None /\ CountIn(x, L) = 1 /\ L \notin xlab[x]}
CrossNamed(x, L) == L # None /\ L \in xlab[x] /\ CountIn(x, L) = 0      \* L heads a line of the other axis of x, and only that
Carries(x, L) == LinesNamed(x, L) # {} \/ CrossNamed(x, L)
Pair(x, l1, l2) == Carries(x, l1) /\ Carries(x, l2)
ScopeTables(h, q, l1, l2) ==
  IF q[2] # "" THEN {x \in Resolve(ns, h, q) : Pair(x, l1, l2)}
  ELSE IF Pair(h, l1, l2) THEN {h}
  ELSE LET sh == {x \in SheetOf(h[1]) : Pair(x, l1, l2)} IN
       IF sh # {} THEN sh ELSE {x \in AllT : Pair(x, l1, l2)}
\* <<x, 0, 0>> stands for "lines of the other axis of x"
Denoted(h, q, l1, l2) == UNION {{<<x, a, b>> : a \in LinesNamed(x, l1), b \in LinesNamed(x, l2)}
                                \cup (IF CrossNamed(x, l1) /\ CrossNamed(x, l2) THEN {<<x, 0, 0>>} ELSE {}) : x \in ScopeTables(h, q, l1, l2)}
Denotes(h, t, i, j, p) == IF p.num THEN Resolve(ns, h, p.q) = {t}
                          ELSE Denoted(h, p.q, p.l1, p.l2) = {<<t, i, j>>}

\* ---- behaviours: a namespace, a labelling, a host, a target, a reference
LabelRows == [1..NL -> Labels \cup {None}]
XSets == IF CrossOn THEN SUBSET Labels ELSE {{}}
Total(n) == Cardinality(Tables(n))
LInit == /\ ns \in UNION {[1..k -> {sq \in UNION {[1..m -> TableNames] : m \in 1..MaxTables} : Injective(sq)}] : k \in 1..MaxSheets}
         /\ Total(ns) <= MaxTotal
         /\ host \in (1..MaxSheets) \X (1..MaxTables) /\ target \in (1..MaxSheets) \X (1..MaxTables)
         /\ host \in Tables(ns) /\ target \in Tables(ns)
         /\ ns0 = ns /\ renamed = <<>> /\ uniq = {}
         /\ lab = [x \in Tables(ns) |-> [k \in 1..NL |-> None]] /\ xlab = [x \in Tables(ns) |-> {}] /\ line = <<0, 0>> /\ ab = FALSE
\* labels are chosen in a step, not in the initial state (TLC evaluates initial states on one thread)
Choose == /\ line = <<0, 0>>
          /\ lab' \in [Tables(ns) -> LabelRows]
          /\ xlab' \in [Tables(ns) -> XSets]
          /\ line' \in {<<i, j>> \in (1..NL) \X (1..NL) : i <= j}
          /\ ab' \in BOOLEAN
          /\ UNCHANGED vars
LNext == Choose
LSpec == LInit /\ [][LNext]_lvars
Chosen == line # <<0, 0>>
SpanDenotesTarget == Chosen => Denotes(host, target, line[1], line[2], Printed2(host, target, line[1], line[2], ab, FALSE))
SingleDenotesTarget == Chosen /\ line[1] = line[2] => Denotes(host, target, line[1], line[1], Printed2(host, target, line[1], line[1], ab, TRUE))
\* a span printed with labels never mixes a label with something that is not one
NoHalfLabels == Chosen => LET p == Printed2(host, target, line[1], line[2], ab, FALSE) IN ~p.num => p.l1 \in Labels /\ p.l2 \in Labels
EmitLabelCase == Chosen =>
  PrintT("L " \o ToString(ns) \o " " \o ToString(host) \o " " \o ToString(target) \o " " \o ToString([s \in 1..Len(ns) |-> [t \in 1..Len(ns[s]) |-> lab[<<s, t>>]]]) \o " " \o ToString(line) \o " " \o ToString(ab))
====

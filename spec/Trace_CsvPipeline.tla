---- MODULE Trace_CsvPipeline ----
(***************************************************************************)
(* Code -> spec binding for C20: one event per conversion run.             *)
(*   status  : "ok" | "error" (one line on stderr, non-zero exit) | "crash" *)
(*   inrows / outrows : number of rows and columns of the CSV given / of    *)
(*             the exported CSV                                            *)
(*   cells   : per input cell, in output reading order expected by Level A *)
(*             (data rows reversed iff --reverse): <<class, in, out>> where *)
(*             class is by the documented conversion, in/out are code      *)
(*             point sequences, and for numbers <<sign, digits, exponent>> *)
(*             of both spellings; out = <<-1>> when the exported grid has  *)
(*             no such cell                                                *)
(***************************************************************************)
EXTENDS Decimal, Json, IOUtils, TLCExt
Traces == ndJsonDeserialize(IOEnv.TRACE_FILE)
VARIABLE tid
Ev == Traces[tid]
TInit == tid \in 1..Len(Traces) /\ v = Zero
TSpec == TInit /\ [][UNCHANGED <<v, tid>>]_<<v, tid>>
N(x) == [s |-> x[1], d |-> x[2], e |-> x[3]]
CellOK(c) == CASE c[1] = "num" -> c[3] # <<-1>> /\ Len(c[3]) = 3 /\ Eq(N(c[2]), N(c[3]))
               [] c[1] = "empty" -> c[3] = <<>>
               [] OTHER -> c[2] = c[3]
BadClass == (CHOOSE k \in 1..Len(Ev.cells) : ~CellOK(Ev.cells[k]))
Verdict == IF Ev.status = "crash" THEN "crash"
           ELSE IF Ev.status = "error" THEN "ok"
           ELSE IF Ev.inshape # Ev.outshape THEN "shape"
           ELSE IF \E k \in 1..Len(Ev.cells) : ~CellOK(Ev.cells[k]) THEN "cell." \o Ev.cells[BadClass][1]
           ELSE "ok"
Judge == PrintT("V " \o ToString(tid) \o " " \o Verdict)
====

CONSTANTS R = 3
C = 2
Bug = "none"
SPECIFICATION Spec
INVARIANT IterExact
INVARIANT SameCell
INVARIANT NegativeRefused
CHECK_DEADLOCK FALSE

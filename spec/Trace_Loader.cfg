SPECIFICATION TSpec
INVARIANT Judge
CHECK_DEADLOCK FALSE

---- MODULE NumFormat ----
(***************************************************************************)
(* Displayed numbers (property C13).  A value is [s, d, e] as in           *)
(* Decimal.tla (at most 15 significant digits); a displayed text is a      *)
(* sequence of code points.  For each notation the text is READ here       *)
(* (decorations stripped: currency symbol or code, tab, grouping commas -   *)
(* valid only in the integer part in groups of three - parentheses or a    *)
(* minus sign, percent sign) and compared with the value rounded to the    *)
(* precision the text shows; at an exact decimal tie either neighbour is   *)
(* accepted.  All arithmetic is on digit sequences (TLC integers are 32    *)
(* bit): Expand, RoundAt with Inc (carry), long division by a small base.  *)
(***************************************************************************)
EXTENDS Integers, Sequences, FiniteSets, TLC
CONSTANT Bug
VARIABLE nv
Zeros(k) == [i \in 1..k |-> 0]
IsDigit(c) == c >= 48 /\ c <= 57
RECURSIVE StripLead(_)
StripLead(d) == IF d # <<>> /\ d[1] = 0 THEN StripLead(Tail(d)) ELSE d
RECURSIVE Inc(_)
Inc(d) == IF d = <<>> THEN <<1>> ELSE IF d[Len(d)] < 9 THEN [d EXCEPT ![Len(d)] = @ + 1] ELSE Append(Inc(SubSeq(d, 1, Len(d) - 1)), 0)
AllZero(d) == \A i \in 1..Len(d) : d[i] = 0

\* ---- decimal expansion of a value: <<integer digits, fraction digits>> (integer part without leading zeros)
Expand(d, e) == IF d = <<>> THEN <<<<>>, <<>>>>
                ELSE IF e >= 0 THEN <<d \o Zeros(e), <<>>>>
                ELSE LET k == -e IN IF Len(d) > k THEN <<SubSeq(d, 1, Len(d) - k), SubSeq(d, Len(d) - k + 1, Len(d))>>
                                    ELSE <<<<>>, Zeros(k - Len(d)) \o d>>
\* the value scaled by 10^p and rounded to an integer: the SET of acceptable results (two at an exact tie), as digit sequences
RoundAt(d, e, p) ==
  LET x == Expand(d, e)
      frac == x[2] \o Zeros(IF Len(x[2]) < p + 1 THEN p + 1 - Len(x[2]) ELSE 0)
      keep == StripLead(x[1] \o SubSeq(frac, 1, p))
      rest == SubSeq(frac, p + 1, Len(frac))
  IN IF rest[1] < 5 THEN {keep}
     ELSE IF rest[1] > 5 \/ ~AllZero(Tail(rest)) THEN {StripLead(Inc(keep))}
     ELSE {keep, StripLead(Inc(keep))}

\* ---- reading decimal / currency / percent texts
Minus == 45
IsDecor(c) == ~IsDigit(c) /\ c \notin {45, 40, 41, 46, 44, 37}         \* currency symbol or code, tab, space
RECURSIVE SkipDecor(_, _)
SkipDecor(t, i) == IF i <= Len(t) /\ IsDecor(t[i]) THEN SkipDecor(t, i + 1) ELSE i
RECURSIVE TakeInt(_, _, _, _)
TakeInt(t, i, acc, groups) == \* digits and commas: acc = digits, groups = lengths of the comma-separated groups so far
  IF i <= Len(t) /\ IsDigit(t[i]) THEN TakeInt(t, i + 1, Append(acc, t[i] - 48), [groups EXCEPT ![Len(groups)] = @ + 1])
  ELSE IF i <= Len(t) /\ t[i] = 44 THEN TakeInt(t, i + 1, acc, Append(groups, 0))
  ELSE <<acc, groups, i>>
RECURSIVE TakeDigits(_, _, _)
TakeDigits(t, i, acc) == IF i <= Len(t) /\ IsDigit(t[i]) THEN TakeDigits(t, i + 1, Append(acc, t[i] - 48)) ELSE <<acc, i>>
RECURSIVE DigitsValue(_)
DigitsValue(d) == IF d = <<>> THEN 0 ELSE DigitsValue(SubSeq(d, 1, Len(d) - 1)) * 10 + d[Len(d)]
GroupsOK(g) == Len(g) = 1 \/ (g[1] >= 1 /\ g[1] <= 3 /\ \A k \in 2..Len(g) : g[k] = 3)
ReadDecimal(t) == \* -> [ok, neg, int, frac, pct, grouped]
  LET i0 == SkipDecor(t, 1)
      paren == i0 <= Len(t) /\ t[i0] = 40
      i1 == IF paren THEN i0 + 1 ELSE i0
      minus == i1 <= Len(t) /\ t[i1] = Minus
      i2 == SkipDecor(t, IF minus THEN i1 + 1 ELSE i1)              \* "-€1.50" and "€-1.50" are both read
      ip == TakeInt(t, i2, <<>>, <<0>>)
      hasdot == ip[3] <= Len(t) /\ t[ip[3]] = 46
      fp == IF hasdot THEN TakeDigits(t, ip[3] + 1, <<>>) ELSE <<<<>>, ip[3]>>
      hasexp == fp[2] <= Len(t) /\ t[fp[2]] \in {69, 101}                \* automatic decimals may fall back to exponent spelling (2.05e-06)
      xneg == hasexp /\ fp[2] + 1 <= Len(t) /\ t[fp[2] + 1] = Minus
      xp == IF hasexp THEN TakeDigits(t, IF fp[2] + 1 <= Len(t) /\ t[fp[2] + 1] \in {43, 45} THEN fp[2] + 2 ELSE fp[2] + 1, <<>>) ELSE <<<<>>, fp[2]>>
      i3 == xp[2]
      pctIn == i3 <= Len(t) /\ t[i3] = 37                              \* "(12.5%)": the percent sign may sit inside the parentheses
      i3b == IF pctIn THEN i3 + 1 ELSE i3
      closed == paren /\ i3b <= Len(t) /\ t[i3b] = 41
      i4 == IF closed THEN i3b + 1 ELSE i3b
      pctOut == ~pctIn /\ i4 <= Len(t) /\ t[i4] = 37
      pct == pctIn \/ pctOut
      i5 == IF pctOut THEN i4 + 1 ELSE i4
  IN [ok |-> (ip[1] # <<>> \/ fp[1] # <<>>) /\ GroupsOK(ip[2]) /\ (paren <=> closed) /\ i5 = Len(t) + 1 /\ (hasdot => fp[1] # <<>>),
      neg |-> paren \/ minus, int |-> ip[1], frac |-> fp[1], pct |-> pct, grouped |-> Len(ip[2]) > 1,
      exp |-> IF hasexp THEN (IF xneg THEN -1 ELSE 1) * DigitsValue(xp[1]) ELSE 0]
\* Level A for decimal / currency / percent.  neg style 1 shows negative numbers without a sign (in red): the sign is not in the text.
DecimalOK(e) ==
  LET r == ReadDecimal(e.text)
      sh == (IF e.kind = "pct" THEN 2 ELSE 0) - r.exp
      p == Len(r.frac)
      shown == StripLead(r.int \o r.frac)
      zero == AllZero(r.int \o r.frac)
  IN /\ r.ok
     /\ (e.kind = "pct" <=> r.pct)
     /\ (e.places >= 0 => p = e.places)                                     \* the number of decimals shown is the number asked for
     /\ (e.places < 0 => p >= Len(Expand(e.v[2], e.v[3] + sh)[2]))             \* automatic: every digit of the value is shown (trailing zeros allowed)
     /\ shown \in RoundAt(e.v[2], e.v[3] + sh, p)
     /\ (zero \/ e.neg = 1 \/ (r.neg <=> e.v[1] = 1))                       \* the sign survives (a displayed zero has none)
     /\ (~e.sep => ~r.grouped)

\* ---- scientific: d.dddE+xx
RECURSIVE FindE(_, _)
FindE(t, i) == IF i > Len(t) THEN 0 ELSE IF t[i] = 69 THEN i ELSE FindE(t, i + 1)
RECURSIVE DigitsVal(_)
DigitsVal(d) == IF d = <<>> THEN 0 ELSE DigitsVal(SubSeq(d, 1, Len(d) - 1)) * 10 + d[Len(d)]
ScientificOK(e) ==
  LET k == FindE(e.text, 1)
      m == ReadDecimal(SubSeq(e.text, 1, k - 1))
      xs == SubSeq(e.text, k + 1, Len(e.text))
      xneg == xs # <<>> /\ xs[1] = Minus
      xd == TakeDigits(xs, IF xs # <<>> /\ xs[1] \in {43, 45} THEN 2 ELSE 1, <<>>)
      exp == (IF xneg THEN -1 ELSE 1) * DigitsVal(xd[1])
      p == Len(m.frac)
      d == e.v[2]
      adj == Len(d) - 1 + e.v[3]                                               \* exponent of the leading digit
      mant == m.int \o m.frac
      cands == RoundAt(d, -(Len(d) - 1), p)                                     \* value with the point after the first digit, rounded to p decimals
  IN IF d = <<>> THEN k > 0 /\ m.ok /\ AllZero(mant)
     ELSE /\ k > 0 /\ m.ok /\ Len(m.int) = 1 /\ xd[2] = Len(xs) + 1 /\ xd[1] # <<>>
          /\ (e.places >= 0 => p = e.places)
          /\ (m.neg <=> e.v[1] = 1)
          /\ \/ StripLead(mant) \in cands /\ Len(StripLead(mant)) = p + 1 /\ exp = adj
             \/ \E c \in cands : Len(c) = p + 2 /\ mant = SubSeq(c, 1, p + 1) /\ exp = adj + 1    \* 9.99 -> 10.0 = 1.00E+1

\* ---- number bases: long division of a decimal digit sequence by a small base
RECURSIVE DivStep(_, _, _, _)
DivStep(d, b, rem, q) == IF d = <<>> THEN <<StripLead(q), rem>> ELSE DivStep(Tail(d), b, (rem * 10 + Head(d)) % b, Append(q, (rem * 10 + Head(d)) \div b))
RECURSIVE ToBase(_, _)
ToBase(d, b) == IF d = <<>> THEN <<>> ELSE LET r == DivStep(d, b, 0, <<>>) IN Append(ToBase(r[1], b), r[2])     \* most significant first
DigitOf(c) == IF IsDigit(c) THEN c - 48 ELSE c - 55                               \* A = 10
RECURSIVE BitsInc(_)
BitsInc(bs) == IF bs = <<>> THEN <<1>> ELSE IF bs[Len(bs)] = 0 THEN [bs EXCEPT ![Len(bs)] = 1] ELSE Append(BitsInc(SubSeq(bs, 1, Len(bs) - 1)), 0)
TwosBits(mag) == \* two's complement of -mag with at least 32 bits (as the library words it): invert the padded magnitude and add one
  LET bits == ToBase(mag, 2)
      pow2 == \A i \in 2..Len(bits) : bits[i] = 0                          \* -2^k fits in k+1 bits
      need == IF pow2 THEN Len(bits) ELSE Len(bits) + 1
      n == IF need > 32 THEN need ELSE 32
      padded == Zeros(n - Len(bits)) \o bits
      inv == [i \in 1..n |-> 1 - padded[i]]
      res == BitsInc(inv)
  IN SubSeq(res, Len(res) - n + 1, Len(res))
RECURSIVE Regroup(_, _)
Regroup(bits, w) == \* bits (most significant first) -> digits of 2^w taken from the right
  IF bits = <<>> THEN <<>>
  ELSE LET k == IF Len(bits) >= w THEN w ELSE Len(bits)
           grp == SubSeq(bits, Len(bits) - k + 1, Len(bits))
           val == LET RECURSIVE V(_) V(g) == IF g = <<>> THEN 0 ELSE V(SubSeq(g, 1, Len(g) - 1)) * 2 + g[Len(g)] IN V(grp)
       IN Append(Regroup(SubSeq(bits, 1, Len(bits) - k), w), val)
BaseOK(e) ==
  LET neg == e.text # <<>> /\ e.text[1] = Minus
      body == IF neg THEN Tail(e.text) ELSE e.text
      digs == [i \in 1..Len(body) |-> DigitOf(body[i])]
      wellformed == body # <<>> /\ \A i \in 1..Len(digs) : digs[i] >= 0 /\ digs[i] < e.base
      ints == RoundAt(e.v[2], e.v[3], 0)                                          \* the value rounded to an integer (either neighbour at a tie)
      twos == ~e.minus /\ e.base \in {2, 8, 16} /\ e.v[1] = 1
  IN /\ wellformed
     /\ \E n \in ints :
          IF twos /\ n # <<>>
            THEN ~neg /\ StripLead(digs) = StripLead(IF e.base = 2 THEN TwosBits(n) ELSE Regroup(TwosBits(n), IF e.base = 8 THEN 3 ELSE 4))
            ELSE /\ StripLead(digs) = ToBase(n, e.base)
                 /\ (n = <<>> \/ (neg <=> e.v[1] = 1))
                 /\ Len(digs) >= e.places

\* ---- fractions of a fixed denominator D: "w n/d" reads as round(|value| * D) / D
RECURSIVE MulSmall(_, _, _)
MulSmall(d, k, carry) == \* digit sequence times a small number
  IF d = <<>> THEN (IF carry = 0 THEN <<>> ELSE MulSmall(<<>>, k, carry \div 10) \o <<carry % 10>>)
  ELSE LET x == d[Len(d)] * k + carry IN MulSmall(SubSeq(d, 1, Len(d) - 1), k, x \div 10) \o <<x % 10>>
RECURSIVE SmallDigits(_)
SmallDigits(k) == IF k = 0 THEN <<>> ELSE Append(SmallDigits(k \div 10), k % 10)
RECURSIVE AddSmall(_, _)
AddSmall(d, k) == \* digit sequence plus a small number
  IF k = 0 THEN d ELSE IF d = <<>> THEN SmallDigits(k)
  ELSE LET x == d[Len(d)] + k IN Append(AddSmall(SubSeq(d, 1, Len(d) - 1), x \div 10), x % 10)
FractionOK(e) == \* e.w (digit sequence), e.n, e.dn : whole part, numerator, denominator read from the text; e.D : the accuracy
  /\ e.wellformed /\ e.dn > 0 /\ e.n >= 0 /\ e.n <= e.dn
  /\ LET target == RoundAt(MulSmall(e.v[2], e.D, 0), e.v[3], 0)                     \* round(|value| * D)
         lhs == StripLead(MulSmall(IF e.n = 0 /\ e.w = <<>> THEN <<>> ELSE
                                   LET wd == MulSmall(e.w, e.dn, 0) IN IF e.n = 0 THEN wd ELSE
                                   AddSmall(wd, e.n), e.D, 0))
     IN \E t \in target : lhs = StripLead(MulSmall(t, e.dn, 0))                     \* (w*d + n) * D = round(v*D) * d
  /\ (e.zero \/ (e.negtext <=> e.v[1] = 1))

\* ---- model checking: the spec's own formatter Show agrees with the reader (Read(Show(v)) is the rounding of v)
Digit == 0..9
Show(d, e, p, sep, neg) == \* reference rendering: round half up at p places, group, sign
  LET x0 == Expand(d, e)
      trunc == StripLead(x0[1] \o SubSeq(x0[2] \o Zeros(p), 1, p))
      c == IF Bug = "Truncate" THEN trunc ELSE CHOOSE x \in RoundAt(d, e, p) : TRUE
      all == Zeros(IF Len(c) < p + 1 THEN p + 1 - Len(c) ELSE 0) \o c
      ip == SubSeq(all, 1, Len(all) - p)
      fp == SubSeq(all, Len(all) - p + 1, Len(all))
      RECURSIVE Group(_)
      Group(x) == IF Len(x) <= 3 THEN [i \in 1..Len(x) |-> 48 + x[i]] ELSE Group(SubSeq(x, 1, Len(x) - 3)) \o <<44>> \o [i \in 1..3 |-> 48 + x[Len(x) - 3 + i]]
      itxt == IF sep THEN Group(ip) ELSE [i \in 1..Len(ip) |-> 48 + ip[i]]
      ftxt == IF p = 0 THEN <<>> ELSE <<46>> \o (IF Bug = "CommaInDecimals" /\ sep THEN Group(fp) ELSE [i \in 1..p |-> 48 + fp[i]])
  IN (IF neg /\ ~AllZero(c) THEN <<Minus>> ELSE <<>>) \o itxt \o ftxt
Init == nv \in [d : UNION {[1..n -> Digit] : n \in 1..3}, e : -5..2, s : 0..1, p : 0..4, sep : BOOLEAN]
Next == UNCHANGED nv
Spec == Init /\ [][Next]_nv
ReaderAgrees == nv.d[1] # 0 =>
  DecimalOK([kind |-> "dec", text |-> Show(nv.d, nv.e, nv.p, nv.sep, nv.s = 1), v |-> <<nv.s, nv.d, nv.e>>, places |-> nv.p, neg |-> 0, sep |-> nv.sep])
BaseLaw == nv.d[1] # 0 /\ nv.e = 0 => \A b \in {2, 8, 16, 36} :
  LET digs == ToBase(nv.d, b) IN Len(digs) >= 1 /\ digs[1] # 0 /\ \A i \in 1..Len(digs) : digs[i] < b
====

---- MODULE Borders ----
(***************************************************************************)
(* Cell borders along ONE grid line of a table (property C15, borders).    *)
(* A grid line has N edge positions (the top edges of N cells in a row, or *)
(* the left edges of N cells in a column).                                 *)
(* Level A: edge[i] is NoBorder or the value of the most recent stroke     *)
(* covering position i (last writer wins).  The cell on one side reports   *)
(* it as its top (left) border, the cell on the other side as its bottom   *)
(* (right) border; the open document and the reopened file agree.          *)
(* Level B: the stroke layer of the file - a sequence of runs [origin,     *)
(* length, order, value] patched by add_stroke (cover / cut at the start / *)
(* cut at the end / split in the middle / append, then sort) - read back   *)
(* with "greatest order wins"; and the open cells' border objects, whose   *)
(* setters accept a value only if its order is greater.                    *)
(* Bug "StampAfterUpdate": the order is stamped on the stroke after the    *)
(* open cells were updated (the pinned tree).  Bug "FirstRunWins": the     *)
(* reader takes the first covering run.  Bug "OrderBeforeBump": the order  *)
(* of a new stroke is read before the layer's counter is advanced, so the  *)
(* first stroke drawn on a document loaded from a file (whose counter      *)
(* equals its latest order) ties with the latest existing stroke.          *)
(* The document may start empty or PRELOADED (one stroke over the whole    *)
(* line, counter = its order: what Numbers and the library itself leave    *)
(* in a file), and may be Reopened from the file saved after any stroke.   *)
(* Touch(k): an edit that is not a stroke but rebuilds the border objects  *)
(* of open cells - Table.write replaces the cells along the line           *)
(* ("touch-write"), Table.merge_cells elsewhere in the table rebuilds the  *)
(* border object of EVERY cell ("touch-merge").  Neither changes a border. *)
(* Bug "TouchForgetsBorders": the rebuilt objects start empty (pinned      *)
(* tree: CellBorder() in Cell._set_merge, and in Table.write).             *)
(* MergeOver(o, len): merge_cells of a range that STRADDLES the line at    *)
(* positions o..o+len-1: those edges are inside the range from now on and  *)
(* show nothing (hidden), in the open document and in the file.            *)
(* MergeOuter(o, len): a range whose OUTER edge is the line there: the     *)
(* cells that own the edges become anchor / placeholders, borders stay.    *)
(* Bug "AnchorShowsInner": the open document keeps showing a hidden edge;  *)
(* Bug "MergeForgetsOuter": the placeholders start without the borders of  *)
(* the cells they replace (both: pinned tree after F43).                   *)
(***************************************************************************)
EXTENDS Integers, Sequences, FiniteSets, TLC
CONSTANTS N, Values, MaxStrokes, Bug
VARIABLES edge, runs, openv, maxOrder, hist,
          hidden     \* edge positions that a later merge_cells put INSIDE a merged range: they show no border, whatever is drawn there
vars == <<edge, runs, openv, maxOrder, hist, hidden>>
NoBorder == "none"
Covers(run, i) == i >= run.origin /\ i < run.origin + run.length
\* what a reader of the file sees at position i
FileView(rs, i) ==
  LET cov == {k \in 1..Len(rs) : Covers(rs[k], i)} IN
  IF cov = {} THEN NoBorder
  ELSE IF Bug = "FirstRunWins" THEN rs[CHOOSE k \in cov : \A j \in cov : k <= j].value
  ELSE rs[CHOOSE k \in cov : \A j \in cov : rs[k].order >= rs[j].order].value
NewRun(o, len, ord, v) == [origin |-> o, length |-> len, order |-> ord, value |-> v]
\* add_stroke: patch every existing run of the layer, then append unless an existing run was overwritten, then sort
PatchRun(run, o, len, ord, v) == \* -> sequence of runs replacing run, and whether it was "patched" (fully overwritten)
  LET s == run.origin e == run.origin + run.length IN
  IF o <= s /\ o + len >= e THEN <<<<NewRun(o, len, ord, v)>>, TRUE>>
  ELSE IF o = s /\ len < run.length THEN <<<<[run EXCEPT !.origin = o + len, !.length = run.length - len]>>, FALSE>>
  ELSE IF o >= s /\ o < e /\ o + len = e THEN <<<<[run EXCEPT !.length = run.length - len]>>, FALSE>>
  ELSE IF o >= s /\ o < e /\ o + len >= s /\ o + len < e
         THEN <<<<[run EXCEPT !.length = o - s], [run EXCEPT !.origin = o + len, !.length = e - o - len]>>, FALSE>>
  ELSE <<<<run>>, FALSE>>
RECURSIVE PatchAll(_, _, _, _, _)
PatchAll(rs, o, len, ord, v) == IF rs = <<>> THEN <<<<>>, FALSE>>
                                ELSE LET h == PatchRun(Head(rs), o, len, ord, v) t == PatchAll(Tail(rs), o, len, ord, v) IN <<h[1] \o t[1], h[2] \/ t[2]>>
SortByOrigin(rs) == IF rs = <<>> THEN <<>> ELSE
  LET RECURSIVE Ins(_, _)
      Ins(x, s) == IF s = <<>> THEN <<x>> ELSE IF x.origin < Head(s).origin THEN <<x>> \o s ELSE <<Head(s)>> \o Ins(x, Tail(s))
      RECURSIVE Sort(_)
      Sort(s) == IF s = <<>> THEN <<>> ELSE Ins(Head(s), Sort(Tail(s)))
  IN Sort(rs)
\* a stroke that STARTS on a hidden edge is refused as a whole (documented: RuntimeWarning "edge is merged; border not set")
Stroke(o, len, v) ==
  /\ Len(hist) < MaxStrokes /\ o >= 1 /\ o + len - 1 <= N
  /\ IF o \in hidden THEN UNCHANGED <<edge, runs, openv, maxOrder>> ELSE
     LET ord == IF Bug = "OrderBeforeBump" THEN maxOrder ELSE maxOrder + 1
         p == PatchAll(runs, o, len, ord, v)
         setOrd == IF Bug = "StampAfterUpdate" THEN 0 ELSE ord           \* the order the open cells compare with
     IN /\ maxOrder' = maxOrder + 1
        /\ runs' = SortByOrigin(IF p[2] THEN p[1] ELSE Append(p[1], NewRun(o, len, ord, v)))
        /\ edge' = [i \in 1..N |-> IF i >= o /\ i < o + len /\ i \notin hidden THEN v ELSE edge[i]]
        /\ openv' = [i \in 1..N |-> IF i >= o /\ i < o + len /\ (openv[i].value = NoBorder \/ setOrd > openv[i].order)
                                      THEN [value |-> v, order |-> ord] ELSE openv[i]]
  /\ hist' = Append(hist, [o |-> o, len |-> len, v |-> v]) /\ UNCHANGED hidden
Empty == /\ edge = [i \in 1..N |-> NoBorder] /\ runs = <<>> /\ openv = [i \in 1..N |-> [value |-> NoBorder, order |-> 0]]
         /\ maxOrder = 1 /\ hist = <<>> /\ hidden = {}
Preloaded(v0) == /\ edge = [i \in 1..N |-> v0] /\ runs = <<NewRun(1, N, 1, v0)>> /\ openv = [i \in 1..N |-> [value |-> v0, order |-> 1]]
                 /\ maxOrder = 1 /\ hist = <<[o |-> 0, len |-> 0, v |-> v0]>> /\ hidden = {}   \* o = 0: "the line came with this border"
Init == Empty \/ \E v0 \in Values : Preloaded(v0)
\* the document is loaded again from the file written after the last stroke: the open cells hold what the file shows, with the orders stored there
OrderAt(rs, i) == LET cov == {k \in 1..Len(rs) : Covers(rs[k], i)} IN
                  IF cov = {} THEN 0 ELSE rs[CHOOSE k \in cov : \A j \in cov : rs[k].order >= rs[j].order].order
Reopen == /\ Len(hist) < MaxStrokes /\ hist # <<>> /\ hist[Len(hist)].v \notin {"reopen", "touch-write", "touch-merge", "touch-merge-over", "touch-merge-outer"}
          /\ openv' = [i \in 1..N |-> [value |-> FileView(runs, i), order |-> OrderAt(runs, i)]]
          /\ UNCHANGED <<edge, runs, maxOrder, hidden>>
          /\ hist' = Append(hist, [o |-> 0, len |-> 0, v |-> "reopen"])
Touches == {"touch-write", "touch-merge"}
Touch(k) == /\ Len(hist) < MaxStrokes /\ hist # <<>> /\ hist[Len(hist)].v \notin Touches
            /\ openv' = IF Bug = "TouchForgetsBorders" THEN [i \in 1..N |-> [value |-> NoBorder, order |-> 0]] ELSE openv
            /\ UNCHANGED <<edge, runs, maxOrder, hidden>>
            /\ hist' = Append(hist, [o |-> 0, len |-> 0, v |-> k])
\* at most one merge on the line per history (two ranges on one line could overlap)
NoMergeYet == \A k \in 1..Len(hist) : hist[k].v \notin {"touch-merge-over", "touch-merge-outer"}
Span(o, len) == {i \in 1..N : i >= o /\ i < o + len}          \* (not o..o+len-1: TLC would print the state as an interval)
MergeOver(o, len) == /\ Len(hist) < MaxStrokes /\ hist # <<>> /\ NoMergeYet /\ o >= 1 /\ o + len - 1 <= N
                     /\ hidden' = hidden \cup Span(o, len)
                     /\ edge' = [i \in 1..N |-> IF i \in Span(o, len) THEN NoBorder ELSE edge[i]]
                     /\ UNCHANGED <<runs, openv, maxOrder>>
                     /\ hist' = Append(hist, [o |-> o, len |-> len, v |-> "touch-merge-over"])
MergeOuter(o, len) == /\ Len(hist) < MaxStrokes /\ hist # <<>> /\ NoMergeYet /\ o >= 1 /\ o + len - 1 <= N
                      /\ openv' = IF Bug = "MergeForgetsOuter" THEN [i \in 1..N |-> IF i \in Span(o, len) /\ i > o THEN [value |-> NoBorder, order |-> 0] ELSE openv[i]]
                                   ELSE openv
                      /\ UNCHANGED <<edge, runs, maxOrder, hidden>>
                      /\ hist' = Append(hist, [o |-> o, len |-> len, v |-> "touch-merge-outer"])
Next == \/ \E o \in 1..N, len \in 1..N, v \in Values : Stroke(o, len, v)
        \/ Reopen
        \/ \E k \in Touches : Touch(k)
        \/ \E o \in 1..(N - 1) : MergeOver(o, 2) \/ MergeOuter(o, 2)
Spec == Init /\ [][Next]_vars
NoHist == <<edge, runs, openv, maxOrder, hidden>>
\* what a reader reports: nothing on an edge inside a merged range
FileShown(i) == IF i \in hidden THEN NoBorder ELSE FileView(runs, i)
OpenShown(i) == IF i \in hidden /\ Bug # "AnchorShowsInner" THEN NoBorder ELSE openv[i].value
FileAgrees == \A i \in 1..N : FileShown(i) = edge[i]                    \* the saved file shows the last writer
OpenAgrees == \A i \in 1..N : OpenShown(i) = edge[i]                    \* so does the open document
====

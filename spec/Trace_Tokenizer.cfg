CONSTANTS Alphabet = {"a"}
L = 0
Bug = "none"
SPECIFICATION TSpec
INVARIANT Judge
INVARIANT Total
INVARIANT LosslessInv
INVARIANT LosslessDone
INVARIANT NoQuotedSplit
CHECK_DEADLOCK FALSE

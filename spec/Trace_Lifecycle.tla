---- MODULE Trace_Lifecycle ----
(***************************************************************************)
(* Code -> spec binding for C02 / C06.  One ndjson line per schedule run   *)
(* on one document:  init = the observation of a pristine instance of the  *)
(* source; ev = open / access(k) / save (obs = observation of the file     *)
(* just written, read by a fresh instance, exc = exception text or "") /   *)
(* rewrite (obs = observation of the rewritten copy) / refused (a save in  *)
(* one form over a file of the other form that raised; obs = observation   *)
(* of the target afterwards).                                              *)
(* An observation is a sequence of sheets [name, tables], a table is       *)
(* [name, nr, nc, values, formulas, formatted, rich, merges] with digests  *)
(* of the canonical per-cell records (exempt cells already removed by the  *)
(* driver from both sides, "exempt" for exempt tables).                    *)
(***************************************************************************)
EXTENDS Integers, Sequences, TLC, Json, IOUtils, TLCExt
Traces == ndJsonDeserialize(IOEnv.TRACE_FILE)
VARIABLES orig, tid, l
vars == <<orig, tid, l>>
RejBase == 1000000
NEv == Len(Traces[tid].ev)
Evt == Traces[tid].ev[l]
Comps == {"values", "formulas", "formatted", "rich", "merges"}
SameShape(a, b) == /\ Len(a) = Len(b)
                   /\ \A s \in 1..Len(a) : a[s].name = b[s].name /\ Len(a[s].tables) = Len(b[s].tables)
                        /\ \A t \in 1..Len(a[s].tables) : a[s].tables[t].name = b[s].tables[t].name
SameDims(a, b) == \A s \in 1..Len(a) : \A t \in 1..Len(a[s].tables) :
                     a[s].tables[t].nr = b[s].tables[t].nr /\ a[s].tables[t].nc = b[s].tables[t].nc
Diff(a, b) == {<<s, t, c>> \in (1..Len(a)) \X (1..8) \X Comps : t <= Len(a[s].tables) /\ a[s].tables[t][c] # b[s].tables[t][c]}
Same(a, b) == SameShape(a, b) /\ SameDims(a, b) /\ \A s \in 1..Len(a) : \A t \in 1..Len(a[s].tables) : \A c \in Comps : a[s].tables[t][c] = b[s].tables[t][c]
FirstComp(a, b) == IF ~SameShape(a, b) THEN "sheets-tables" ELSE IF ~SameDims(a, b) THEN "dimensions"
                   ELSE (CHOOSE c \in Comps : \E s \in 1..Len(a) : \E t \in 1..Len(a[s].tables) : a[s].tables[t][c] # b[s].tables[t][c])
StepOK == CASE Evt.op \in {"open", "access"} -> Evt.exc = ""
            [] Evt.op \in {"save", "rewrite"} -> Evt.exc = "" /\ Same(orig, Evt.obs)       \* in either form (zip file, package folder)
            [] Evt.op = "refused" -> Evt.exc = "" /\ Same(orig, Evt.obs)                    \* Lifecycle!RefusalKeeps: the target is as it was
            [] OTHER -> FALSE
Clause == IF Evt.exc # "" THEN Evt.op \o ".raised" ELSE Evt.op \o ".differs." \o FirstComp(orig, Evt.obs)
TInit == tid \in 1..Len(Traces) /\ l = 1 /\ orig = Traces[tid].init
Step == l <= NEv /\ StepOK /\ l' = l + 1 /\ UNCHANGED <<orig, tid>>
Reject == /\ l <= NEv /\ ~StepOK /\ PrintT(<<"REJECT", tid, l, Evt.op, Clause>>) /\ l' = RejBase + l /\ UNCHANGED <<orig, tid>>
Finish == (l = NEv + 1 \/ l >= RejBase) /\ UNCHANGED vars
TSpec == TInit /\ [][Step \/ Reject \/ Finish]_vars
Done == (l = NEv + 1) => PrintT(<<"ACCEPT", tid, NEv>>)
====

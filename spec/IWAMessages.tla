---- MODULE IWAMessages ----
(***************************************************************************)
(* Which message class decodes which message of an IWA segment (property   *)
(* C05: decode o encode is the identity on every well-formed archive).     *)
(*                                                                         *)
(* A segment header lists its messages: each has a type (an id of a known  *)
(* message class) or type 0 = a PATCH: a partial message of the class of   *)
(* another message of the same segment, named by base_message_index; only  *)
(* segments flagged should_merge carry patches.  The payload of a message  *)
(* is a canonical serialisation for ITS class; decoding with class K and   *)
(* re-encoding reproduces the bytes iff K is that class (another class     *)
(* reorders known/unknown fields or fails to parse).                       *)
(*                                                                         *)
(* Level A: BytesReproduced.  Level B: the decoder's dispatch of           *)
(* IWAArchiveSegment.from_buffer.  Bug = "PatchBaseFirst": patches always  *)
(* decoded with the class of the first message; "PatchLikeBasePosition":   *)
(* base index taken relative to the patch's own position.                  *)
(***************************************************************************)
EXTENDS Integers, Sequences, FiniteSets, TLC
CONSTANTS Types, MaxMsgs, Bug
VARIABLES merge,   \* should_merge flag of the segment
          msgs     \* Seq([type |-> t \in Types \cup {0}, base |-> index (1-based) of the base message, 0 if not a patch])
vars == <<merge, msgs>>
Regular(s) == {k \in 1..Len(s) : s[k].type # 0}
WellFormed(mg, s) == /\ Len(s) >= 1 /\ s[1].type # 0
                     /\ \A k \in 1..Len(s) : IF s[k].type = 0 THEN mg /\ s[k].base \in Regular(s) ELSE s[k].base = 0
Init == /\ merge \in BOOLEAN
        /\ msgs \in UNION {[1..n -> [type : Types \cup {0}, base : 0..MaxMsgs]] : n \in 1..MaxMsgs}
        /\ WellFormed(merge, msgs)
Next == UNCHANGED vars
Spec == Init /\ [][Next]_vars
\* the class a payload was written for
PayloadClass(k) == IF msgs[k].type = 0 THEN msgs[msgs[k].base].type ELSE msgs[k].type
\* Level B: from_buffer - "if message_info.type == 0 and archive_info.should_merge and payloads: class of message_infos[base]"
BaseUsed(k) == CASE Bug = "PatchBaseFirst" -> 1
                 [] Bug = "PatchLikeBasePosition" -> IF k - msgs[k].base >= 1 THEN k - msgs[k].base ELSE 1
                 [] OTHER -> msgs[k].base
DecodeClass(k) == IF msgs[k].type = 0 /\ merge /\ k > 1 THEN msgs[BaseUsed(k)].type ELSE msgs[k].type
BytesReproduced == \A k \in 1..Len(msgs) : DecodeClass(k) = PayloadClass(k)
EmitSegment == PrintT("G " \o ToString(merge) \o " " \o ToString([k \in 1..Len(msgs) |-> <<msgs[k].type, msgs[k].base>>]))
====

---- MODULE Trace_NumFormat ----
(***************************************************************************)
(* Code -> spec binding for C13: one event per displayed number.           *)
(*  kind: dec | cur | pct | sci | base | frac | fracn | rating             *)
(*  v = <<sign, digits, exponent>> of the cell's value, text = displayed    *)
(*  code points, plus the format parameters the relation needs.            *)
(***************************************************************************)
EXTENDS NumFormat, Json, IOUtils, TLCExt
Traces == ndJsonDeserialize(IOEnv.TRACE_FILE)
VARIABLE tid
E == Traces[tid]
TInit == tid \in 1..Len(Traces) /\ nv = [d |-> <<1>>, e |-> 0, s |-> 0, p |-> 0, sep |-> FALSE]
TSpec == TInit /\ [][UNCHANGED <<nv, tid>>]_<<nv, tid>>
Stars == \A i \in 1..Len(E.text) : E.text[i] = 9733
Verdict ==
  CASE E.kind \in {"dec", "cur", "pct"} -> IF DecimalOK(E) THEN "ok" ELSE "decimal"
    [] E.kind = "sci" -> IF ScientificOK(E) THEN "ok" ELSE "scientific"
    [] E.kind = "base" -> IF BaseOK(E) THEN "ok" ELSE "base"
    [] E.kind = "frac" -> IF FractionOK(E) THEN "ok" ELSE "fraction"
    [] E.kind = "fracn" -> IF E.wellformed /\ E.within /\ (E.zero \/ (E.negtext <=> E.v[1] = 1)) THEN "ok" ELSE "fraction-n"
    [] E.kind = "rating" -> IF Stars /\ <<Len(E.text)>> \in {StripLead(x) \o (IF StripLead(x) = <<>> THEN <<0>> ELSE <<>>) : x \in RoundAt(E.v[2], E.v[3], 0)} THEN "ok" ELSE "rating"
    [] OTHER -> "unknown-kind"
Judge == PrintT("V " \o ToString(tid) \o " " \o Verdict)
====

CONSTANTS MaxDigits = 0
MaxExp = 0
Bug = "none"
SPECIFICATION TSpec
INVARIANT Judge
CHECK_DEADLOCK FALSE

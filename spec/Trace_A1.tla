---- MODULE Trace_A1 ----
(***************************************************************************)
(* Code -> spec binding for C10: each trace line is one call of one of the *)
(* library's A1 conversion functions with its result; the judge evaluates  *)
(* the A1.tla reference definition on the same arguments.                  *)
(***************************************************************************)
EXTENDS A1, Json, IOUtils, TLCExt
Traces == ndJsonDeserialize(IOEnv.TRACE_FILE)
VARIABLE tid
Ev == Traces[tid]
TInit == tid \in 1..Len(Traces) /\ kind = "T" /\ n = 0
TNext == UNCHANGED <<vars, tid>>
TSpec == TInit /\ [][TNext]_<<vars, tid>>

Verdict ==
  CASE Ev.fn = "col_to_name"    -> IF Ev.out = Mark(Ev.ca) \o ColName(Ev.c) THEN "ok" ELSE "col-name"
    [] Ev.fn = "col_to_offset"  -> IF Ev.out = ColIndex(Ev.name) THEN "ok" ELSE "col-index"
    [] Ev.fn = "rowcol_to_cell" -> IF Ev.out = CellText(Ev.r, Ev.c, Ev.ra, Ev.ca) THEN "ok" ELSE "cell-text"
    [] Ev.fn = "cell_to_rowcol" -> IF <<Ev.r, Ev.c>> = Parse(Ev.text) THEN "ok" ELSE "cell-parse"
    [] Ev.fn = "range"          -> IF Ev.out = RangeText(Ev.r1, Ev.c1, Ev.r2, Ev.c2) THEN "ok" ELSE "range"
    [] Ev.fn = "negative"       -> IF Ev.outcome = "IndexError" THEN "ok" ELSE "negative-accepted"
    [] OTHER -> "unknown-event"
Judge == PrintT(<<"V", tid, Verdict>>)
====

---- MODULE Trace_Merges ----
(***************************************************************************)
(* Code -> spec binding for Merges.tla (C12).  One ndjson line per         *)
(* recorded history on one table.  Each event carries the PICTURE the API  *)
(* reports after the call: post = [nr, nc, anchors <<r,c,h,w>>,            *)
(* place <<r,c,r1,c1,r2,c2>>, ranges <<r1,c1,r2,c2>> (Table.merge_ranges), *)
(* cells (sparse values), bad (cells whose own position / plain-cell       *)
(* attributes are inconsistent)], and at every save also re = the picture  *)
(* of the saved file opened again.                                         *)
(***************************************************************************)
EXTENDS Merges, Json, IOUtils, TLCExt
Traces == ndJsonDeserialize(IOEnv.TRACE_FILE)
VARIABLES tid, l
tvars == <<vars, tid, l>>
RejBase == 1000000
NEv == Len(Traces[tid].ev)
Evt == Traces[tid].ev[l]
ToSet(seq) == {seq[i] : i \in 1..Len(seq)}
GridFrom(p) == [i \in 1..p.nr |-> [j \in 1..p.nc |->
                  IF \E x \in ToSet(p.cells) : x[1] = i /\ x[2] = j
                    THEN (CHOOSE x \in ToSet(p.cells) : x[1] = i /\ x[2] = j)[3] ELSE E]]

\* the recorded picture equals the picture of a specified state (g, ms)
Exact(p, g, ms) == /\ p.nr = Len(g) /\ p.nc = Len(g[1]) /\ p.bad = 0
                   /\ ToSet(p.anchors) = Anchors(ms) /\ Len(p.anchors) = Cardinality(ms)
                   /\ ToSet(p.place) = Placeholders(ms) /\ Len(p.place) = Cardinality(Placeholders(ms))
                   /\ ToSet(p.ranges) = ms /\ Len(p.ranges) = Cardinality(ms)
                   /\ ToSet(p.cells) = Sparse(g)
\* the recorded picture is consistent in itself
Consistent(p) == LET ms == ToSet(p.ranges) IN
                 /\ p.bad = 0 /\ GoodSet(ms, p.nr, p.nc) /\ Len(p.ranges) = Cardinality(ms)
                 /\ ToSet(p.anchors) = Anchors(ms) /\ Len(p.anchors) = Cardinality(ms)
                 /\ ToSet(p.place) = Placeholders(ms) /\ Len(p.place) = Cardinality(Placeholders(ms))
                 /\ \A x \in ToSet(p.cells) : ~IsPlaceholder(x[1], x[2], ms)
SamePicture(p, q) == /\ p.nr = q.nr /\ p.nc = q.nc /\ ToSet(p.anchors) = ToSet(q.anchors) /\ ToSet(p.place) = ToSet(q.place)
                     /\ ToSet(p.ranges) = ToSet(q.ranges) /\ ToSet(p.cells) = ToSet(q.cells) /\ p.bad = q.bad

Structural == Evt.op \in {"addrow", "addcol", "delrow", "delcol"}
BareAct ==
  CASE Evt.op = "merge"  -> Merge(Evt.rs)
    [] Evt.op = "write"  -> Write(Evt.r, Evt.c, Evt.v)
    [] Evt.op = "addrow" -> AddRow(Evt.n, Evt.at, Evt.d)
    [] Evt.op = "addcol" -> AddCol(Evt.n, Evt.at, Evt.d)
    [] Evt.op = "delrow" -> DelRow(Evt.n, Evt.at)
    [] Evt.op = "delcol" -> DelCol(Evt.n, Evt.at)
    [] Evt.op = "addtable" -> AddTable
    [] Evt.op = "save"   -> Save
    [] Evt.op = "reopen" -> Reopen
    [] OTHER -> FALSE
\* structural edits: Level A fixes consistency only; the rectangles observed are adopted as the new state
\* (Level B - they moved with their cells - is reported as DRIFT when it differs)
StructStep == /\ Structural
              /\ \E a \in {Evt.at} :
                   /\ grid' = (CASE Evt.op = "addrow" -> Blank(InsRowsD(grid, a, Evt.n, Evt.d), ToSet(Evt.post.ranges))
                                 [] Evt.op = "addcol" -> Blank(InsColsD(grid, a, Evt.n, Evt.d), ToSet(Evt.post.ranges))
                                 [] Evt.op = "delrow" -> DelRows(grid, a, Evt.n) [] Evt.op = "delcol" -> DelCols(grid, a, Evt.n))
              /\ Consistent(Evt.post)
              /\ merges' = ToSet(Evt.post.ranges)
              /\ Evt.post.nr = Len(grid') /\ Evt.post.nc = Len(grid'[1]) /\ ToSet(Evt.post.cells) = Sparse(grid')
              /\ UNCHANGED disk /\ hist' = Append(hist, [op |-> Evt.op])
Cut == CASE Evt.op = "addrow" -> AnyCut(merges, "ins", 1, Evt.at, Evt.n) [] Evt.op = "addcol" -> AnyCut(merges, "ins", 2, Evt.at, Evt.n)
         [] Evt.op = "delrow" -> AnyCut(merges, "del", 1, Evt.at, Evt.n) [] Evt.op = "delcol" -> AnyCut(merges, "del", 2, Evt.at, Evt.n)
         [] OTHER -> FALSE
LevelBMerges == CASE Evt.op = "addrow" -> InsMerges(merges, 1, Evt.at, Evt.n) [] Evt.op = "addcol" -> InsMerges(merges, 2, Evt.at, Evt.n)
                  [] Evt.op = "delrow" -> DelMerges(merges, 1, Evt.at, Evt.n) [] Evt.op = "delcol" -> DelMerges(merges, 2, Evt.at, Evt.n)
                  [] OTHER -> merges
\* the picture of a table that was just added: nothing merged, nothing in it
Pristine(p) == p.bad = 0 /\ Len(p.anchors) = 0 /\ Len(p.place) = 0 /\ Len(p.ranges) = 0 /\ Len(p.cells) = 0
ExactStep == /\ ~Structural /\ BareAct /\ Exact(Evt.post, grid', merges')
             /\ (Evt.op = "save" => SamePicture(Evt.re, Evt.post))
             /\ (Evt.op = "addtable" => Pristine(Evt.fresh))
Matches == ExactStep \/ StructStep

Clause ==
  IF Structural THEN
       (IF ~Consistent(Evt.post) THEN (IF Cut THEN "edit.cut.inconsistent" ELSE "edit.move.inconsistent")
        ELSE (IF Cut THEN "edit.cut.grid" ELSE "edit.move.grid"))
  ELSE IF ~ENABLED BareAct THEN "not-enabled"
  ELSE IF ~ENABLED (BareAct /\ Exact(Evt.post, grid', merges')) THEN Evt.op \o ".picture"
  ELSE IF Evt.op = "addtable" THEN "addtable.new-table-not-pristine"
  ELSE "save.reopened-differs"

TInit == /\ tid \in 1..Len(Traces) /\ l = 1
         /\ grid = GridFrom(Traces[tid].init) /\ merges = ToSet(Traces[tid].init.ranges) /\ disk = <<>> /\ hist = <<>>
Step == /\ l <= NEv /\ Matches /\ l' = l + 1 /\ UNCHANGED tid
        /\ (Structural /\ ToSet(Evt.post.ranges) # LevelBMerges => PrintT(<<"DRIFT", tid, l, Evt.op>>))
Reject == /\ l <= NEv /\ ~ENABLED Matches
          /\ PrintT(<<"REJECT", tid, l, Evt.op, Clause>>)
          /\ l' = RejBase + l /\ UNCHANGED <<vars, tid>>
Finish == (l = NEv + 1 \/ l >= RejBase) /\ UNCHANGED tvars
TSpec == TInit /\ [][Step \/ Reject \/ Finish]_tvars
Done == (l = NEv + 1) => PrintT(<<"ACCEPT", tid, NEv>>)
====

---- MODULE Addressing ----
(***************************************************************************)
(* C11, read side and notation: a fixed R x C table whose cell (i, j)      *)
(* holds the value <<i, j>>.  A state is one call: an iterator call with   *)
(* its four bounds or a position-taking call in row/column or A1 form.     *)
(* Level A: IterExact (the exact rectangle in order, or IndexError when a  *)
(* bound lies outside the table; None = the extreme, 0 = 0), SameCell (the *)
(* A1 text of (r, c) parses back to (r, c), so both forms name one cell),  *)
(* NegativeRefused.  Level B models the code's bound handling             *)
(* (Table.iter_rows) with Bug switches for the defective variants.         *)
(***************************************************************************)
EXTENDS Integers, Sequences, TLC
CONSTANTS R, C, Bug
VARIABLES call
NoneV == -99
A1M == INSTANCE A1 WITH MaxCol <- 0, MaxRow <- 0, Bug <- "none", kind <- "X", n <- 0

Bounds(n) == {NoneV, -1, 0, 1, n - 1, n, n + 1}
Init == \/ call \in [op : {"iterrows"}, minr : Bounds(R), maxr : Bounds(R), minc : Bounds(C), maxc : Bounds(C)]
        \/ call \in [op : {"pos"}, r : -2..(R + 1), c : -2..(C + 1), form : {"rc", "a1"}]
Next == UNCHANGED call
Spec == Init /\ [][Next]_call

Val(i, j) == <<i, j>>      \* 0-based
\* Level A reference
Res(b, d) == IF b = NoneV THEN d ELSE b
SpecIter(mr, xr, mc, xc) ==
  LET r0 == Res(mr, 0) r1 == Res(xr, R - 1) c0 == Res(mc, 0) c1 == Res(xc, C - 1) IN
  IF r0 < 0 \/ c0 < 0 \/ r1 > R - 1 \/ c1 > C - 1 \/ r1 < 0 \/ c1 < 0 THEN <<"IndexError">>
  ELSE [i \in 1..(r1 - r0 + 1) |-> [j \in 1..(c1 - c0 + 1) |-> Val(r0 + i - 1, c0 + j - 1)]]
\* Level B: the code.  "x or d" treats 0 like None when Bug = "FalsyBound"; the upper bound test is > n
\* instead of >= n when Bug = "IterOnePast", in which case slicing silently truncates the columns.
Or(b, d) == IF b = NoneV \/ (Bug = "FalsyBound" /\ b = 0) THEN d ELSE b
Min(a, b) == IF a < b THEN a ELSE b
CodeIter(mr, xr, mc, xc) ==
  LET r0 == Or(mr, 0) r1 == Or(xr, R - 1) c0 == Or(mc, 0) c1 == Or(xc, C - 1)
      hiR == IF Bug = "IterOnePast" THEN R ELSE R - 1
      hiC == IF Bug = "IterOnePast" THEN C ELSE C - 1 IN
  IF r0 < 0 \/ c0 < 0 \/ r1 > hiR \/ c1 > hiC \/ r1 < 0 \/ c1 < 0 THEN <<"IndexError">>
  ELSE IF r1 > R - 1 THEN <<"IndexError">>      \* rows[row] raises when the generator reaches the missing row
  ELSE [i \in 1..(r1 - r0 + 1) |-> [j \in 1..(Min(c1, C - 1) - c0 + 1) |-> Val(r0 + i - 1, c0 + j - 1)]]
Inverted(mr, xr, mc, xc) == Res(mr, 0) > Res(xr, R - 1) \/ Res(mc, 0) > Res(xc, C - 1)
IterExact == call.op = "iterrows" /\ ~Inverted(call.minr, call.maxr, call.minc, call.maxc) =>
               CodeIter(call.minr, call.maxr, call.minc, call.maxc) = SpecIter(call.minr, call.maxr, call.minc, call.maxc)

\* position-taking calls: the A1 text of (r, c) is built by A1!CellText (row -1 is spelled "A0")
A1Text(r, c) == A1M!Mark(FALSE) \o A1M!ColName(c) \o A1M!Dec(r + 1)
Parsed(r, c) == IF c < 0 THEN <<r, c>> ELSE A1M!Parse(A1Text(r, c))
SameCell == call.op = "pos" /\ call.form = "a1" /\ call.c >= 0 /\ call.r >= -1 => Parsed(call.r, call.c) = <<call.r, call.c>>
CodeAccepts(r, c) == IF Bug = "NoNegativeCheck" THEN r < R /\ c < C ELSE r >= 0 /\ c >= 0 /\ r < R /\ c < C
NegativeRefused == call.op = "pos" /\ (call.r < 0 \/ call.c < 0) => ~CodeAccepts(call.r, call.c)
====

---- MODULE Package ----
(***************************************************************************)
(* The object store of a saved package (property C07): identifier          *)
(* allocation, placement of objects in archive files, component metadata,  *)
(* reference closure.                                                      *)
(*                                                                         *)
(* State: objs (id -> [file, refs]), the high-water mark recorded in the   *)
(* package metadata (lastId), the components listed there (file names),    *)
(* the ids / files that existed in the source, the targets that were       *)
(* already dangling in the source.  Actions are shaped like the code:      *)
(* NewMessageId; CreateObject into a new file or appended to an existing   *)
(* one (with AddComponentMetadata for a new file); Rewrite of an existing  *)
(* object's references (copy back before saving).                          *)
(* Data files (images): the package metadata registers them (datas: data   *)
(* id -> file under Data/), objects point at them with data references,    *)
(* the files are members of the package.  AddImage is add_cell_style with  *)
(* a background image: next data id, register, store the file, create the  *)
(* style object that refers to it.                                         *)
(* Level A invariants = the clauses of C07: FreshIds, Listed, Closed,      *)
(* DataClosed (a data reference names a registered data item whose file    *)
(* is in the package).                                                     *)
(***************************************************************************)
EXTENDS Integers, Sequences, FiniteSets, TLC
CONSTANTS SrcIds, SrcFiles, Dangling, MaxNew, Bug
VARIABLES objs, maxId, lastId, components, created, rewritten, ncreated,
          datas,     \* data ids registered in the package metadata
          blobs,     \* data ids whose file is a member of the package
          dref       \* <<object id, data id>>: data references of created objects
vars == <<objs, maxId, lastId, components, created, rewritten, ncreated, datas, blobs, dref>>
SrcDatas == {1, 2}
SetMax(S) == CHOOSE m \in S : \A x \in S : x <= m
Ids == DOMAIN objs
NewFileOf(id) == 100 + id
Init == /\ objs = [i \in SrcIds |-> [file |-> CHOOSE f \in SrcFiles : TRUE, refs |-> IF i = 1 THEN Dangling ELSE {}]]
        /\ maxId = 10 /\ lastId = 10 /\ components = SrcFiles /\ created = {} /\ rewritten = {} /\ ncreated = 0
        /\ datas = SrcDatas /\ blobs = SrcDatas /\ dref = {}
Alloc == IF Bug = "ReuseId" /\ ncreated = 1 THEN maxId ELSE maxId + 1
Create(newFile, refs) ==
  /\ ncreated < MaxNew
  /\ LET id == Alloc
         f == IF newFile THEN NewFileOf(id) ELSE CHOOSE f \in {objs[i].file : i \in Ids} : TRUE IN
     /\ objs' = [i \in Ids \cup {id} |-> IF i = id THEN [file |-> f, refs |-> refs] ELSE objs[i]]
     /\ maxId' = id /\ lastId' = (IF Bug = "StaleHighWater" THEN lastId ELSE id)
     /\ components' = IF newFile /\ Bug # "ForgetComponent" THEN components \cup {f} ELSE components
     /\ created' = created \cup {id} /\ ncreated' = ncreated + 1 /\ UNCHANGED <<rewritten, datas, blobs, dref>>
Rewrite(id, refs) == /\ id \in Ids /\ objs' = [objs EXCEPT ![id].refs = refs]
                     /\ rewritten' = rewritten \cup {id} /\ UNCHANGED <<maxId, lastId, components, created, ncreated, datas, blobs, dref>>
\* a cell style with a background image: the image is registered (unless its bytes are known: reuse), its file stored, and the new
\* style object refers to it
AddImage(reuse) ==
  /\ ncreated < MaxNew /\ (reuse => datas # SrcDatas)
  /\ LET id == Alloc
         d == IF reuse THEN SetMax(datas) ELSE SetMax(datas) + 1
         f == CHOOSE f \in {objs[i].file : i \in Ids} : TRUE IN
     /\ objs' = [i \in Ids \cup {id} |-> IF i = id THEN [file |-> f, refs |-> {}] ELSE objs[i]]
     /\ maxId' = id /\ lastId' = id /\ created' = created \cup {id} /\ ncreated' = ncreated + 1
     /\ datas' = IF Bug = "DataNotRegistered" THEN datas ELSE datas \cup {d}
     /\ blobs' = IF Bug = "DataFileNotStored" THEN blobs ELSE blobs \cup {d}
     /\ dref' = dref \cup {<<id, d>>}
     /\ UNCHANGED <<components, rewritten>>
Targets == Ids \cup Dangling \cup {Alloc} \cup (IF Bug = "DanglingRef" THEN {999} ELSE {})
Next == \/ \E nf \in BOOLEAN, r \in SUBSET (Ids \cup Dangling \cup (IF Bug = "DanglingRef" THEN {999} ELSE {})) : Cardinality(r) <= 1 /\ Create(nf, r)
        \/ \E id \in Ids, r \in SUBSET (Ids \cup Dangling) : Cardinality(r) <= 1 /\ Cardinality(rewritten) < 1 /\ Rewrite(id, r)
        \/ \E reuse \in BOOLEAN : AddImage(reuse)
Spec == Init /\ [][Next]_vars
FreshIds == created \cap SrcIds = {} /\ \A i \in created : i <= lastId
DistinctIds == Cardinality(created) = ncreated
Listed == \A i \in created : objs[i].file \notin SrcFiles => objs[i].file \in components
Closed == \A i \in created \cup rewritten : objs[i].refs \subseteq Ids \cup Dangling
DataClosed == /\ \A p \in dref : p[2] \in datas
              /\ \A d \in datas \ SrcDatas : d \in blobs
====

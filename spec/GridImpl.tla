---- MODULE GridImpl ----
(***************************************************************************)
(* Level B for C03: Table.add_row / add_column / delete_row / delete_column *)
(* / write as document.py performs them on a list of lists of cell OBJECTS  *)
(* that carry their own (row, col): slice insertion, then the renumbering   *)
(* loops with the ranges the code uses, then the default fill through       *)
(* write().  TLC checks that this refines the plain grid of Workbook.tla    *)
(* (RefinesGrid: values equal those of the plain grid subjected to the same *)
(* edits, kept in the shadow variable plain) and that every cell reports    *)
(* its own position (CellPos).  Bug re-enables defective variants.          *)
(***************************************************************************)
EXTENDS Integers, Sequences, TLC
CONSTANTS MaxR, MaxC, Vals, Bug, D
VARIABLES data,   \* Seq(Seq([v, r, c]))  - the code's _data (0-based r, c as in the code)
          plain   \* Seq(Seq(value))      - the Level-A grid
vars == <<data, plain>>
E == "e"
NR == Len(data)
NC == Len(data[1])
Cell(v, r, c) == [v |-> v, r |-> r, c |-> c]

\* for row in range(lo, hi): for col in range(ncols): data[row][col].row = row; .col = col   (0-based ranges, hi exclusive)
RenumRows(d, lo, hi) == [i \in 1..Len(d) |-> IF i - 1 >= lo /\ i - 1 < hi
                            THEN [j \in 1..Len(d[i]) |-> [d[i][j] EXCEPT !.r = i - 1, !.c = j - 1]] ELSE d[i]]
\* for col in range(len(row)): row[col].col = col
RenumCols(d) == [i \in 1..Len(d) |-> [j \in 1..Len(d[i]) |-> [d[i][j] EXCEPT !.c = j - 1]]]
Fill(d, r0, r1, c0, c1, v) == \* write(row, col, v) creates a fresh cell object at (row, col) for the 0-based block
  [i \in 1..Len(d) |-> [j \in 1..Len(d[i]) |-> IF i - 1 >= r0 /\ i - 1 < r1 /\ j - 1 >= c0 /\ j - 1 < c1 /\ v # E
                                                  THEN Cell(v, i - 1, j - 1) ELSE d[i][j]]]

\* plain-grid operations (Level A)
PInsRows(g, a, n, v) == SubSeq(g, 1, a) \o [i \in 1..n |-> [j \in 1..Len(g[1]) |-> v]] \o SubSeq(g, a + 1, Len(g))
PInsCols(g, a, n, v) == [i \in 1..Len(g) |-> SubSeq(g[i], 1, a) \o [j \in 1..n |-> v] \o SubSeq(g[i], a + 1, Len(g[i]))]
PDelRows(g, a, n) == SubSeq(g, 1, a) \o SubSeq(g, a + n + 1, Len(g))
PDelCols(g, a, n) == [i \in 1..Len(g) |-> SubSeq(g[i], 1, a) \o SubSeq(g[i], a + n + 1, Len(g[i]))]

AddRow(n, start, dflt) ==   \* start: 0-based index or -1 for None
  /\ NR + n <= MaxR
  /\ LET s == IF start = -1 THEN NR ELSE start
         new == [i \in 1..n |-> [j \in 1..NC |-> Cell(E, s + i - 1, j - 1)]]
         ins == SubSeq(data, 1, s) \o new \o SubSeq(data, s + 1, NR)
         ren == RenumRows(ins, IF Bug = "RenumberFromNext" THEN s + n + 1 ELSE s, NR + n)
     IN /\ data' = Fill(ren, s, s + n, 0, NC, dflt)
        /\ plain' = PInsRows(plain, s, n, dflt)
AddCol(n, start, dflt) ==
  /\ NC + n <= MaxC
  /\ LET s == IF start = -1 THEN NC ELSE start
         ins == [i \in 1..NR |-> SubSeq(data[i], 1, s) \o [j \in 1..n |-> Cell(E, i - 1, s + j - 1)] \o SubSeq(data[i], s + 1, NC)]
         ren == IF Bug = "ColsNotRenumbered" THEN ins ELSE RenumCols(ins)
         \* the code fills row i inside the row loop, before rows i+1.. are widened: harmless because write()
         \* touches only row i; the defective variant fills BEFORE inserting (values land one block to the left)
         fil == IF Bug = "DefaultBeforeInsert" /\ s > 0 THEN Fill(ren, 0, NR, s - 1, s - 1 + n, dflt) ELSE Fill(ren, 0, NR, s, s + n, dflt)
     IN /\ data' = fil
        /\ plain' = PInsCols(plain, s, n, dflt)
DelRow(n, start) ==
  /\ NR - n >= 1
  /\ LET s == IF start = -1 THEN NR - n ELSE start IN
     /\ s + n <= NR
     /\ LET del == SubSeq(data, 1, s) \o SubSeq(data, s + n + 1, NR)
        IN data' = (IF start = -1 \/ Bug = "DeleteNoRenumber" THEN del ELSE RenumRows(del, s, NR - n))
     /\ plain' = PDelRows(plain, s, n)
DelCol(n, start) ==
  /\ NC - n >= 1
  /\ LET s == IF start = -1 THEN NC - n ELSE start IN
     /\ s + n <= NC
     /\ data' = RenumCols([i \in 1..NR |-> SubSeq(data[i], 1, s) \o SubSeq(data[i], s + n + 1, NC)])
     /\ plain' = PDelCols(plain, s, n)
Write(r, c, v) == \* inside the table (growth is a loop of AddRow/AddCol steps: see Grow)
  /\ r < NR /\ c < NC
  /\ data' = [data EXCEPT ![r + 1][c + 1] = Cell(v, r, c)]
  /\ plain' = [plain EXCEPT ![r + 1][c + 1] = v]
Grow(r, c) == \* _validate_cell_coords: one add_row()/add_column() per missing row / column
  \/ r >= NR /\ AddRow(1, -1, E)
  \/ r < NR /\ c >= NC /\ AddCol(1, -1, E)

Init == data = <<<<Cell(E, 0, 0)>>>> /\ plain = <<<<E>>>>
Next == \/ \E n \in 1..2, s \in -1..(MaxR - 1), v \in Vals \cup {E} : s < NR /\ AddRow(n, s, v)
        \/ \E n \in 1..2, s \in -1..(MaxC - 1), v \in Vals \cup {E} : s < NC /\ AddCol(n, s, v)
        \/ \E n \in 1..2, s \in -1..(MaxR - 1) : s < NR /\ DelRow(n, s)
        \/ \E n \in 1..2, s \in -1..(MaxC - 1) : s < NC /\ DelCol(n, s)
        \/ \E r \in 0..(MaxR - 1), c \in 0..(MaxC - 1), v \in Vals : Write(r, c, v)
        \/ \E r \in 0..(MaxR - 1), c \in 0..(MaxC - 1) : Grow(r, c)
Spec == Init /\ [][Next]_vars
Depth == TLCGet("level") <= D

Rect == \A i \in 1..NR : Len(data[i]) = NC
CellPos == \A i \in 1..NR : \A j \in 1..Len(data[i]) : data[i][j].r = i - 1 /\ data[i][j].c = j - 1
RefinesGrid == /\ Len(plain) = NR
               /\ \A i \in 1..NR : /\ Len(plain[i]) = Len(data[i])
                                   /\ \A j \in 1..Len(data[i]) : data[i][j].v = plain[i][j]
====

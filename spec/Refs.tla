---- MODULE Refs ----
(***************************************************************************)
(* References in formulas (property C09).                                  *)
(*                                                                         *)
(* A document namespace is a sequence of sheets, each a sequence of table  *)
(* NAMES (unique within a sheet, possibly repeated in other sheets).  A    *)
(* stored reference lives in a host cell of a host table, points into a    *)
(* target table and has per end a stored number and an absolute flag: a    *)
(* relative end is stored as an offset from the host cell.                 *)
(* Level A, coordinates: the printed body shows, for every end, the        *)
(* resolved coordinate (host + offset, or the stored absolute one), a '$'  *)
(* exactly on the absolute ends, begin before end (Coord).                 *)
(* Level A, qualification: reading the printed qualifiers with the         *)
(* document's own names - none: the host table; T:: the table named T in   *)
(* the host sheet, else the tables named T anywhere; S::T:: the table T of *)
(* sheet S - yields exactly one table, the stored target (Resolve).        *)
(* Level B: the prefix chooser of CellRange.expand_ref (Printed); TLC      *)
(* checks that it satisfies Level A on every namespace.  Bug variants:     *)
(* "PrefixDropped" (a table name shared with another sheet printed without *)
(* its sheet), "AlwaysHostSheet" (T:: read against the target's sheet).    *)
(* Dynamics: a table may be RENAMED while the document is open (any name   *)
(* not used by a sibling); the property is then about the names as they    *)
(* are NOW.  The library keeps a cache of document-unique table names that *)
(* is refreshed at a few points only (uniq = the names that were unique    *)
(* at the last refresh); the prefix chooser must not depend on it: Bug =   *)
(* "StaleUniqueCache" does.                                                *)
(***************************************************************************)
EXTENDS Integers, Sequences, FiniteSets, TLC
CONSTANTS MaxSheets, MaxTables, TableNames, Bug
VARIABLES ns, host, target,
          ns0,        \* the namespace the document was built with
          renamed,    \* <<>> or <<table, new name>>: the rename performed since
          uniq        \* names that were unique in the document when the name cache was last rebuilt
vars == <<ns, host, target, ns0, renamed, uniq>>
Tables(n) == {<<s, t>> : s \in 1..Len(n), t \in 1..MaxTables} \cap {<<s, t>> \in (1..Len(n)) \X (1..MaxTables) : t <= Len(n[s])}
NameOf(n, x) == n[x[1]][x[2]]
SheetName(s) == s                        \* sheets are named by their index (sheet names are unique)
Injective(seq) == \A i, j \in 1..Len(seq) : i # j => seq[i] # seq[j]
\* ---- Level A: reading qualifiers.  q = <<sheet qualifier or 0, table qualifier or "">>
Resolve(n, h, q) ==
  IF q[2] = "" THEN {h}
  ELSE IF q[1] # 0 THEN {x \in Tables(n) : x[1] = q[1] /\ NameOf(n, x) = q[2]}
  ELSE LET inSheet == {x \in Tables(n) : x[1] = h[1] /\ NameOf(n, x) = q[2]} IN
       IF inSheet # {} THEN inSheet ELSE {x \in Tables(n) : NameOf(n, x) = q[2]}
\* ---- Level B: expand_ref for a plain (not name-scoped) reference
UniqueInDoc(n, nm) == Cardinality({x \in Tables(n) : NameOf(n, x) = nm}) = 1
UniqueNames(n) == {nm \in TableNames : UniqueInDoc(n, nm)}
PrintedWith(n, h, t, cache) ==
  IF h = t THEN <<0, "">>
  ELSE IF h[1] = t[1] THEN <<0, NameOf(n, t)>>
  ELSE IF UniqueInDoc(n, NameOf(n, t)) \/ Bug = "PrefixDropped" \/ (Bug = "StaleUniqueCache" /\ NameOf(n, t) \in cache) THEN <<0, NameOf(n, t)>>
  ELSE <<t[1], NameOf(n, t)>>
Printed(n, h, t) == PrintedWith(n, h, t, {})
Init == /\ ns \in UNION {[1..k -> {sq \in UNION {[1..m -> TableNames] : m \in 1..MaxTables} : Injective(sq)}] : k \in 1..MaxSheets}
        /\ host \in (1..MaxSheets) \X (1..MaxTables) /\ target \in (1..MaxSheets) \X (1..MaxTables)
        /\ host \in Tables(ns) /\ target \in Tables(ns)
        /\ ns0 = ns /\ renamed = <<>> /\ uniq = UniqueNames(ns)
\* Table.name = nm  (a sibling's name is not a legal new name); the name cache is NOT rebuilt by a rename
Rename(x, nm) == /\ renamed = <<>>
                 /\ x \in Tables(ns)
                 /\ \A t \in 1..Len(ns[x[1]]) : ns[x[1]][t] # nm
                 /\ ns' = [ns EXCEPT ![x[1]][x[2]] = nm]
                 /\ renamed' = <<x, nm>>
                 /\ UNCHANGED <<host, target, ns0, uniq>>
Next == \E x \in (1..MaxSheets) \X (1..MaxTables), nm \in TableNames : Rename(x, nm)
Spec == Init /\ [][Next]_vars
ExactlyTheTarget == Resolve(ns, host, PrintedWith(ns, host, target, uniq)) = {target}

\* one string per namespace case for the spec -> code replay
EmitCase == IF renamed = <<>> THEN PrintT("N " \o ToString(ns) \o " " \o ToString(host) \o " " \o ToString(target))
            ELSE PrintT("M " \o ToString(ns0) \o " " \o ToString(host) \o " " \o ToString(target) \o " " \o ToString(renamed[1]) \o " " \o renamed[2])
\* ---- coordinates (used by Trace_Refs): an end is <<stored number, absolute flag>>, the host coordinate is given
ResolveEnd(end, hostCoord) == IF end[2] THEN end[1] ELSE hostCoord + end[1]
====

---- MODULE Trace_IWAFrame ----
(***************************************************************************)
(* Code -> spec binding for C05: one event per IWA member decoded and      *)
(* re-encoded by the library.                                              *)
(*   src    : segments of the member as read by the harness's own framing  *)
(*            code: <<header digest, <<message digests>>>> per segment     *)
(*   dec    : the same for the objects the library decoded (header and     *)
(*            each message serialised again)                               *)
(*   out    : segments of the re-encoded file as read by the harness       *)
(*   chunks : <<marker, lenField, payloadLen, dataLen>> per encoded chunk  *)
(*   decl   : per output segment <<declared lengths>>, actual: <<sizes>>   *)
(*   outlen : byte length of the re-encoded uncompressed stream            *)
(* Digests are over the exact bytes, so equality is byte identity incl.    *)
(* fields the schemas do not know.                                         *)
(***************************************************************************)
EXTENDS Integers, Sequences, TLC, Json, IOUtils, TLCExt
CONSTANTS CHUNK
Traces == ndJsonDeserialize(IOEnv.TRACE_FILE)
VARIABLE tid
Ev == Traces[tid]
TInit == tid \in 1..Len(Traces)
TSpec == TInit /\ [][UNCHANGED tid]_tid
RECURSIVE SumSeq(_)
SumSeq(s) == IF s = <<>> THEN 0 ELSE Head(s) + SumSeq(Tail(s))
ChunkOK(c) == c[1] = 0 /\ c[2] = c[3] /\ c[2] < 16777216 /\ c[4] <= CHUNK /\ c[4] > 0
Verdict ==
  IF Ev.exc # "" THEN "exception"
  ELSE IF Ev.dec # Ev.src THEN "decode-differs"
  ELSE IF Ev.out # Ev.src THEN "encode-differs"
  ELSE IF \E k \in 1..Len(Ev.chunks) : ~ChunkOK(Ev.chunks[k]) THEN "chunk-rule"
  ELSE IF SumSeq([k \in 1..Len(Ev.chunks) |-> Ev.chunks[k][4]]) # Ev.outlen THEN "data-incomplete"
  ELSE IF Ev.decl # Ev.actual THEN "header-length"
  ELSE "ok"
Judge == PrintT("V " \o ToString(tid) \o " " \o Verdict)
====

---- MODULE Decimal ----
(***************************************************************************)
(* Decimal values as digit sequences (properties C01, C13, C02, C20).      *)
(* TLC integers are 32 bit, so a number is never an integer here: it is    *)
(*      [s |-> 0 or 1, d |-> sequence of digits 0..9, e |-> integer]       *)
(* denoting (-1)^s * d * 10^e.  Norm gives the canonical representative    *)
(* (no leading or trailing zeros, zero = [0, <<>>, 0]).                    *)
(*                                                                         *)
(* The decimal128 payload of a number cell is (sign, coefficient digits,   *)
(* exponent); Denotes is its value, Enc the reference encoder (17 digit    *)
(* coefficient, as Numbers writes it).  MC: Dec(Enc(v)) = v for every      *)
(* small v; Bug = "FloatScale" drops the last unit of the coefficient the  *)
(* way a floating point scaling does.                                      *)
(***************************************************************************)
EXTENDS Integers, Sequences, TLC
CONSTANTS MaxDigits, MaxExp, Bug
VARIABLES v
Zero == [s |-> 0, d |-> <<>>, e |-> 0]
RECURSIVE StripLead(_)
StripLead(d) == IF d # <<>> /\ d[1] = 0 THEN StripLead(Tail(d)) ELSE d
RECURSIVE StripTrail(_, _)
StripTrail(d, e) == IF d # <<>> /\ d[Len(d)] = 0 THEN StripTrail(SubSeq(d, 1, Len(d) - 1), e + 1) ELSE <<d, e>>
Norm(n) == LET d1 == StripLead(n.d) IN
           IF d1 = <<>> THEN Zero
           ELSE LET t == StripTrail(d1, n.e) IN [s |-> n.s, d |-> t[1], e |-> t[2]]
Eq(a, b) == Norm(a) = Norm(b)
Zeros(k) == [i \in 1..k |-> 0]

\* ---- decimal128 payload
Denotes(sign, coeff, exp) == Norm([s |-> sign, d |-> coeff, e |-> exp])
RECURSIVE Decr(_)
Decr(d) == \* digit sequence minus one unit in the last place (d > 0)
  IF d[Len(d)] > 0 THEN [d EXCEPT ![Len(d)] = @ - 1] ELSE Append(Decr(SubSeq(d, 1, Len(d) - 1)), 9)
Enc(n) == \* n normalised, at most 17 digits: <<sign, coefficient digits, exponent>>
  IF n.d = <<>> THEN <<0, <<0>>, -16>>
  ELSE LET k == 17 - Len(n.d)
           c == n.d \o Zeros(k)
       IN <<n.s, IF Bug = "FloatScale" /\ n.d[Len(n.d)] \in {2, 7} THEN Decr(c) ELSE c, n.e - k>>

\* ---- model: every number with at most MaxDigits significant digits and |exponent| <= MaxExp
RECURSIVE DigitSeqs(_)
DigitSeqs(k) == IF k = 0 THEN {<<>>} ELSE {<<>>} \cup {Append(p, x) : p \in DigitSeqs(k - 1), x \in 0..9}
Init == v \in [s : 0..1, d : DigitSeqs(MaxDigits), e : (-MaxExp)..MaxExp]
Next == UNCHANGED v
Spec == Init /\ [][Next]_v
NormIdempotent == Norm(Norm(v)) = Norm(v)
NormCanonical == LET n == Norm(v) IN (n.d = <<>> => n = Zero) /\ (n.d # <<>> => n.d[1] # 0 /\ n.d[Len(n.d)] # 0)
RoundTrip == LET n == Norm(v) p == Enc(n) IN Denotes(p[1], p[2], p[3]) = n
EncShape == LET p == Enc(Norm(v)) IN Len(p[2]) <= 17
====

---- MODULE Workbook ----
(***************************************************************************)
(* Document / Sheet / Table API of numbers-parser as a state machine       *)
(* (properties C03, C11, C19; shape part of C01).                          *)
(*                                                                         *)
(* Level A = the plain-grid semantics the property statements name: a      *)
(* document is a sequence of sheets, a sheet a sequence of tables, a table *)
(* a name and a rectangular grid of values.  Every public call is one      *)
(* action; its return is the linearization point.  Refused calls are steps *)
(* with outcome IndexError that leave everything unchanged.  Indices are   *)
(* 1-based here (the driver subtracts one); index 0 stands for -1 (a       *)
(* negative index), AtEnd (=0) in an "at" argument stands for None.        *)
(***************************************************************************)
EXTENDS Integers, Sequences, FiniteSets, TLC
CONSTANTS Handles,    \* document handles (simultaneously open documents)
          Files,      \* file names on "disk"
          Vals,       \* non-empty value tokens
          Names,      \* explicit name tokens (see Fold)
          MaxR, MaxC, \* exploration bound on grid size
          LimR, LimC, \* the documented table limits (MAX_ROW_COUNT / MAX_COL_COUNT)
          MaxT, MaxS, \* exploration bound on tables per sheet / sheets per document
          RowArgs, ColArgs,   \* row / column arguments tried by Write (may include 0 and LimR+1)
          Counts,     \* counts tried by add/delete row/column
          Defaults,   \* default fill values tried by add row/column (E = no default)
          OpsOn,      \* set of enabled op kinds
          D           \* depth bound (CONSTRAINT Depth)
VARIABLES docs, disk, hist
vars == <<docs, disk, hist>>

E == "e"                       \* the empty cell
AUTO == "AUTO"                 \* "no name given"
AtEnd == 0
NoneV == -99                   \* None for iterator bounds

\* ---- names: equal ignoring case iff equal after Fold
Fold(n) == CASE n = "t1" -> "T1" [] n = "t2" -> "T2" [] n = "t3" -> "T3" [] n = "x" -> "X" [] OTHER -> n
AutoNames == <<"T1", "T2", "T3", "T4", "T5", "T6", "T7">>
FoldSet(seq) == {Fold(seq[i].name) : i \in 1..Len(seq)}
AutoName(seq) == AutoNames[CHOOSE i \in 1..Len(AutoNames) :
                     /\ AutoNames[i] \notin FoldSet(seq)
                     /\ \A j \in 1..(i - 1) : AutoNames[j] \in FoldSet(seq)]

\* ---- grids
NR(g) == Len(g)
NC(g) == Len(g[1])
EGrid(nr, nc) == [i \in 1..nr |-> [j \in 1..nc |-> E]]
Max(a, b) == IF a > b THEN a ELSE b
Grow(g, r, c) ==
  LET nr == Max(NR(g), r) nc == Max(NC(g), c)
  IN [i \in 1..nr |-> [j \in 1..nc |-> IF i <= NR(g) /\ j <= NC(g) THEN g[i][j] ELSE E]]
Put(g, r, c, v) == [g EXCEPT ![r][c] = v]
InsRows(g, a, n, d) == SubSeq(g, 1, a - 1) \o [i \in 1..n |-> [j \in 1..NC(g) |-> d]] \o SubSeq(g, a, NR(g))
InsCols(g, a, n, d) == [i \in 1..NR(g) |-> SubSeq(g[i], 1, a - 1) \o [j \in 1..n |-> d] \o SubSeq(g[i], a, NC(g))]
DelRows(g, a, n) == SubSeq(g, 1, a - 1) \o SubSeq(g, a + n, NR(g))
DelCols(g, a, n) == [i \in 1..NR(g) |-> SubSeq(g[i], 1, a - 1) \o SubSeq(g[i], a + n, NC(g))]

\* ---- documents
IsOpen(h) == docs[h] # <<>>
NS(h) == Len(docs[h])
NT(h, s) == Len(docs[h][s].tables)
G(h, s, t) == docs[h][s].tables[t].g
Tbl(nm, nr, nc) == [name |-> nm, g |-> EGrid(nr, nc)]
NewDocState(nr, nc) == <<[name |-> "T1", tables |-> <<Tbl("T1", nr, nc)>>]>>
Addr(h, s, t) == IsOpen(h) /\ s \in 1..NS(h) /\ t \in 1..NT(h, s)

Ev(rec) == hist' = Append(hist, rec)
SetG(h, s, t, g) == docs' = [docs EXCEPT ![h][s].tables[t].g = g]
Refuse == UNCHANGED <<docs, disk>>

\* ---- actions (one per public call)
Write(h, s, t, r, c, v) ==
  /\ Addr(h, s, t)
  /\ IF r < 1 \/ c < 1 \/ r > LimR \/ c > LimC
       THEN Refuse /\ Ev([op |-> "write", h |-> h, s |-> s, t |-> t, r |-> r, c |-> c, v |-> v, out |-> "IndexError"])
       ELSE /\ SetG(h, s, t, Put(Grow(G(h, s, t), r, c), r, c, v)) /\ UNCHANGED disk
            /\ Ev([op |-> "write", h |-> h, s |-> s, t |-> t, r |-> r, c |-> c, v |-> v, out |-> "ok"])

\* set_cell_style / set_cell_formatting / set_cell_border: position-taking calls that do not change a value;
\* like write they grow the table to exactly the required size, or are refused
Touch(h, s, t, r, c, kind) ==
  /\ Addr(h, s, t)
  /\ IF r < 1 \/ c < 1 \/ r > LimR \/ c > LimC
       THEN Refuse /\ Ev([op |-> "touch", h |-> h, s |-> s, t |-> t, r |-> r, c |-> c, kind |-> kind, out |-> "IndexError"])
       ELSE /\ SetG(h, s, t, Grow(G(h, s, t), r, c)) /\ UNCHANGED disk
            /\ Ev([op |-> "touch", h |-> h, s |-> s, t |-> t, r |-> r, c |-> c, kind |-> kind, out |-> "ok"])

AddRow(h, s, t, n, at, d) ==
  /\ Addr(h, s, t)
  /\ LET g == G(h, s, t) IN
     IF at # AtEnd /\ (at < 1 \/ at > NR(g))
       THEN Refuse /\ Ev([op |-> "addrow", h |-> h, s |-> s, t |-> t, n |-> n, at |-> at, d |-> d, out |-> "IndexError"])
       ELSE /\ SetG(h, s, t, InsRows(g, IF at = AtEnd THEN NR(g) + 1 ELSE at, n, d)) /\ UNCHANGED disk
            /\ Ev([op |-> "addrow", h |-> h, s |-> s, t |-> t, n |-> n, at |-> at, d |-> d, out |-> "ok"])

AddCol(h, s, t, n, at, d) ==
  /\ Addr(h, s, t)
  /\ LET g == G(h, s, t) IN
     IF at # AtEnd /\ (at < 1 \/ at > NC(g))
       THEN Refuse /\ Ev([op |-> "addcol", h |-> h, s |-> s, t |-> t, n |-> n, at |-> at, d |-> d, out |-> "IndexError"])
       ELSE /\ SetG(h, s, t, InsCols(g, IF at = AtEnd THEN NC(g) + 1 ELSE at, n, d)) /\ UNCHANGED disk
            /\ Ev([op |-> "addcol", h |-> h, s |-> s, t |-> t, n |-> n, at |-> at, d |-> d, out |-> "ok"])

\* deleting: a block that does not lie inside the table is refused; deleting ALL rows / columns is outside the documented
\* domain and not specified (see DESIGN.md section 3, "only documented domains are generated")
DelRow(h, s, t, n, at) ==
  /\ Addr(h, s, t)
  /\ LET g == G(h, s, t) a == IF at = AtEnd THEN NR(g) - n + 1 ELSE at IN
     \* refused: a start outside the table, or a count that reaches past its end (nothing is deleted then)
     IF (at # AtEnd /\ (at < 1 \/ at > NR(g))) \/ a < 1 \/ a + n - 1 > NR(g)
       THEN Refuse /\ Ev([op |-> "delrow", h |-> h, s |-> s, t |-> t, n |-> n, at |-> at, out |-> "IndexError"])
       ELSE /\ NR(g) - n >= 1
            /\ SetG(h, s, t, DelRows(g, a, n)) /\ UNCHANGED disk
            /\ Ev([op |-> "delrow", h |-> h, s |-> s, t |-> t, n |-> n, at |-> at, out |-> "ok"])

DelCol(h, s, t, n, at) ==
  /\ Addr(h, s, t)
  /\ LET g == G(h, s, t) a == IF at = AtEnd THEN NC(g) - n + 1 ELSE at IN
     IF (at # AtEnd /\ (at < 1 \/ at > NC(g))) \/ a < 1 \/ a + n - 1 > NC(g)
       THEN Refuse /\ Ev([op |-> "delcol", h |-> h, s |-> s, t |-> t, n |-> n, at |-> at, out |-> "IndexError"])
       ELSE /\ NC(g) - n >= 1
            /\ SetG(h, s, t, DelCols(g, a, n)) /\ UNCHANGED disk
            /\ Ev([op |-> "delcol", h |-> h, s |-> s, t |-> t, n |-> n, at |-> at, out |-> "ok"])

AddTable(h, s, nm, nr, nc) ==
  /\ IsOpen(h) /\ s \in 1..NS(h)
  /\ LET tabs == docs[h][s].tables IN
     IF nm # AUTO /\ Fold(nm) \in FoldSet(tabs)
       THEN Refuse /\ Ev([op |-> "addtable", h |-> h, s |-> s, nm |-> nm, nr |-> nr, nc |-> nc, out |-> "IndexError"])
       ELSE /\ docs' = [docs EXCEPT ![h][s].tables = Append(@, Tbl(IF nm = AUTO THEN AutoName(tabs) ELSE nm, nr, nc))]
            /\ UNCHANGED disk
            /\ Ev([op |-> "addtable", h |-> h, s |-> s, nm |-> nm, nr |-> nr, nc |-> nc, out |-> "ok"])

AddSheet(h, nm, nr, nc) ==
  /\ IsOpen(h)
  /\ IF nm # AUTO /\ Fold(nm) \in FoldSet(docs[h])
       THEN Refuse /\ Ev([op |-> "addsheet", h |-> h, nm |-> nm, nr |-> nr, nc |-> nc, out |-> "IndexError"])
       ELSE /\ docs' = [docs EXCEPT ![h] = Append(@, [name |-> IF nm = AUTO THEN AutoName(docs[h]) ELSE nm,
                                                      tables |-> <<Tbl("T1", nr, nc)>>])]
            /\ UNCHANGED disk
            /\ Ev([op |-> "addsheet", h |-> h, nm |-> nm, nr |-> nr, nc |-> nc, out |-> "ok"])

RenameTable(h, s, t, nm) ==
  /\ Addr(h, s, t) /\ docs' = [docs EXCEPT ![h][s].tables[t].name = nm] /\ UNCHANGED disk
  /\ Ev([op |-> "renametable", h |-> h, s |-> s, t |-> t, nm |-> nm, out |-> "ok"])
RenameSheet(h, s, nm) ==
  /\ IsOpen(h) /\ s \in 1..NS(h) /\ docs' = [docs EXCEPT ![h][s].name = nm] /\ UNCHANGED disk
  /\ Ev([op |-> "renamesheet", h |-> h, s |-> s, nm |-> nm, out |-> "ok"])

Save(h, f) == /\ IsOpen(h) /\ disk' = [disk EXCEPT ![f] = docs[h]] /\ UNCHANGED docs
              /\ Ev([op |-> "save", h |-> h, f |-> f, out |-> "ok"])
Open(h, f) == /\ disk[f] # <<>> /\ docs' = [docs EXCEPT ![h] = disk[f]] /\ UNCHANGED disk
              /\ Ev([op |-> "open", h |-> h, f |-> f, out |-> "ok"])
NewDoc(h, nr, nc) == /\ docs' = [docs EXCEPT ![h] = NewDocState(nr, nc)] /\ UNCHANGED disk
                     /\ Ev([op |-> "newdoc", h |-> h, nr |-> nr, nc |-> nc, out |-> "ok"])

\* ---- read-only calls: iteration (C11) and collection lookups (C19) are functions of the state
Resolve(b, dflt) == IF b = NoneV THEN dflt ELSE b       \* None means the extreme, 0-based bounds
IterRows(g, minr, maxr, minc, maxc) ==   \* 0-based inclusive bounds; "IndexError" or the rectangle, row-major
  LET r0 == Resolve(minr, 0) r1 == Resolve(maxr, NR(g) - 1) c0 == Resolve(minc, 0) c1 == Resolve(maxc, NC(g) - 1) IN
  IF r0 < 0 \/ c0 < 0 \/ r1 < 0 \/ c1 < 0 \/ r1 > NR(g) - 1 \/ c1 > NC(g) - 1 THEN <<<<"IndexError">>>>
  ELSE [i \in 1..(r1 - r0 + 1) |-> [j \in 1..(c1 - c0 + 1) |-> g[r0 + i][c0 + j]]]
IterCols(g, minc, maxc, minr, maxr) ==   \* column-major
  LET r0 == Resolve(minr, 0) r1 == Resolve(maxr, NR(g) - 1) c0 == Resolve(minc, 0) c1 == Resolve(maxc, NC(g) - 1) IN
  IF r0 < 0 \/ c0 < 0 \/ r1 < 0 \/ c1 < 0 \/ r1 > NR(g) - 1 \/ c1 > NC(g) - 1 THEN <<<<"IndexError">>>>
  ELSE [j \in 1..(c1 - c0 + 1) |-> [i \in 1..(r1 - r0 + 1) |-> g[r0 + i][c0 + j]]]
CellAt(g, r, c) == IF r < 1 \/ c < 1 \/ r > NR(g) \/ c > NC(g) THEN "IndexError" ELSE g[r][c]   \* 1-based
ByIndex(seq, i) ==  \* python index i (0-based, negative from the end) -> name or "IndexError"
  LET n == Len(seq) IN IF i >= 0 /\ i < n THEN seq[i + 1].name ELSE IF i < 0 /\ i >= -n THEN seq[n + i + 1].name ELSE "IndexError"
ByName(seq, nm) == IF \E i \in 1..Len(seq) : seq[i].name = nm THEN nm ELSE "KeyError"
Contains(seq, nm) == Fold(nm) \in FoldSet(seq)

\* ---- next-state relation
HS == {h \in Handles : IsOpen(h)}
Next ==
  \/ "write" \in OpsOn /\ \E h \in HS : \E s \in 1..NS(h) : \E t \in 1..NT(h, s) : \E r \in RowArgs, c \in ColArgs, v \in Vals :
        ((r <= MaxR /\ c <= MaxC) \/ r > LimR \/ c > LimC) /\ Write(h, s, t, r, c, v)
  \/ "touch" \in OpsOn /\ \E h \in HS : \E s \in 1..NS(h) : \E t \in 1..NT(h, s) : \E r \in RowArgs, c \in ColArgs, k \in {"style", "border", "format"} :
        /\ ((r <= MaxR /\ c <= MaxC) \/ r > LimR \/ c > LimC)
        /\ (k = "format" => r >= 1 /\ c >= 1 /\ r <= NR(G(h, s, t)) /\ c <= NC(G(h, s, t)) /\ G(h, s, t)[r][c] # E)
        /\ Touch(h, s, t, r, c, k)
  \/ "addrow" \in OpsOn /\ \E h \in HS : \E s \in 1..NS(h) : \E t \in 1..NT(h, s) : \E n \in Counts, at \in 0..(MaxR + 1), d \in Defaults :
        at <= NR(G(h, s, t)) + 1 /\ NR(G(h, s, t)) + n <= MaxR /\ AddRow(h, s, t, n, at, d)
  \/ "addcol" \in OpsOn /\ \E h \in HS : \E s \in 1..NS(h) : \E t \in 1..NT(h, s) : \E n \in Counts, at \in 0..(MaxC + 1), d \in Defaults :
        at <= NC(G(h, s, t)) + 1 /\ NC(G(h, s, t)) + n <= MaxC /\ AddCol(h, s, t, n, at, d)
  \/ "delrow" \in OpsOn /\ \E h \in HS : \E s \in 1..NS(h) : \E t \in 1..NT(h, s) : \E n \in Counts, at \in 0..(MaxR + 1) :
        at <= NR(G(h, s, t)) + 1 /\ DelRow(h, s, t, n, at)
  \/ "delcol" \in OpsOn /\ \E h \in HS : \E s \in 1..NS(h) : \E t \in 1..NT(h, s) : \E n \in Counts, at \in 0..(MaxC + 1) :
        at <= NC(G(h, s, t)) + 1 /\ DelCol(h, s, t, n, at)
  \/ "addtable" \in OpsOn /\ \E h \in HS : \E s \in 1..NS(h) : \E nm \in Names \cup {AUTO}, nr \in 1..2, nc \in 1..2 :
        NT(h, s) < MaxT /\ nr <= MaxR /\ nc <= MaxC /\ AddTable(h, s, nm, nr, nc)
  \/ "addsheet" \in OpsOn /\ \E h \in HS : \E nm \in Names \cup {AUTO}, nr \in 1..2, nc \in 1..2 :
        NS(h) < MaxS /\ nr <= MaxR /\ nc <= MaxC /\ AddSheet(h, nm, nr, nc)
  \/ "rename" \in OpsOn /\ \E h \in HS : \E s \in 1..NS(h) : \E t \in 1..NT(h, s) : \E nm \in Names : RenameTable(h, s, t, nm)
  \/ "rename" \in OpsOn /\ \E h \in HS : \E s \in 1..NS(h) : \E nm \in Names : RenameSheet(h, s, nm)
  \/ "save" \in OpsOn /\ \E h \in HS : \E f \in Files : Save(h, f)
  \/ "open" \in OpsOn /\ \E h \in Handles : \E f \in Files : Open(h, f)
  \/ "newdoc" \in OpsOn /\ \E h \in Handles : \E nr \in 1..2, nc \in 1..2 : ~IsOpen(h) /\ NewDoc(h, nr, nc)

Init == /\ docs = [h \in Handles |-> IF h = 1 THEN NewDocState(1, 1) ELSE <<>>]
        /\ disk = [f \in Files |-> <<>>]
        /\ hist = <<>>
Spec == Init /\ [][Next]_vars
Depth == TLCGet("level") <= D
NoHist == <<docs, disk>>

\* ---- properties of the design
AllTables == {<<h, s, t>> \in Handles \X (1..MaxS) \X (1..MaxT) : Addr(h, s, t)}
Rect == \A x \in AllTables : LET g == G(x[1], x[2], x[3]) IN
           /\ NR(g) >= 1 /\ NC(g) >= 1 /\ \A i \in 1..NR(g) : Len(g[i]) = NC(g)
DiskRect == \A f \in Files : \A s \in 1..Len(disk[f]) : \A t \in 1..Len(disk[f][s].tables) :
              LET g == disk[f][s].tables[t].g IN \A i \in 1..NR(g) : Len(g[i]) = NC(g)
LastEv == hist'[Len(hist')]
\* saving has no effect on any open document; nothing but save touches the disk
SaveIsStutter == [][(disk' # disk => docs' = docs) /\ (LastEv.op # "save" => disk' = disk)]_vars
\* an action addressed to one document never changes another one
Frame == [][\A h \in Handles : (LastEv.h # h) => docs'[h] = docs[h]]_vars
\* an action addressed to one table leaves every other table of every document as it was
TableFrame == [][LastEv.op \in {"write", "touch", "addrow", "addcol", "delrow", "delcol"} =>
                  \A h \in Handles : IsOpen(h) => \A s \in 1..NS(h) : \A t \in 1..NT(h, s) :
                     <<h, s, t>> # <<LastEv.h, LastEv.s, LastEv.t>> => docs'[h][s].tables[t] = docs[h][s].tables[t]]_vars
ReopenEqualsSaved == [][LastEv.op = "open" => docs'[LastEv.h] = disk[LastEv.f]]_vars
RefusedChangesNothing == [][LastEv.out # "ok" => UNCHANGED <<docs, disk>>]_vars
\* growth is exactly to the required size (C01/C11)
ExactGrowth == [][LastEv.op \in {"write", "touch"} /\ LastEv.out = "ok" =>
                    LET g == docs[LastEv.h][LastEv.s].tables[LastEv.t].g
                        g2 == docs'[LastEv.h][LastEv.s].tables[LastEv.t].g IN
                    NR(g2) = Max(NR(g), LastEv.r) /\ NC(g2) = Max(NC(g), LastEv.c)]_vars
\* C19: an add never creates two siblings equal ignoring case (renames may; that is not charged to add)
NoFoldDup(seq) == \A i, j \in 1..Len(seq) : i # j => Fold(seq[i].name) # Fold(seq[j].name)
AddKeepsUnique == [][(LastEv.op = "addtable" /\ NoFoldDup(docs[LastEv.h][LastEv.s].tables) => NoFoldDup(docs'[LastEv.h][LastEv.s].tables))
                     /\ (LastEv.op = "addsheet" /\ NoFoldDup(docs[LastEv.h]) => NoFoldDup(docs'[LastEv.h]))]_vars
AutoNameFresh == [][LastEv.op = "addtable" /\ LastEv.nm = AUTO =>
                      LET tabs == docs'[LastEv.h][LastEv.s].tables IN
                      \A i \in 1..(Len(tabs) - 1) : Fold(tabs[i].name) # Fold(tabs[Len(tabs)].name)]_vars
====

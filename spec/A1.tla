---- MODULE A1 ----
(***************************************************************************)
(* A1 notation (property C10): bijective base-26 column names, decimal row *)
(* numbers, '$' markers, ranges.  Texts are sequences of code points       *)
(* ("$"=36, "0".."9"=48..57, ":"=58, "A".."Z"=65..90).                     *)
(*                                                                         *)
(* The state is one position (kind, n): kind "C" walks the columns         *)
(* 0..MaxCol, kind "R" walks the rows 0..MaxRow, each state stepping to    *)
(* its successor so that the action property Monotone is checked on every  *)
(* consecutive pair.  Strict monotonicity from "A" (n=0) to "ZZZ" *)
(* (n=18277) through exactly 18278 names of length <= 3 is the counting    *)
(* argument for "no gaps, no repeats".                                     *)
(***************************************************************************)
EXTENDS Integers, Sequences, TLC
CONSTANTS MaxCol, MaxRow, Bug
VARIABLES kind, n
vars == <<kind, n>>

\* ---- columns
RECURSIVE ColName(_)
ColName(c) == \* c zero-based
  LET m == c + 1
      r == IF m % 26 = 0 THEN 26 ELSE m % 26
      q == (m - r) \div 26
  IN IF Bug = "ZeroDigit" /\ m % 26 = 0 /\ m > 26
       THEN Append(ColName(q), 65)         \* defective: writes 'A' for a zero remainder past Z
     ELSE IF q = 0 THEN <<64 + r>> ELSE Append(ColName(q - 1), 64 + r)
RECURSIVE ColIndex1(_)
ColIndex1(s) == IF s = <<>> THEN 0 ELSE ColIndex1(SubSeq(s, 1, Len(s) - 1)) * 26 + (s[Len(s)] - 64)
ColIndex(s) == ColIndex1(s) - 1            \* Horner, back to zero-based

\* ---- rows
RECURSIVE Dec(_)
Dec(k) == IF k < 10 THEN <<48 + k>> ELSE Append(Dec(k \div 10), 48 + (k % 10))
RECURSIVE UnDec(_)
UnDec(s) == IF s = <<>> THEN 0 ELSE UnDec(SubSeq(s, 1, Len(s) - 1)) * 10 + (s[Len(s)] - 48)

\* ---- cells and ranges
Mark(b) == IF b THEN <<36>> ELSE <<>>
CellText(r, c, ra, ca) == Mark(ca) \o ColName(c) \o Mark(ra) \o Dec(r + 1)
IsLetter(x) == x >= 65 /\ x <= 90
IsDigit(x) == x >= 48 /\ x <= 57
RECURSIVE SpanWhile(_, _, _)
SpanWhile(s, i, kindL) == \* first index >= i at which s stops being letters (kindL) / digits
  IF i <= Len(s) /\ (IF kindL THEN IsLetter(s[i]) ELSE IsDigit(s[i])) THEN SpanWhile(s, i + 1, kindL) ELSE i
Parse(s) == \* -> <<row, col>> (zero-based) or <<-9, -9>> when s is not of the form $?L+$?D+
  LET i1 == IF Len(s) >= 1 /\ s[1] = 36 THEN 2 ELSE 1
      i2 == SpanWhile(s, i1, TRUE)
      i3 == IF i2 <= Len(s) /\ s[i2] = 36 THEN i2 + 1 ELSE i2
      i4 == SpanWhile(s, i3, FALSE)
  IN IF i2 > i1 /\ i4 > i3 /\ i4 = Len(s) + 1
       THEN <<UnDec(SubSeq(s, i3, i4 - 1)) - 1, ColIndex(SubSeq(s, i1, i2 - 1))>>
     ELSE <<-9, -9>>
RangeText(r1, c1, r2, c2) ==
  IF r1 = r2 /\ c1 = c2 THEN CellText(r1, c1, FALSE, FALSE)
  ELSE CellText(r1, c1, FALSE, FALSE) \o <<58>> \o CellText(r2, c2, FALSE, FALSE)

\* (length, lexicographic) order on names
RECURSIVE LexLess(_, _)
LexLess(a, b) == IF a = <<>> \/ b = <<>> THEN FALSE
                 ELSE IF a[1] # b[1] THEN a[1] < b[1] ELSE LexLess(Tail(a), Tail(b))
Less(a, b) == Len(a) < Len(b) \/ (Len(a) = Len(b) /\ LexLess(a, b))

\* initial states are block starts only (TLC evaluates initial states on one thread; the blocks are
\* then walked in parallel) - every position 0..Max is still reached, and every consecutive pair stepped.
Block == 250
Init == \/ kind = "C" /\ n \in {k * Block : k \in 0..(MaxCol \div Block)}
        \/ kind = "R" /\ n \in {k * Block : k \in 0..(MaxRow \div Block)}
Step == /\ n < (IF kind = "C" THEN MaxCol ELSE MaxRow) /\ n' = n + 1 /\ UNCHANGED kind
Next == Step
Spec == Init /\ [][Next]_vars

\* ---- Level A
ColRoundTrip == kind = "C" => ColIndex(ColName(n)) = n
ColShape == kind = "C" => /\ \A i \in 1..Len(ColName(n)) : IsLetter(ColName(n)[i])
                          /\ (n <= 18277 => Len(ColName(n)) <= 3)
                          /\ (n = 0 => ColName(n) = <<65>>)
                          /\ (n = 25 => ColName(n) = <<90>>)
                          /\ (n = 26 => ColName(n) = <<65, 65>>)
                          /\ (n = 701 => ColName(n) = <<90, 90>>)
                          /\ (n = 702 => ColName(n) = <<65, 65, 65>>)
                          /\ (n = 18277 => ColName(n) = <<90, 90, 90>>)
Monotone == [][kind = "C" => Less(ColName(n), ColName(n'))]_vars
RowRoundTrip == kind = "R" => /\ UnDec(Dec(n + 1)) = n + 1
                              /\ Dec(n + 1)[1] # 48
CellRoundTrip ==
  \A ra \in BOOLEAN, ca \in BOOLEAN :
     IF kind = "C" THEN \A r \in {0, 8, 9, 99, MaxRow} : Parse(CellText(r, n, ra, ca)) = <<r, n>>
     ELSE \A c \in {0, 25, 26, 701, 702, MaxCol} : Parse(CellText(n, c, ra, ca)) = <<n, c>>
RangeCollapse ==
  LET o == IF kind = "C" THEN <<5, n>> ELSE <<n, 5>> IN
  \A d \in {<<0, 0>>, <<0, 1>>, <<1, 0>>, <<1, 1>>} :
     LET t == RangeText(o[1], o[2], o[1] + d[1], o[2] + d[2])
         hasColon == \E i \in 1..Len(t) : t[i] = 58
     IN hasColon <=> d # <<0, 0>>

\* ---- compact emission for the spec -> code replay
Letters == <<"A","B","C","D","E","F","G","H","I","J","K","L","M","N","O","P","Q","R","S","T","U","V","W","X","Y","Z">>
DigitS == <<"0","1","2","3","4","5","6","7","8","9">>
Chr(x) == IF x = 36 THEN "$" ELSE IF x = 58 THEN ":" ELSE IF x <= 57 THEN DigitS[x - 47] ELSE Letters[x - 64]
RECURSIVE Str(_)
Str(s) == IF s = <<>> THEN "" ELSE Chr(Head(s)) \o Str(Tail(s))
Emit == PrintT(<<kind, n, IF kind = "C" THEN Str(ColName(n)) ELSE Str(Dec(n + 1))>>)
====

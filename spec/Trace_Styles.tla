---- MODULE Trace_Styles ----
(***************************************************************************)
(* Code -> spec binding for C15 (styles): one ndjson line per history.     *)
(* Events: add [nm, a, name (the name the library gave)], apply [c, nm],   *)
(* read [c, seen], save [re: what every cell of the reopened file shows,    *)
(* exc], reopen.  Attribute sets are tokens; the driver maps the 15        *)
(* attributes read from a cell back to the token of the set they equal     *)
(* ("default" = what the cell showed before any style was applied).        *)
(***************************************************************************)
EXTENDS Styles, Json, IOUtils, TLCExt
Traces == ndJsonDeserialize(IOEnv.TRACE_FILE)
VARIABLES tid, l
tvars == <<vars, tid, l>>
RejBase == 1000000
NEv == Len(Traces[tid].ev)
Evt == Traces[tid].ev[l]
Act == CASE Evt.op = "add" -> AddStyle(Evt.nm, Evt.a) /\ Evt.name \in DOMAIN named' /\ named'[Evt.name] = Evt.a /\ Evt.name \notin DOMAIN named
         [] Evt.op = "apply" -> Apply(Evt.c, Evt.name)
         [] Evt.op = "edit" -> \* (recorded on a loaded fixture document: no guard on the generator's disk variable)
                               /\ shown' = [shown EXCEPT ![Evt.c] = Evt.a] /\ UNCHANGED <<named, readflag, disk, diskNamed>>
                               /\ hist' = Append(hist, [op |-> "edit", c |-> Evt.c, a |-> Evt.a])
         [] Evt.op = "read" -> ReadStyle(Evt.c) /\ Evt.seen = shown[Evt.c]
         [] Evt.op = "save" -> Save /\ Evt.exc = "" /\ \A c \in Cells : Evt.re[c] = shown[c]
         [] Evt.op = "reopen" -> \* the named styles of the reopened document are re-read (an unused style keeps only what the file stores for it)
                                 /\ disk # <<>> /\ shown' = disk /\ named' = Evt.named /\ DOMAIN Evt.named = DOMAIN diskNamed
                                 /\ readflag' = [c \in Cells |-> FALSE] /\ UNCHANGED <<disk, diskNamed>> /\ hist' = Append(hist, [op |-> "reopen"])
         [] OTHER -> FALSE
Clause == IF Evt.op = "read" THEN "read.differs" ELSE IF Evt.op = "save" THEN (IF Evt.exc # "" THEN "save.raised" ELSE "reopened.differs")
          ELSE IF Evt.op = "add" THEN "add.name" ELSE Evt.op \o ".not-enabled"
TInit == tid \in 1..Len(Traces) /\ l = 1 /\ Init
Step == l <= NEv /\ Act /\ l' = l + 1 /\ UNCHANGED tid
Reject == /\ l <= NEv /\ ~ENABLED Act /\ PrintT(<<"REJECT", tid, l, Evt.op, Clause>>) /\ l' = RejBase + l /\ UNCHANGED <<vars, tid>>
Finish == (l = NEv + 1 \/ l >= RejBase) /\ UNCHANGED tvars
TSpec == TInit /\ [][Step \/ Reject \/ Finish]_tvars
Done == (l = NEv + 1) => PrintT(<<"ACCEPT", tid, NEv>>)
====

CONSTANTS CHUNK = 65536
SPECIFICATION TSpec
INVARIANT Judge
CHECK_DEADLOCK FALSE

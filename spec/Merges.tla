---- MODULE Merges ----
(***************************************************************************)
(* Merged regions of one table (property C12).                             *)
(* State: grid of values, merges = set of rectangles <<r1, c1, r2, c2>>    *)
(* (1-based, inclusive), disk snapshot.  The PICTURE the API must report   *)
(* is derived from (grid, merges): anchors with their size, placeholders   *)
(* with their rectangle and no value, the list of merge ranges.            *)
(*                                                                         *)
(* Level A: right after Merge the picture is exactly Picture(grid,merges); *)
(* after structural edits that follow a merge the property only fixes      *)
(* consistency: WellFormed(picture) and Picture(reopened) = Picture(open). *)
(* Level B: rectangles move with their cells; an insertion strictly inside *)
(* a rectangle grows it, a deletion shrinks it (Numbers' behaviour).       *)
(***************************************************************************)
EXTENDS Integers, Sequences, FiniteSets, TLC
CONSTANTS InitR, InitC, MaxR, MaxC, Vals, D, OpsOn, RectSets,
          Defs        \* defaults that add_row / add_column may be given (E = none)
VARIABLES grid, merges, disk, hist
vars == <<grid, merges, disk, hist>>
E == "e"
NR == Len(grid)
NC == Len(grid[1])
Ev(rec) == hist' = Append(hist, rec)

\* ---- rectangles
InRect(r, c, x) == r >= x[1] /\ r <= x[3] /\ c >= x[2] /\ c <= x[4]
Disjoint(x, y) == x[3] < y[1] \/ y[3] < x[1] \/ x[4] < y[2] \/ y[4] < x[2]
Inside(x, nr, nc) == x[1] >= 1 /\ x[2] >= 1 /\ x[1] <= x[3] /\ x[2] <= x[4] /\ x[3] <= nr /\ x[4] <= nc
Big(x) == x[3] > x[1] \/ x[4] > x[2]
GoodSet(ms, nr, nc) == /\ \A x \in ms : Inside(x, nr, nc) /\ Big(x)
                       /\ \A x, y \in ms : x # y => Disjoint(x, y)
AllRects(nr, nc) == {x \in (1..nr) \X (1..nc) \X (1..nr) \X (1..nc) : Inside(x, nr, nc) /\ Big(x)}
IsPlaceholder(r, c, ms) == \E x \in ms : InRect(r, c, x) /\ <<r, c>> # <<x[1], x[2]>>

\* ---- the picture (what the API must report), as sets
Anchors(ms) == {<<x[1], x[2], x[3] - x[1] + 1, x[4] - x[2] + 1>> : x \in ms}
Placeholders(ms) == UNION {{<<r, c, x[1], x[2], x[3], x[4]>> : r \in x[1]..x[3], c \in x[2]..x[4]} \ {<<x[1], x[2], x[1], x[2], x[3], x[4]>>} : x \in ms}
Sparse(g) == {<<i, j, g[i][j]>> : i \in 1..Len(g), j \in 1..Len(g[1])} \ {<<i, j, E>> : i \in 1..Len(g), j \in 1..Len(g[1])}

\* ---- grid edits
InsRowsD(g, a, n, d) == SubSeq(g, 1, a - 1) \o [i \in 1..n |-> [j \in 1..Len(g[1]) |-> d]] \o SubSeq(g, a, Len(g))
InsRows(g, a, n) == InsRowsD(g, a, n, E)
InsColsD(g, a, n, d) == [i \in 1..Len(g) |-> SubSeq(g[i], 1, a - 1) \o [j \in 1..n |-> d] \o SubSeq(g[i], a, Len(g[i]))]
InsCols(g, a, n) == InsColsD(g, a, n, E)
DelRows(g, a, n) == SubSeq(g, 1, a - 1) \o SubSeq(g, a + n, Len(g))
DelCols(g, a, n) == [i \in 1..Len(g) |-> SubSeq(g[i], 1, a - 1) \o SubSeq(g[i], a + n, Len(g[i]))]
Blank(g, ms) == [i \in 1..Len(g) |-> [j \in 1..Len(g[1]) |-> IF IsPlaceholder(i, j, ms) THEN E ELSE g[i][j]]]

\* ---- Level B: how rectangles follow structural edits (axis = 1 rows, 2 columns)
Lo(x, ax) == x[ax]
Hi(x, ax) == x[ax + 2]
WithSpan(x, ax, lo, hi) == IF ax = 1 THEN <<lo, x[2], hi, x[4]>> ELSE <<x[1], lo, x[3], hi>>
InsRect(x, ax, a, n) == IF a <= Lo(x, ax) THEN WithSpan(x, ax, Lo(x, ax) + n, Hi(x, ax) + n)
                        ELSE IF a > Hi(x, ax) THEN x
                        ELSE WithSpan(x, ax, Lo(x, ax), Hi(x, ax) + n)
InsCuts(x, ax, a) == a > Lo(x, ax) /\ a <= Hi(x, ax)                 \* the insertion lands strictly inside x
DelCount(lo, hi, a, n) == Cardinality({k \in lo..hi : k >= a /\ k < a + n})
DelRect(x, ax, a, n) == LET before == DelCount(1, Lo(x, ax) - 1, a, n)
                            within == DelCount(Lo(x, ax), Hi(x, ax), a, n)
                        IN WithSpan(x, ax, Lo(x, ax) - before, Hi(x, ax) - before - within)
\* the deletion removes part of x but not all of it (a rectangle whose rows or columns are all deleted simply disappears)
DelCuts(x, ax, a, n) == LET within == DelCount(Lo(x, ax), Hi(x, ax), a, n) IN within > 0 /\ within < Hi(x, ax) - Lo(x, ax) + 1
Survives(x) == x[1] <= x[3] /\ x[2] <= x[4] /\ Big(x)
InsMerges(ms, ax, a, n) == {InsRect(x, ax, a, n) : x \in ms}
DelMerges(ms, ax, a, n) == {y \in {DelRect(x, ax, a, n) : x \in ms} : Survives(y)}
AnyCut(ms, kind, ax, a, n) == \E x \in ms : IF kind = "ins" THEN InsCuts(x, ax, a) ELSE DelCuts(x, ax, a, n)

\* ---- actions
Merge(rs) ==   \* rs: a non-empty sequence of rectangles (a single range or a list), pairwise disjoint, disjoint from existing
  /\ LET new == {rs[i] : i \in 1..Len(rs)} IN
     /\ Cardinality(new) = Len(rs)
     /\ GoodSet(merges \cup new, NR, NC) /\ new \cap merges = {}
     /\ merges' = merges \cup new
     /\ grid' = Blank(grid, merges \cup new)
  /\ UNCHANGED disk /\ Ev([op |-> "merge", rs |-> rs])
\* a write lands on an anchor, outside any rectangle - or on a placeholder: "every other cell of the rectangle is a merged placeholder
\* with no value", so the value is not kept and the cell stays what it is (that is also what the saved file shows)
Write(r, c, v) ==
  /\ r \in 1..NR /\ c \in 1..NC
  /\ grid' = IF IsPlaceholder(r, c, merges) THEN grid ELSE [grid EXCEPT ![r][c] = v]
  /\ UNCHANGED <<merges, disk>> /\ Ev([op |-> "write", r |-> r, c |-> c, v |-> v, ph |-> IsPlaceholder(r, c, merges)])
\* d: the default written into the new cells (E = no default).  New cells that fall inside a rectangle are placeholders and stay empty
AddRow(n, a, d) == /\ a \in 1..(NR + 1) /\ NR + n <= MaxR
                   /\ merges' = InsMerges(merges, 1, a, n) /\ grid' = Blank(InsRowsD(grid, a, n, d), merges') /\ UNCHANGED disk
                   /\ Ev([op |-> "addrow", n |-> n, at |-> a, d |-> d, cut |-> AnyCut(merges, "ins", 1, a, n)])
AddCol(n, a, d) == /\ a \in 1..(NC + 1) /\ NC + n <= MaxC
                   /\ merges' = InsMerges(merges, 2, a, n) /\ grid' = Blank(InsColsD(grid, a, n, d), merges') /\ UNCHANGED disk
                   /\ Ev([op |-> "addcol", n |-> n, at |-> a, d |-> d, cut |-> AnyCut(merges, "ins", 2, a, n)])
DelRow(n, a) == /\ a \in 1..NR /\ a + n - 1 <= NR /\ NR - n >= 1
                /\ grid' = DelRows(grid, a, n) /\ merges' = DelMerges(merges, 1, a, n) /\ UNCHANGED disk
                /\ Ev([op |-> "delrow", n |-> n, at |-> a, cut |-> AnyCut(merges, "del", 1, a, n)])
DelCol(n, a) == /\ a \in 1..NC /\ a + n - 1 <= NC /\ NC - n >= 1
                /\ grid' = DelCols(grid, a, n) /\ merges' = DelMerges(merges, 2, a, n) /\ UNCHANGED disk
                /\ Ev([op |-> "delcol", n |-> n, at |-> a, cut |-> AnyCut(merges, "del", 2, a, n)])
\* a sibling table is added to the sheet (Sheet.add_table): this table is not affected, and the new one starts without merges
AddTable == UNCHANGED <<grid, merges, disk>> /\ Ev([op |-> "addtable"])
Save == /\ disk' = <<grid, merges>> /\ UNCHANGED <<grid, merges>> /\ Ev([op |-> "save"])
Reopen == /\ disk # <<>> /\ grid' = disk[1] /\ merges' = disk[2] /\ UNCHANGED disk /\ Ev([op |-> "reopen"])

InitGrid == [i \in 1..InitR |-> [j \in 1..InitC |-> IF (i + j) % 2 = 0 THEN "a" ELSE "b"]]
Init == grid = InitGrid /\ merges = {} /\ disk = <<>> /\ hist = <<>>
Next == \/ "merge" \in OpsOn /\ \E rs \in RectSets : Merge(rs)
        \/ "write" \in OpsOn /\ \E r \in 1..MaxR, c \in 1..MaxC, v \in Vals : Write(r, c, v)
        \/ "addrow" \in OpsOn /\ \E a \in 1..(MaxR + 1), d \in Defs : AddRow(1, a, d)
        \/ "addcol" \in OpsOn /\ \E a \in 1..(MaxC + 1), d \in Defs : AddCol(1, a, d)
        \/ "delrow" \in OpsOn /\ \E a \in 1..MaxR : DelRow(1, a)
        \/ "delcol" \in OpsOn /\ \E a \in 1..MaxC : DelCol(1, a)
        \/ "addtable" \in OpsOn /\ AddTable
        \/ "save" \in OpsOn /\ Save
        \/ "reopen" \in OpsOn /\ Reopen
Spec == Init /\ [][Next]_vars
Depth == TLCGet("level") <= D
NoHist == <<grid, merges, disk>>

\* ---- properties of the design
WellFormed == GoodSet(merges, NR, NC)
PlaceholdersEmpty == \A i \in 1..NR, j \in 1..NC : IsPlaceholder(i, j, merges) => grid[i][j] = E
DiskWellFormed == disk # <<>> => GoodSet(disk[2], Len(disk[1]), Len(disk[1][1]))
LastEv == hist'[Len(hist')]
OutsideUntouched == [][LastEv.op = "merge" =>
                       \A i \in 1..NR, j \in 1..NC : ~IsPlaceholder(i, j, merges') => grid'[i][j] = grid[i][j]]_vars
\* rectangles keep their area under edits that do not cut them (they only move)
Area(x) == (x[3] - x[1] + 1) * (x[4] - x[2] + 1)
\* (a deletion may also remove rectangles altogether: those all of whose rows, or columns, are deleted)
MovesOnly == [][LastEv.op \in {"addrow", "addcol", "delrow", "delcol"} /\ ~LastEv.cut =>
                 /\ Cardinality(merges') <= Cardinality(merges)
                 /\ (LastEv.op \in {"addrow", "addcol"} => Cardinality(merges') = Cardinality(merges))
                 /\ {Area(x) : x \in merges'} \subseteq {Area(x) : x \in merges}]_vars
\* rectangle sets tried by the model checker: every single rectangle of a 3x3 area, and every ordered pair of disjoint ones
MCRectSets == {<<x>> : x \in AllRects(3, 3)} \cup {<<x, y>> : <<x, y>> \in {p \in AllRects(3, 3) \X AllRects(3, 3) : Disjoint(p[1], p[2])}}
\* a smaller family for the quick generator: one rectangle of each shape class at a corner, the centre and an edge, plus two disjoint pairs
GenRectSets == {<<<<1, 1, 1, 2>>>>, <<<<1, 1, 2, 1>>>>, <<<<2, 2, 3, 3>>>>, <<<<1, 2, 2, 3>>>>, <<<<1, 1, 3, 3>>>>, <<<<3, 1, 3, 3>>>>, <<<<2, 2, 2, 3>>>>,
                <<<<1, 1, 1, 2>>, <<2, 1, 3, 1>>>>, <<<<1, 1, 2, 2>>, <<3, 2, 3, 3>>>>}
====

CONSTANTS Bug = "none"
SPECIFICATION TSpec
INVARIANT Judge
CHECK_DEADLOCK FALSE

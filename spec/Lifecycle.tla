---- MODULE Lifecycle ----
(***************************************************************************)
(* open -> (read-only accessors)* -> save -> reopen cycles (property C02,  *)
(* and the metamorphic layout relation of C06).                            *)
(*                                                                         *)
(* An observation is everything the library reads from a document (sheets, *)
(* tables, per cell type/value/formula/formatted value/bullets/merge);     *)
(* here it is an opaque token.  disk maps files to observations, open maps *)
(* handles to [obs, acc] where acc is the set of accessor kinds called so  *)
(* far.  Level A: SaveIsIdentity (what lands on disk is what the open      *)
(* document shows), AccessIsReadOnly, Idempotent (after any number of      *)
(* cycles every file still shows the original observation), LayoutBlind    *)
(* (a layout rewrite changes the bytes, never the observation).            *)
(* Level B: accessors leave traces in the object (dirty flags, memos); Bug *)
(* selects variants in which a later save is affected by them.             *)
(* A document is saved in one of two FORMS: a single zip file, or a        *)
(* package folder (archives in Index.zip, other members as loose files).   *)
(* form[f] is the form of file f; a package may be written over a package  *)
(* and a zip over a zip, the two crossings are refused by iwork.py (a      *)
(* FileFormatError, or the OSError of opening a folder as a zip file).     *)
(* The property does not depend on the form (FormBlind).                   *)
(***************************************************************************)
EXTENDS Integers, Sequences, FiniteSets, TLC
CONSTANTS Files, Kinds, Rewrites, Forms, D, Bug
VARIABLES disk, layout, form, open, hist
vars == <<disk, layout, form, open, hist>>
Orig == "o"
None == "none"
Closed == [obs |-> None, acc |-> {}]
IsOpen == open.obs # None
Ev(r) == hist' = Append(hist, r)
\* what an accessor does to the object (Level B): nothing observable - unless Bug says otherwise
Touched(obs, k) == IF Bug = "AccessMutates" /\ k = "style" THEN "o-styles-rewritten" ELSE obs
Written(o, fm) == IF Bug = "DirtySave" /\ "formatted" \in o.acc THEN "o-memo-written-back"
                  ELSE IF Bug = "PackageDropsLooseFiles" /\ fm = "package" THEN "o-without-loose-members"
                  ELSE o.obs

Open(f) == /\ disk[f] # None /\ open' = [obs |-> disk[f], acc |-> {}] /\ UNCHANGED <<disk, layout, form>> /\ Ev([op |-> "open", f |-> f])
Access(k) == /\ IsOpen /\ k \notin open.acc
             /\ open' = [obs |-> Touched(open.obs, k), acc |-> open.acc \cup {k}] /\ UNCHANGED <<disk, layout, form>> /\ Ev([op |-> "access", k |-> k])
Crossing(g, fm) == disk[g] # None /\ form[g] # fm
Save(g, fm) == /\ IsOpen /\ ~Crossing(g, fm)
               /\ disk' = [disk EXCEPT ![g] = Written(open, fm)] /\ layout' = [layout EXCEPT ![g] = <<>>] /\ form' = [form EXCEPT ![g] = fm]
               /\ UNCHANGED open /\ Ev([op |-> "save", f |-> g, fm |-> fm])
\* writing one form over the other is refused and leaves the file as it was
Refused(g, fm) == /\ IsOpen /\ Crossing(g, fm) /\ UNCHANGED <<disk, layout, form, open>> /\ Ev([op |-> "refused", f |-> g, fm |-> fm])
\* a meaning-preserving rewrite of the file's layout (C06): objects unchanged, bytes different
Rewrite(f, w) == /\ disk[f] # None /\ Len(layout[f]) < 2 /\ layout' = [layout EXCEPT ![f] = Append(@, w)]
                 /\ UNCHANGED <<disk, form, open>> /\ Ev([op |-> "rewrite", f |-> f, w |-> w])

Init == /\ disk = [f \in Files |-> IF f = "src" THEN Orig ELSE None] /\ layout = [f \in Files |-> <<>>]
        /\ form = [f \in Files |-> "zip"] /\ open = Closed /\ hist = <<>>
Next == \/ \E f \in Files : Open(f)
        \/ \E k \in Kinds : Access(k)
        \/ \E g \in Files \ {"src"}, fm \in Forms : Save(g, fm) \/ Refused(g, fm)
        \/ \E f \in Files, w \in Rewrites : Rewrite(f, w)
Spec == Init /\ [][Next]_vars
Depth == TLCGet("level") <= D
NoHist == <<disk, layout, form, open>>

Idempotent == \A f \in Files : disk[f] \in {None, Orig}
AccessIsReadOnly == IsOpen => open.obs = Orig
LastEv == hist'[Len(hist')]
SaveIsIdentity == [][LastEv.op = "save" => disk'[LastEv.f] = open.obs]_vars
LayoutBlind == [][LastEv.op = "rewrite" => disk' = disk]_vars
FormBlind == \A f, g \in Files : disk[f] # None /\ disk[g] # None => disk[f] = disk[g]     \* whatever the forms of f and g
RefusalKeeps == [][LastEv.op = "refused" => disk' = disk /\ form' = form]_vars
====

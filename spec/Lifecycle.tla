---- MODULE Lifecycle ----
(***************************************************************************)
(* open -> (read-only accessors)* -> save -> reopen cycles (property C02,  *)
(* and the metamorphic layout relation of C06).                            *)
(*                                                                         *)
(* An observation is everything the library reads from a document (sheets, *)
(* tables, per cell type/value/formula/formatted value/bullets/merge);     *)
(* here it is an opaque token.  disk maps files to observations, open maps *)
(* handles to [obs, acc] where acc is the set of accessor kinds called so  *)
(* far.  Level A: SaveIsIdentity (what lands on disk is what the open      *)
(* document shows), AccessIsReadOnly, Idempotent (after any number of      *)
(* cycles every file still shows the original observation), LayoutBlind    *)
(* (a layout rewrite changes the bytes, never the observation).            *)
(* Level B: accessors leave traces in the object (dirty flags, memos); Bug *)
(* selects variants in which a later save is affected by them.             *)
(***************************************************************************)
EXTENDS Integers, Sequences, FiniteSets, TLC
CONSTANTS Files, Kinds, Rewrites, D, Bug
VARIABLES disk, layout, open, hist
vars == <<disk, layout, open, hist>>
Orig == "o"
None == "none"
Closed == [obs |-> None, acc |-> {}]
IsOpen == open.obs # None
Ev(r) == hist' = Append(hist, r)
\* what an accessor does to the object (Level B): nothing observable - unless Bug says otherwise
Touched(obs, k) == IF Bug = "AccessMutates" /\ k = "style" THEN "o-styles-rewritten" ELSE obs
Written(o) == IF Bug = "DirtySave" /\ "formatted" \in o.acc THEN "o-memo-written-back" ELSE o.obs

Open(f) == /\ disk[f] # None /\ open' = [obs |-> disk[f], acc |-> {}] /\ UNCHANGED <<disk, layout>> /\ Ev([op |-> "open", f |-> f])
Access(k) == /\ IsOpen /\ k \notin open.acc
             /\ open' = [obs |-> Touched(open.obs, k), acc |-> open.acc \cup {k}] /\ UNCHANGED <<disk, layout>> /\ Ev([op |-> "access", k |-> k])
Save(g) == /\ IsOpen /\ disk' = [disk EXCEPT ![g] = Written(open)] /\ layout' = [layout EXCEPT ![g] = <<>>]
           /\ UNCHANGED open /\ Ev([op |-> "save", f |-> g])
\* a meaning-preserving rewrite of the file's layout (C06): objects unchanged, bytes different
Rewrite(f, w) == /\ disk[f] # None /\ Len(layout[f]) < 2 /\ layout' = [layout EXCEPT ![f] = Append(@, w)]
                 /\ UNCHANGED <<disk, open>> /\ Ev([op |-> "rewrite", f |-> f, w |-> w])

Init == /\ disk = [f \in Files |-> IF f = "src" THEN Orig ELSE None] /\ layout = [f \in Files |-> <<>>] /\ open = Closed /\ hist = <<>>
Next == \/ \E f \in Files : Open(f)
        \/ \E k \in Kinds : Access(k)
        \/ \E g \in Files \ {"src"} : Save(g)
        \/ \E f \in Files, w \in Rewrites : Rewrite(f, w)
Spec == Init /\ [][Next]_vars
Depth == TLCGet("level") <= D
NoHist == <<disk, layout, open>>

Idempotent == \A f \in Files : disk[f] \in {None, Orig}
AccessIsReadOnly == IsOpen => open.obs = Orig
LastEv == hist'[Len(hist')]
SaveIsIdentity == [][LastEv.op = "save" => disk'[LastEv.f] = open.obs]_vars
LayoutBlind == [][LastEv.op = "rewrite" => disk' = disk]_vars
====

---- MODULE Trace_CellRecord ----
(***************************************************************************)
(* Code -> spec binding for C04: every cell record the library decoded     *)
(* from a real document.  An event carries the raw record bytes, the flag  *)
(* word's bits and the ids the library decoded; the judge re-reads each    *)
(* interpreted 4-byte field at the offset the published layout assigns and *)
(* compares it with what the library reports.                              *)
(***************************************************************************)
EXTENDS CellRecord, Json, IOUtils, TLCExt
Traces == ndJsonDeserialize(IOEnv.TRACE_FILE)
VARIABLE tid
Ev == Traces[tid]
TInit == tid \in 1..Len(Traces) /\ mode = "trace" /\ fs = {} /\ kind = "none" /\ opt = {}
TSpec == TInit /\ [][UNCHANGED <<vars, tid>>]_<<vars, tid>>
Bits == {Ev.bits[i] : i \in 1..Len(Ev.bits)}
\* little-endian int32 at byte offset off (0-based) of the record
Int32(off) == Ev.buf[off + 1] + 256 * Ev.buf[off + 2] + 65536 * Ev.buf[off + 3] + 16777216 * Ev.buf[off + 4]
IdBits == Bits \cap (Interpreted \ {0, 1, 2})
Decoded(b) == Ev.ids[b + 1]          \* ids is indexed by bit (0..20), -1 = the library reports None
Verdict ==
  IF LayoutEnd(Bits) > Len(Ev.buf) THEN "length"
  ELSE IF \E b \in IdBits : Ev.buf[LayoutOffset(Bits, b) + 4] < 128 /\ Decoded(b) # Int32(LayoutOffset(Bits, b)) THEN "slot"
  ELSE IF \E b \in (Interpreted \ {0, 1, 2}) \ Bits : Decoded(b) # -1 THEN "phantom-field"
  ELSE IF ~Ev.formula_ok THEN "ok-formula-unresolved"      \* informational: not part of the property statement
  ELSE "ok"
Judge == PrintT(<<"V", tid, Verdict>>)
====

---- MODULE Varint ----
(***************************************************************************)
(* The base-128 varint that precedes every archive segment (the length of  *)
(* its ArchiveInfo header) and every length inside the headers (property   *)
(* C05: "header lengths equal to the message sizes", "the same segments in *)
(* the same order").  IWAFrame.tla treats that varint as one token; this   *)
(* module opens it up.                                                     *)
(*                                                                         *)
(* A value is written as groups of G = log2(B) bits, least significant     *)
(* first; every group but the last carries the continuation flag.  B is    *)
(* 128 in reality; the model checks all values below B^3 for a small B,    *)
(* and the harness maps each model value digit by digit to a real one      *)
(* (0, 1, 64, 127 for the digits of B = 4), so that every carry pattern    *)
(* of the model becomes a real header length.                              *)
(* Level A: Decode(Encode(n)) = n, the encoding is minimal (no trailing    *)
(* zero group) and a reader that knows only the flags finds its end.       *)
(* Level B: the writer's loop "while value >= B: emit low group + flag".   *)
(* Bug "StopOneLate": the loop tests value > B (a value of exactly B, or   *)
(* whose remaining part is exactly B, loses its last group).               *)
(***************************************************************************)
EXTENDS Integers, Sequences, TLC
CONSTANTS B, MaxN, Bug
VARIABLE n
RECURSIVE Enc(_)
\* a byte is [g |-> group value, more |-> continuation flag]
Enc(v) == IF (IF Bug = "StopOneLate" THEN v > B ELSE v >= B)
            THEN <<[g |-> v % B, more |-> TRUE]>> \o Enc(v \div B)
            ELSE <<[g |-> v % B, more |-> FALSE]>>        \* the defective loop emits v % B here although v = B does not fit a group
RECURSIVE Dec(_, _)
\* -> <<value, bytes consumed>>; -1 when the bytes end inside a varint
Dec(bs, k) == IF k > Len(bs) THEN <<-1, k - 1>>
              ELSE IF bs[k].more THEN LET r == Dec(bs, k + 1) IN <<IF r[1] < 0 THEN -1 ELSE bs[k].g + B * r[1], r[2]>>
              ELSE <<bs[k].g, k>>
Init == n \in 0..MaxN
Next == UNCHANGED n
Spec == Init /\ [][Next]_n
RoundTrip == Dec(Enc(n), 1) = <<n, Len(Enc(n))>>
Minimal == Len(Enc(n)) = 1 \/ Enc(n)[Len(Enc(n))].g # 0
\* a second value right behind the first is found where the first ends
Framed == Dec(Enc(n) \o Enc(1), Len(Enc(n)) + 1)[1] = 1
Digits(v) == [i \in 1..Len(Enc(v)) |-> Enc(v)[i].g]
Emit == PrintT("N " \o ToString(n) \o " " \o ToString(Digits(n)))
====

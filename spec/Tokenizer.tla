---- MODULE Tokenizer ----
(***************************************************************************)
(* Character-level model of numbers_parser.tokenizer.Tokenizer.parse       *)
(* (property C18).  One action per iteration of the scanner loop.          *)
(*                                                                         *)
(* Characters are CLASS NAMES, never raw glyphs (the cfg reader and PrintT *)
(* escape quotes inconsistently): Q = double quote, ' = single quote,      *)
(* x = typographic times/divide, g = typographic >= <= <>, a = any other   *)
(* letter-like character, "#" followed by "!" stands for a valid error     *)
(* code (#REF! ...), everything else is itself.                            *)
(*                                                                         *)
(* Level A (the property):  Total, LosslessInv/LosslessDone, NoQuotedSplit *)
(* Level B (the mechanism): exact item boundaries and types.               *)
(* Bug \in {"none","PopEmptyStack","DropChar","SplitQuoted"} re-enables    *)
(* defective branches to show the invariants are not vacuous.              *)
(***************************************************************************)
EXTENDS Integers, Sequences, TLC
CONSTANTS Alphabet, L, Bug
VARIABLES input, off, tok, stack, items, status
vars == <<input, off, tok, stack, items, status>>

Enders   == {",", ";", "}", ")", "+", "-", "*", "/", "^", "&", "=", ">", "<", "%", "x", "g"}
Ops      == {"+", "-", "*", "/", "^", "&", "=", ">", "<", "%", "x", "g"}
Digits19 == {"1"}
Digits   == {"0", "1"}
N == Len(input)
At(i) == IF i >= 1 /\ i <= N THEN input[i] ELSE "EOF"

Item(v, t, st) == [v |-> v, t |-> t, st |-> st]

\* ---- quoted strings, generic over the sequence s and the quote tokens (used on class names
\*      by the scanner below and on code points by Trace_Tokenizer): end index (inclusive) of the
\*      regex match starting at i, or 0
GIs(s, i, q) == i >= 1 /\ i <= Len(s) /\ s[i] = q
RECURSIVE GRunEnd(_, _, _)
GRunEnd(s, i, q) == IF GIs(s, i, q) THEN GRunEnd(s, i + 1, q) ELSE i      \* first index after the run of q
RECURSIVE GDQEnd(_, _, _)
GDQEnd(s, i, q) == \* i = index just after the opening quote; "(?:[^"]*"")*[^"]*"(?!")
  IF i > Len(s) THEN 0
  ELSE IF s[i] = q THEN LET j == GRunEnd(s, i, q) IN IF (j - i) % 2 = 1 THEN j - 1 ELSE GDQEnd(s, j, q)
  ELSE GDQEnd(s, i + 1, q)
RECURSIVE GSQ1(_, _, _, _)
GSQ1(s, i, best, q) == \* longest prefix '[^']*(''[^']*)*' ; i scans after the opening quote
  IF i > Len(s) THEN best
  ELSE IF s[i] = q THEN (IF GIs(s, i + 1, q) THEN GSQ1(s, i + 2, i, q) ELSE i)
  ELSE GSQ1(s, i + 1, best, q)
GSQOne(s, i, q) == IF GIs(s, i, q) THEN GSQ1(s, i + 1, 0, q) ELSE 0
\* quoted spans of s by the quoting rules themselves (independent of any item list): scanning left
\* to right outside any span, a double quote opens a string that ends at the first quote run of odd
\* length, a single quote opens a name '..''..' ; unterminated openers open nothing.
RECURSIVE GSpans(_, _, _, _)
GSpans(s, i, dq, sq) ==
  IF i > Len(s) THEN {}
  ELSE IF s[i] = dq THEN LET e == GDQEnd(s, i + 1, dq) IN
          IF e = 0 THEN GSpans(s, i + 1, dq, sq) ELSE {<<i, e>>} \cup GSpans(s, e + 1, dq, sq)
  ELSE IF s[i] = sq THEN LET e == GSQOne(s, i, sq) IN
          IF e = 0 THEN GSpans(s, i + 1, dq, sq) ELSE {<<i, e>>} \cup GSpans(s, e + 1, dq, sq)
  ELSE GSpans(s, i + 1, dq, sq)
RECURSIVE Bounds(_, _)
Bounds(vs, start) == IF vs = <<>> THEN {}
                     ELSE {<<start, start + Len(Head(vs)) - 1>>} \cup Bounds(Tail(vs), start + Len(Head(vs)))
GUnsplit(s, vs, dq, sq) == \A sp \in GSpans(s, 1, dq, sq) : \E b \in Bounds(vs, 1) : b[1] <= sp[1] /\ sp[2] <= b[2]

DQEnd(i) == GDQEnd(input, i, "Q")
DQEndBug(i) == \* Bug "SplitQuoted": the string ends at the first quote, doubled or not
  LET RECURSIVE F(_)
      F(k) == IF k > N THEN 0 ELSE IF input[k] = "Q" THEN k ELSE F(k + 1)
  IN F(i)
SQOne(i) == GSQOne(input, i, "'")
RECURSIVE SkipSp(_)
SkipSp(i) == IF At(i) = " " THEN SkipSp(i + 1) ELSE i
RECURSIVE SQTail(_)
SQTail(e) == LET j == SkipSp(e + 1) IN
  IF At(j) = ":" THEN LET k == SkipSp(j + 1) e2 == SQOne(k) IN IF e2 = 0 THEN e ELSE SQTail(e2)
  ELSE e
SQEnd(s) == LET e == SQOne(s) IN IF e = 0 THEN 0 ELSE SQTail(e)

\* ---- scientific notation on the token buffer: ^[1-9](\.[0-9]+)?E$
IsSN(t) == /\ Len(t) >= 2 /\ t[1] \in Digits19 /\ t[Len(t)] = "E"
           /\ \/ Len(t) = 2
              \/ /\ Len(t) >= 4 /\ t[2] = "." /\ \A k \in 3..(Len(t) - 1) : t[k] \in Digits

Saved == IF tok = <<>> THEN items ELSE Append(items, Item(tok, "OPERAND", "x"))

InitWith(S) == /\ input \in S
               /\ off = 1 /\ tok = <<>> /\ stack = <<>> /\ items = <<>> /\ status = "run"
Init == InitWith(UNION {[1..n -> Alphabet] : n \in 0..L})

Err(k) == /\ status' = k /\ UNCHANGED <<input, off, tok, stack, items>>

Finish == /\ status = "run" /\ off > N /\ items' = Saved /\ tok' = <<>> /\ status' = "done"
          /\ UNCHANGED <<input, off, stack>>

SNCond == off <= N /\ input[off] \in {"+", "-"} /\ Len(tok) >= 1 /\ IsSN(tok)
SciNot == /\ status = "run" /\ SNCond
          /\ tok' = (IF Bug = "DropChar" THEN tok ELSE Append(tok, input[off]))
          /\ off' = off + 1 /\ UNCHANGED <<input, stack, items, status>>

Body == LET c   == input[off]
            it0 == IF c \in Enders THEN Saved ELSE items
            tk0 == IF c \in Enders THEN <<>> ELSE tok
        IN
   CASE c \in {"Q", "'"} ->
          \* a quoted NAME may follow a table or sheet scope, or the colon of a span, inside an operand (Table::'a-b', total:'a-b'):
          \* it is taken into the operand
          LET scoped == c = "'" /\ Len(tk0) >= 1 /\ tk0[Len(tk0)] = ":" IN
          IF tk0 # <<>> /\ ~scoped THEN Err("TokenizerError")
          ELSE LET e == IF c = "Q" THEN (IF Bug = "SplitQuoted" THEN DQEndBug(off + 1) ELSE DQEnd(off + 1))
                        ELSE SQEnd(off) IN
               IF e = 0 THEN Err("TokenizerError")
               ELSE IF scoped THEN /\ tok' = tk0 \o SubSeq(input, off, e) /\ items' = it0
                                   /\ off' = e + 1 /\ UNCHANGED <<input, stack, status>>
               ELSE /\ items' = Append(it0, Item(SubSeq(input, off, e), "OPERAND", "q")) /\ tok' = tk0
                    /\ off' = e + 1 /\ UNCHANGED <<input, stack, status>>
     [] c = "#" ->
          IF tk0 # <<>> THEN Err("TokenizerError")
          ELSE IF At(off + 1) = "!" THEN /\ items' = Append(it0, Item(<<"#", "!">>, "OPERAND", "e")) /\ tok' = tk0
                                          /\ off' = off + 2 /\ UNCHANGED <<input, stack, status>>
          ELSE Err("TokenizerError")
     [] c \in Ops ->
          LET two == c \in {">", "<"} /\ At(off + 1) \in {"=", ">"} /\ (c = "<" \/ At(off + 1) = "=")
          IN /\ items' = Append(it0, Item(IF two THEN <<c, input[off + 1]>> ELSE <<c>>, "OP", "x"))
             /\ tok' = tk0 /\ off' = off + (IF two \/ (c = "g" /\ off = N) THEN 2 ELSE 1)
             /\ UNCHANGED <<input, stack, status>>
     [] c \in {"(", "{"} ->
          IF c = "{" /\ tk0 # <<>> THEN Err("TokenizerError")
          ELSE LET t == IF c = "{" THEN Item(<<c>>, "ARRAY", "OPEN")
                        ELSE IF tk0 # <<>> THEN Item(Append(tk0, c), "FUNC", "OPEN") ELSE Item(<<c>>, "PAREN", "OPEN")
               IN /\ items' = Append(it0, t) /\ stack' = Append(stack, t) /\ tok' = <<>>
                  /\ off' = off + 1 /\ UNCHANGED <<input, status>>
     [] c \in {")", "}"} ->
          IF stack = <<>> THEN Err(IF Bug = "PopEmptyStack" THEN "Other" ELSE "TokenizerError")
          ELSE LET top == stack[Len(stack)] want == IF top.t = "ARRAY" THEN "}" ELSE ")" IN
               IF want # c THEN /\ status' = "TokenizerError" /\ stack' = SubSeq(stack, 1, Len(stack) - 1)
                                 /\ UNCHANGED <<input, off, tok, items>>
               ELSE /\ items' = Append(it0, Item(<<c>>, top.t, "CLOSE")) /\ stack' = SubSeq(stack, 1, Len(stack) - 1)
                    /\ tok' = tk0 /\ off' = off + 1 /\ UNCHANGED <<input, status>>
     [] c \in {",", ";"} ->
          /\ items' = Append(it0, Item(<<c>>, "SEP", "x")) /\ tok' = tk0 /\ off' = off + 1
          /\ UNCHANGED <<input, stack, status>>
     [] OTHER -> /\ tok' = Append(tk0, c) /\ items' = it0 /\ off' = off + 1 /\ UNCHANGED <<input, stack, status>>

Iter == /\ status = "run" /\ off <= N /\ ~SNCond /\ Body
Next == Finish \/ SciNot \/ Iter
Spec == Init /\ [][Next]_vars

\* ------------------------------------------------------------------ Level A
RECURSIVE Flat(_)
Flat(s) == IF s = <<>> THEN <<>> ELSE Head(s) \o Flat(Tail(s))
Vals(its) == [k \in 1..Len(its) |-> its[k].v]
Consumed == IF off - 1 <= N THEN SubSeq(input, 1, off - 1) ELSE input
LosslessInv  == status = "run" => Flat(Vals(items)) \o tok = Consumed
LosslessDone == status = "done" => Flat(Vals(items)) = input
Total == status \in {"run", "done", "TokenizerError"}

Unsplit(vs) == GUnsplit(input, vs, "Q", "'")
NoQuotedSplit == status = "done" => Unsplit(Vals(items))

\* compact emission for the spec -> code replay: class names are single characters, so the input is
\* printed as one string and the items as one string with "|" between items.
RECURSIVE Str(_)
Str(s) == IF s = <<>> THEN "" ELSE Head(s) \o Str(Tail(s))
RECURSIVE Join(_)
Join(vs) == IF vs = <<>> THEN "" ELSE IF Len(vs) = 1 THEN Str(vs[1]) ELSE Str(Head(vs)) \o "|" \o Join(Tail(vs))
Emit == status \in {"done", "TokenizerError"} => PrintT(<<Str(input), status, Join(Vals(items))>>)
====

---- MODULE CellRecord ----
(***************************************************************************)
(* The v5 cell storage record (property C04).                              *)
(*                                                                         *)
(* Published layout (docs/Numbers.md): a 12 byte header whose bytes 8..11  *)
(* are the flag word; then one field per set flag bit IN ASCENDING BIT     *)
(* ORDER: bit 0 (0x1) 16 bytes decimal128, bit 1 (0x2) 8 bytes double,     *)
(* bit 2 (0x4) 8 bytes seconds, every other bit a 4 byte id.               *)
(*                                                                         *)
(* mode "dec": a state is a set fs of flag bits; Level A (DecodeSlots):     *)
(* the decoder reads every interpreted field from exactly the slot the     *)
(* layout assigns, whatever uninterpreted bits are present.  Level B is    *)
(* the decoder's sequential offset walk (CodeOffset).                      *)
(* mode "enc": a state is (kind, opt) = a cell kind and a subset of the 12 *)
(* optional reference fields; Level A (EncodeLayout): the record the       *)
(* encoder emits is the published layout of its own flag word.  Level B is *)
(* the encoder's emission order.                                           *)
(***************************************************************************)
EXTENDS Integers, Sequences, FiniteSets, TLC
CONSTANTS DecBits,    \* flag bits enumerated in mode "dec" (subset of 0..20)
          Bug         \* "none" | "SkipLate" | "RichTwice"
VARIABLES mode, fs, kind, opt
vars == <<mode, fs, kind, opt>>

AllBits == 0..20
Width(b) == IF b = 0 THEN 16 ELSE IF b \in {1, 2} THEN 8 ELSE 4
\* fields the library interprets: d128, double, seconds, string, rich, cell style, text style, formula, control,
\* suggest, and the six formats
Interpreted == {0, 1, 2, 3, 4, 5, 6, 9, 10, 12, 13, 14, 15, 16, 17, 18}
OptRefs == {4, 5, 6, 9, 10, 12, 13, 14, 15, 16, 17, 18}       \* the 12 optional references of a cell
Kinds == {"empty", "number", "currency", "text", "date", "bool", "duration", "rich", "error"}
PayloadBits(k) == CASE k \in {"number", "currency"} -> {0} [] k = "text" -> {3} [] k = "date" -> {2}
                    [] k \in {"bool", "duration"} -> {1} [] OTHER -> {}

RECURSIVE SumW(_)
SumW(S) == IF S = {} THEN 0 ELSE LET x == CHOOSE x \in S : TRUE IN Width(x) + SumW(S \ {x})
\* ---- the published layout
LayoutOffset(f, b) == 12 + SumW({x \in f : x < b})
LayoutEnd(f) == 12 + SumW(f)

\* ---- Level B, decoder: bits 0..7 in order, 9, 10, 12, then (defective variant) the skipped 0x100 / 0x800 fields,
\*      then 13..18; the repaired decoder skips 0x100 and 0x800 in place
CodeOffset(f, b) ==
  IF Bug = "SkipLate"
    THEN 12 + SumW({x \in f : x < b /\ x \notin {8, 11}}) + (IF b >= 13 THEN 4 * Cardinality(f \cap {8, 11}) ELSE 0)
    ELSE 12 + SumW({x \in f : x < b})
DecodeSlots == mode = "dec" => \A b \in fs \cap Interpreted : CodeOffset(fs, b) = LayoutOffset(fs, b)

\* ---- Level B, encoder: payload by kind, then the optional references in the fixed order of Cell._to_buffer
EmitOrder == <<4, 5, 6, 9, 10, 12, 13, 14, 15, 16, 17, 18>>
Flags(k, o) == PayloadBits(k) \cup o
\* sequence of <<bit, offset>> as emitted; bit -1 = bytes written without a flag
RECURSIVE EmitFrom(_, _, _)
EmitFrom(i, off, o) == IF i > Len(EmitOrder) THEN <<>>
                       ELSE IF EmitOrder[i] \in o THEN <<<<EmitOrder[i], off>>>> \o EmitFrom(i + 1, off + 4, o)
                       ELSE EmitFrom(i + 1, off, o)
Emitted(k, o) ==
  LET pb == PayloadBits(k)
      pay == IF pb = {} THEN (IF k = "rich" /\ Bug = "RichTwice" THEN <<<<-1, 12>>>> ELSE <<>>)
             ELSE LET b == CHOOSE b \in pb : TRUE IN <<<<b, 12>>>>
      start == 12 + SumW(pb) + (IF k = "rich" /\ Bug = "RichTwice" THEN 4 ELSE 0)
  IN pay \o EmitFrom(1, start, o)
Storable(k, o) == k # "error" /\ (k = "rich" => 4 \in o)
EncodeLayout == mode = "enc" /\ Storable(kind, opt) =>
                  \A i \in 1..Len(Emitted(kind, opt)) :
                     LET e == Emitted(kind, opt)[i] IN e[1] \in Flags(kind, opt) /\ e[2] = LayoutOffset(Flags(kind, opt), e[1])
EncodeComplete == mode = "enc" /\ Storable(kind, opt) =>
                    {Emitted(kind, opt)[i][1] : i \in 1..Len(Emitted(kind, opt))} = Flags(kind, opt)

Init == \/ mode = "dec" /\ fs \in SUBSET DecBits /\ kind = "none" /\ opt = {}
        \/ mode = "enc" /\ kind \in Kinds /\ opt \in SUBSET OptRefs /\ fs = {}
Next == UNCHANGED vars
Spec == Init /\ [][Next]_vars

\* ---- compact emission for the spec -> code replay
RECURSIVE Mask(_)
Mask(S) == IF S = {} THEN 0 ELSE LET x == CHOOSE x \in S : TRUE IN 2 ^ x + Mask(S \ {x})
RECURSIVE Slots(_, _)
Slots(f, b) == IF b > 20 THEN <<>> ELSE IF b \in f THEN <<b, LayoutOffset(f, b)>> \o Slots(f, b + 1) ELSE Slots(f, b + 1)
\* one string per state (TLC's pretty printer wraps long tuples over several lines, strings are never wrapped)
EmitDec == mode = "dec" => PrintT("D " \o ToString(Mask(fs)) \o " " \o ToString(LayoutEnd(fs)) \o " " \o ToString(Slots(fs, 0)))
EmitEnc == mode = "enc" /\ Storable(kind, opt) =>
             PrintT("E " \o kind \o " " \o ToString(Mask(opt)) \o " " \o ToString(Mask(Flags(kind, opt))) \o " "
                    \o ToString(LayoutEnd(Flags(kind, opt))) \o " " \o ToString(Slots(Flags(kind, opt), 0)))
====

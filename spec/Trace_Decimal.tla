---- MODULE Trace_Decimal ----
(***************************************************************************)
(* Code -> spec binding for C01: one event per cell written, saved,        *)
(* reopened and read.  kind: num | text | bool | date | dur.               *)
(*   w, r    : the written and the read value in canonical integer form    *)
(*             (num: [s, d, e]; text: code points or [len, sha]; bool 0/1; *)
(*             date and dur: <<days, seconds, microseconds>>)              *)
(*   wk, rk  : class of the written value / class name of the cell read    *)
(*   st      : for numbers the stored decimal128 payload (sign, coefficient*)
(*             digits, exponent) of the reopened record, or <<>>           *)
(* Level A: the cell has the corresponding type and Norm(read) =           *)
(* Norm(written) - equal, not close.  Level B: the payload denotes the     *)
(* written value (DRIFT only).                                             *)
(***************************************************************************)
EXTENDS Decimal, Json, IOUtils, TLCExt
Traces == ndJsonDeserialize(IOEnv.TRACE_FILE)
VARIABLE tid
Ev == Traces[tid]
TInit == tid \in 1..Len(Traces) /\ v = Zero
TSpec == TInit /\ [][UNCHANGED <<v, tid>>]_<<v, tid>>
CellClass(k) == CASE k = "num" -> "NumberCell" [] k = "text" -> "TextCell" [] k = "bool" -> "BoolCell"
                  [] k = "date" -> "DateCell" [] k = "dur" -> "DurationCell" [] OTHER -> "?"
N(x) == [s |-> x[1], d |-> x[2], e |-> x[3]]
LevelA == IF Ev.rk # CellClass(Ev.kind) THEN "type"
          ELSE IF Ev.kind = "num" THEN (IF Eq(N(Ev.w), N(Ev.r)) THEN "ok" ELSE "value")
          ELSE IF Ev.w = Ev.r THEN "ok" ELSE "value"
LevelB == IF Ev.kind = "num" /\ Ev.st # <<>> /\ Denotes(Ev.st[1], Ev.st[2], Ev.st[3]) # Norm(N(Ev.w)) THEN "payload" ELSE "ok"
Judge == PrintT("V " \o ToString(tid) \o " " \o LevelA \o " " \o LevelB)
====

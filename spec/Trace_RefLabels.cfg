CONSTANTS MaxSheets = 4
MaxTables = 4
TableNames = {"A"}
Bug = "none"
Labels = {"x"}
NL = 3
MaxTotal = 16
SPECIFICATION TSpec
INVARIANT Judge
CHECK_DEADLOCK FALSE

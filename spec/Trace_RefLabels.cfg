CONSTANTS MaxSheets = 4
MaxTables = 4
TableNames = {"A"}
Bug = "none"
Labels = {"x"}
NL = 3
MaxTotal = 16
CrossOn = TRUE
SPECIFICATION TSpec
INVARIANT Judge
CHECK_DEADLOCK FALSE

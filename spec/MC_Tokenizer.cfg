\* placeholder; the harness writes the alphabet/L/Bug per run (see harness/nv/props/c18.py)
CONSTANTS Alphabet = {"a","1","(",")"}
L = 3
Bug = "none"
SPECIFICATION Spec
INVARIANT LosslessInv
INVARIANT LosslessDone
INVARIANT Total
INVARIANT NoQuotedSplit
CHECK_DEADLOCK FALSE

---- MODULE DateFormat ----
(***************************************************************************)
(* Date/time and duration display (property C14).  All texts are sequences *)
(* of code points, all calendar and clock fields are integers.             *)
(*                                                                         *)
(* Dates: Fields are derived HERE from the proleptic Gregorian ordinal     *)
(* (days, 1 = 0001-01-01) and the time of day, so that the field           *)
(* extraction is part of the specification (CivilOK ties the ordinal to    *)
(* year/month/day).  Directive(f) is the documented table of               *)
(* docs/api/datetime.rst; where the document contradicts itself or the     *)
(* reference workbooks (y, ww, yyyy of years below 1000) every reading is   *)
(* accepted, so the result of a directive is a SET of texts.  Scan splits  *)
(* a format into maximal runs of letters (fields), other characters        *)
(* (literals) and quoted text ('' is a quote); a format renders as the     *)
(* concatenation of its parts (RenderSet).                                 *)
(* Durations: the displayed text, read unit by unit, recombines to the     *)
(* duration truncated to the smallest unit shown (DurationOK).             *)
(***************************************************************************)
EXTENDS Integers, Sequences, FiniteSets, TLC
CONSTANTS Bug
VARIABLE ev      \* the case under consideration (model checking enumerates cases, trace validation reads them)

\* ---- numbers as text
RECURSIVE Dec(_)
Dec(k) == IF k < 10 THEN <<48 + k>> ELSE Append(Dec(k \div 10), 48 + (k % 10))
Pad(s, n) == IF Len(s) >= n THEN s ELSE [i \in 1..(n - Len(s)) |-> 48] \o s
Z(k, n) == Pad(Dec(k), n)

\* ---- calendar
Leap(y) == (y % 4 = 0 /\ y % 100 # 0) \/ y % 400 = 0
MonthLen(y, m) == IF m = 2 THEN (IF Leap(y) THEN 29 ELSE 28) ELSE IF m \in {4, 6, 9, 11} THEN 30 ELSE 31
RECURSIVE DaysBeforeMonth(_, _)
DaysBeforeMonth(y, m) == IF m = 1 THEN 0 ELSE DaysBeforeMonth(y, m - 1) + MonthLen(y, m - 1)
Ordinal(y, m, d) == 365 * (y - 1) + (y - 1) \div 4 - (y - 1) \div 100 + (y - 1) \div 400 + DaysBeforeMonth(y, m) + d
Weekday(ord) == (ord + 6) % 7                       \* Monday = 0
CivilOK(e) == e.mo \in 1..12 /\ e.d \in 1..MonthLen(e.y, e.mo) /\ Ordinal(e.y, e.mo, e.d) = e.days
YDay(e) == e.days - Ordinal(e.y, 1, 1) + 1
WD(e) == Weekday(e.days)
WD1(e) == Weekday(Ordinal(e.y, e.mo, 1))

MonthNames == <<<<74, 97, 110, 117, 97, 114, 121>>, <<70, 101, 98, 114, 117, 97, 114, 121>>, <<77, 97, 114, 99, 104>>, <<65, 112, 114, 105, 108>>, <<77, 97, 121>>, <<74, 117, 110, 101>>, <<74, 117, 108, 121>>, <<65, 117, 103, 117, 115, 116>>, <<83, 101, 112, 116, 101, 109, 98, 101, 114>>, <<79, 99, 116, 111, 98, 101, 114>>, <<78, 111, 118, 101, 109, 98, 101, 114>>, <<68, 101, 99, 101, 109, 98, 101, 114>>>>
DayNames == <<<<77, 111, 110, 100, 97, 121>>, <<84, 117, 101, 115, 100, 97, 121>>, <<87, 101, 100, 110, 101, 115, 100, 97, 121>>, <<84, 104, 117, 114, 115, 100, 97, 121>>, <<70, 114, 105, 100, 97, 121>>, <<83, 97, 116, 117, 114, 100, 97, 121>>, <<83, 117, 110, 100, 97, 121>>>>
Abbrev(s) == SubSeq(s, 1, 3)
Txt(s) == s
K24(h) == IF Bug = "K24Replace" THEN (IF h = 0 THEN 24 ELSE IF h = 10 THEN 124 ELSE IF h = 20 THEN 224 ELSE h)   \* str(hour).replace("0","24")
          ELSE IF h = 0 THEN 24 ELSE h
Micro(e, n) == SubSeq(Z(e.us, 6), 1, n)
\* the documented table: field (code points) -> set of acceptable texts
Directive(f, e) ==
  CASE f = <<97>> -> {IF e.H < 12 THEN <<97, 109>> ELSE <<112, 109>>}
    [] f = <<69, 69, 69, 69>> -> {DayNames[WD(e) + 1]}
    [] f = <<69, 69, 69>> -> {Abbrev(DayNames[WD(e) + 1])}
    [] f = <<121, 121, 121, 121>> -> {Dec(e.y), Z(e.y, 4)}
    [] f = <<121, 121>> -> {Z(e.y % 100, 2)}
    [] f = <<121>> -> {Dec(e.y), Dec(e.y % 100)}
    [] f = <<77, 77, 77, 77>> -> {MonthNames[e.mo]}
    [] f = <<77, 77, 77>> -> {Abbrev(MonthNames[e.mo])}
    [] f = <<77, 77>> -> {Z(e.mo, 2)}
    [] f = <<77>> -> {Dec(e.mo)}
    [] f = <<100>> -> {Dec(e.d)}
    [] f = <<100, 100>> -> {Z(e.d, 2)}
    [] f = <<68, 68, 68>> -> {Z(YDay(e), 3)}
    [] f = <<68, 68>> -> {Z(YDay(e), 2)}
    [] f = <<68>> -> {Dec(YDay(e))}
    [] f = <<72, 72>> -> {Z(e.H, 2)}
    [] f = <<72>> -> {Dec(e.H)}
    [] f = <<104, 104>> -> {Z(((e.H + 11) % 12) + 1, 2)}
    [] f = <<104>> -> {Dec(((e.H + 11) % 12) + 1)}
    [] f = <<107>> -> {Dec(K24(e.H))}
    [] f = <<107, 107>> -> {Z(K24(e.H), 2)}
    [] f = <<75>> -> {Dec(e.H % 12)}
    [] f = <<75, 75>> -> {Z(e.H % 12, 2)}
    [] f = <<109, 109>> -> {Z(e.Mi, 2)}
    [] f = <<109>> -> {Dec(e.Mi)}
    [] f = <<115, 115>> -> {Z(e.S, 2)}
    [] f = <<115>> -> {Dec(e.S)}
    [] f = <<87>> -> {Dec((e.d + WD1(e) - 1) \div 7)}
    [] f = <<119, 119>> -> {Dec((YDay(e) + 6 - WD(e)) \div 7), Z((YDay(e) + 6 - WD(e)) \div 7, 2)}
    [] f = <<71>> -> {<<65, 68>>}
    [] f = <<70>> -> {Dec((e.d - 1) \div 7 + 1)}
    [] f = <<83>> -> {Micro(e, 1)}
    [] f = <<83, 83>> -> {Micro(e, 2)}
    [] f = <<83, 83, 83>> -> {Micro(e, 3)}
    [] f = <<83, 83, 83, 83>> -> {Micro(e, 4)}
    [] f = <<83, 83, 83, 83, 83>> -> {Micro(e, 5)}
    [] OTHER -> {}
Known == {<<97>>, <<69, 69, 69, 69>>, <<69, 69, 69>>, <<121, 121, 121, 121>>, <<121, 121>>, <<121>>, <<77, 77, 77, 77>>, <<77, 77, 77>>, <<77, 77>>, <<77>>, <<100>>, <<100, 100>>, <<68, 68, 68>>, <<68, 68>>, <<68>>, <<72, 72>>, <<72>>, <<104, 104>>, <<104>>, <<107>>, <<107, 107>>, <<75>>, <<75, 75>>, <<109, 109>>, <<109>>, <<115, 115>>, <<115>>, <<87>>, <<119, 119>>, <<71>>, <<70>>, <<83>>, <<83, 83>>, <<83, 83, 83>>, <<83, 83, 83, 83>>, <<83, 83, 83, 83, 83>>}

\* ---- scanning a format
IsLetter(c) == (c >= 65 /\ c <= 90) \/ (c >= 97 /\ c <= 122)
Q == 39
RECURSIVE FieldEnd(_, _)
FieldEnd(fmt, i) == IF i <= Len(fmt) /\ IsLetter(fmt[i]) THEN FieldEnd(fmt, i + 1) ELSE i
\* set of texts the format may render to, from position i, inside quotes or not
RECURSIVE RenderFrom(_, _, _, _)
RenderFrom(fmt, i, quoted, e) ==
  IF i > Len(fmt) THEN {<<>>}
  ELSE LET c == fmt[i] IN
    IF c = Q THEN
       IF i = Len(fmt) THEN {<<>>}
       ELSE IF fmt[i + 1] = Q THEN (IF Bug = "NoQuoteUnescape" THEN {<<Q, Q>> \o r : r \in RenderFrom(fmt, i + 2, quoted, e)}
                                    ELSE {<<Q>> \o r : r \in RenderFrom(fmt, i + 2, quoted, e)})
       ELSE RenderFrom(fmt, i + 1, ~quoted, e)
    ELSE IF quoted \/ ~IsLetter(c) THEN {<<c>> \o r : r \in RenderFrom(fmt, i + 1, quoted, e)}
    ELSE LET j == FieldEnd(fmt, i) f == SubSeq(fmt, i, j - 1) IN
         {p \o r : p \in Directive(f, e), r \in RenderFrom(fmt, j, FALSE, e)}
RenderSet(fmt, e) == RenderFrom(fmt, 1, FALSE, e)
DateOK(e) == CivilOK(e) /\ e.out \in RenderSet(e.fmt, e)

\* ---- durations.  units: 1 week, 2 day, 4 hour, 8 minute, 16 second, 32 millisecond (as the library numbers them)
UnitMs(u) == CASE u = 1 -> 604800000 [] u = 2 -> 86400000 [] u = 4 -> 3600000 [] u = 8 -> 60000 [] u = 16 -> 1000 [] u = 32 -> 1
Units == <<1, 2, 4, 8, 16, 32>>
Shown(largest, smallest) == {u \in {1, 2, 4, 8, 16, 32} : u >= largest /\ u <= smallest}
\* a duration is <<days, ms of day>>; amounts are added limb-wise so that nothing exceeds 32 bits
AddAmount(acc, n, u) ==
  LET perDay == 86400000 \div UnitMs(u) IN
  IF u \in {1, 2} THEN <<acc[1] + n * (UnitMs(u) \div 86400000), acc[2]>>
  ELSE LET ms == acc[2] + (n % perDay) * UnitMs(u) IN <<acc[1] + n \div perDay + ms \div 86400000, ms % 86400000>>
RECURSIVE Recombine(_, _, _)
Recombine(vals, units, acc) == IF vals = <<>> THEN acc ELSE Recombine(Tail(vals), Tail(units), AddAmount(acc, Head(vals), Head(units)))
ShownSeq(largest, smallest) == LET RECURSIVE F(_)
                                   F(i) == IF i > 6 THEN <<>> ELSE IF Units[i] >= largest /\ Units[i] <= smallest THEN <<Units[i]>> \o F(i + 1) ELSE F(i + 1)
                               IN F(1)
Truncated(dur, smallest) == \* dur = <<days, ms>> truncated to a multiple of the smallest unit
  IF smallest = 1 THEN <<dur[1] - (dur[1] % 7), 0>> ELSE IF smallest = 2 THEN <<dur[1], 0>> ELSE <<dur[1], dur[2] - (dur[2] % UnitMs(smallest))>>
\* e.vals : the numbers read from the text in order; e.units : the unit each number is labelled with (LONG/SHORT styles) or <<>> (COMPACT)
DurationOK(e) ==
  LET us == ShownSeq(e.largest, e.smallest) IN
  /\ Len(e.vals) = Len(us)
  /\ (e.units # <<>> => e.units = us)
  /\ Recombine(e.vals, us, <<0, 0>>) = Truncated(e.dur, e.smallest)
AutoOK(e) == \* automatic units: nothing of the duration is lost.  The compact style does not label its numbers: it is
             \* accepted if SOME contiguous range of units reads the numbers back to the duration
  IF e.units = <<>>
    THEN Len(e.vals) >= 1 /\ \E l \in {1, 2, 4, 8, 16, 32}, s \in {1, 2, 4, 8, 16, 32} :
           l <= s /\ Len(ShownSeq(l, s)) = Len(e.vals) /\ Recombine(e.vals, ShownSeq(l, s), <<0, 0>>) = e.dur
    ELSE /\ Len(e.vals) = Len(e.units) /\ Len(e.vals) >= 1
         /\ \A i \in 1..(Len(e.units) - 1) : e.units[i] < e.units[i + 1]
         /\ Recombine(e.vals, e.units, <<0, 0>>) = e.dur

\* ---- model checking: every directive over a calendar of cases; each text must have the documented shape
Cases == [fmt : Known, y : {2023, 2024}, mo : 1..12, d : {1, 8, 15, 28}, H : {0, 1, 9, 10, 11, 12, 13, 20, 23}, Mi : {0, 7, 59}, S : {0, 59}, us : {0, 123456}]
Mk(c) == [kind |-> "date", fmt |-> c.fmt, y |-> c.y, mo |-> c.mo, d |-> c.d, H |-> c.H, Mi |-> c.Mi, S |-> c.S, us |-> c.us,
          days |-> Ordinal(c.y, c.mo, c.d), out |-> <<>>]
Init == ev \in {Mk(c) : c \in Cases}
Next == UNCHANGED ev
Spec == Init /\ [][Next]_ev
RECURSIVE UnDec(_)
UnDec(t) == IF t = <<>> THEN 0 ELSE UnDec(SubSeq(t, 1, Len(t) - 1)) * 10 + (t[Len(t)] - 48)
AllDigits(t) == t # <<>> /\ \A i \in 1..Len(t) : t[i] >= 48 /\ t[i] <= 57
F(s) == s
Range(f) == \* documented range <<lo, hi, minimum width>> of the numeric directives
  CASE f = <<107>> -> <<1, 24, 1>> [] f = <<107, 107>> -> <<1, 24, 2>> [] f = <<75>> -> <<0, 11, 1>> [] f = <<75, 75>> -> <<0, 11, 2>>
    [] f = <<104>> -> <<1, 12, 1>> [] f = <<104, 104>> -> <<1, 12, 2>> [] f = <<72>> -> <<0, 23, 1>> [] f = <<72, 72>> -> <<0, 23, 2>>
    [] f = <<68>> -> <<1, 366, 1>> [] f = <<68, 68>> -> <<1, 366, 2>> [] f = <<68, 68, 68>> -> <<1, 366, 3>>
    [] f = <<109>> -> <<0, 59, 1>> [] f = <<109, 109>> -> <<0, 59, 2>> [] f = <<115>> -> <<0, 59, 1>> [] f = <<115, 115>> -> <<0, 59, 2>>
    [] f = <<77>> -> <<1, 12, 1>> [] f = <<77, 77>> -> <<1, 12, 2>> [] f = <<100>> -> <<1, 31, 1>> [] f = <<100, 100>> -> <<1, 31, 2>>
    [] f = <<87>> -> <<0, 5, 1>> [] f = <<70>> -> <<1, 5, 1>> [] f = <<119, 119>> -> <<0, 53, 1>>
    [] OTHER -> <<0, -1, 0>>
ShapeOK == /\ Directive(ev.fmt, ev) # {}
           /\ LET r == Range(ev.fmt) IN r[2] >= 0 =>
                \A t \in Directive(ev.fmt, ev) : AllDigits(t) /\ UnDec(t) >= r[1] /\ UnDec(t) <= r[2] /\ Len(t) >= r[3]
                                                 /\ (Len(t) > r[3] /\ ev.fmt # <<119, 119>> => t[1] # 48)     \* ww: padded and unpadded both accepted
\* the scanner: quoted text and doubled quotes pass through unchanged, a field renders its directive
ScanOK == LET e == ev IN
          /\ RenderSet(<<Q, 97, 116, Q>>, e) = {<<97, 116>>}                                        \* 'at' -> at
          /\ RenderSet(<<Q, Q>>, e) = {<<Q>>}                                                       \* '' -> '
          /\ RenderSet(<<72, 72, 58, 109, 109>>, e) = {Z(e.H, 2) \o <<58>> \o Z(e.Mi, 2)}           \* HH:mm
          /\ RenderSet(<<100, 32, Q, 104, Q, 32, 72>>, e) = {Dec(e.d) \o <<32, 104, 32>> \o Dec(e.H)}   \* d 'h' H
====

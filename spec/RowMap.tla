---- MODULE RowMap ----
(***************************************************************************)
(* Where a table's rows are stored (property C06: "every stored row is     *)
(* reported at the row index its own storage record declares", header      *)
(* records of empty rows, byte vs 4-byte-unit offsets; tile geometry C07). *)
(*                                                                         *)
(* A table of NR rows is stored in tiles of TileSize rows.  Each tile      *)
(* holds a rowInfo for every NON-EMPTY row (its tile_row_index), in order. *)
(* The header bucket holds one record per row index that has one: every    *)
(* non-empty row, and any subset of the empty rows.                        *)
(* Level A: row r is read from the rowInfo with tile*TileSize + index = r, *)
(* and is empty iff there is none.  Level B: the code's map from row to    *)
(* position in the flat list of rowInfos.                                  *)
(* Bug = "CountHeaders": positions are counted over header records.        *)
(***************************************************************************)
EXTENDS Integers, Sequences, FiniteSets, TLC
CONSTANTS NR, TileSize, Bug
VARIABLES nonEmpty,   \* set of rows that have a rowInfo
          headered    \* set of rows that have a header record (superset of nonEmpty)
vars == <<nonEmpty, headered>>
Rows == 0..(NR - 1)
Init == /\ nonEmpty \in SUBSET Rows
        /\ headered \in {nonEmpty \cup e : e \in SUBSET (Rows \ nonEmpty)}
Next == UNCHANGED vars
Spec == Init /\ [][Next]_vars
\* the flat list of rowInfos in tile order: <<tile, tile_row_index>>
SortedSeq(S) == CHOOSE s \in [1..Cardinality(S) -> S] : \A a, b \in 1..Cardinality(S) : a < b => s[a] < s[b]
RowInfos == LET s == SortedSeq(nonEmpty) IN [k \in 1..Len(s) |-> <<s[k] \div TileSize, s[k] % TileSize>>]
\* Level A
SpecPos(r) == IF r \in nonEmpty THEN CHOOSE k \in 1..Len(RowInfos) : RowInfos[k][1] * TileSize + RowInfos[k][2] = r ELSE 0
\* Level B: the code's map  row -> position (0 = None)
CodePos(r) ==
  IF Bug = "CountHeaders"
    THEN (IF r \in headered THEN Cardinality({x \in headered : x <= r}) ELSE 0)          \* idx counts header records
    ELSE (IF r \in nonEmpty THEN Cardinality({x \in nonEmpty : x <= r}) ELSE 0)          \* counts rowInfos via tile / tile_row_index
\* a position beyond the list reads as "no cell" in the code
Reads(r) == LET p == CodePos(r) IN IF p = 0 \/ p > Len(RowInfos) THEN -1 ELSE RowInfos[p][1] * TileSize + RowInfos[p][2]
RowAtDeclaredIndex == \A r \in Rows : Reads(r) = (IF r \in nonEmpty THEN r ELSE -1)
EmitStore == PrintT("R " \o ToString(SortedSeq(nonEmpty)) \o " " \o ToString(SortedSeq(headered \ nonEmpty)))
====

---- MODULE RowMap ----
(***************************************************************************)
(* Where a table's rows are stored (property C06: "every stored row is     *)
(* reported at the row index its own storage record declares", header      *)
(* records of empty rows, byte vs 4-byte-unit offsets; tile geometry C07). *)
(*                                                                         *)
(* A table of NR rows is stored in tiles of TileSize rows.  Each tile      *)
(* holds a rowInfo for every NON-EMPTY row (its tile_row_index), in order. *)
(* The header bucket holds one record per row index that has one: every    *)
(* non-empty row, and any subset of the empty rows.                        *)
(* Level A: row r is read from the rowInfo with tile*TileSize + index = r, *)
(* and is empty iff there is none.  Level B: the code's map from row to    *)
(* position in the flat list of rowInfos.                                  *)
(* A tile may also hold a record for an EMPTY row (cell_count 0, no cell    *)
(* offsets): Numbers does not write them, the library's own writer writes  *)
(* one per row, and a whole-row merge leaves one.                           *)
(* Bug = "CountHeaders": positions are counted over header records.        *)
(* Bug = "SkipEmptyRecords": the list of row buffers leaves out records    *)
(* with no cells while positions still count them.                         *)
(***************************************************************************)
EXTENDS Integers, Sequences, FiniteSets, TLC
CONSTANTS NR, TileSize, Bug
VARIABLES nonEmpty,   \* set of rows that hold at least one cell (each has a rowInfo)
          recorded,   \* set of rows that have a rowInfo (superset of nonEmpty; the others are records with cell_count 0)
          headered    \* set of rows that have a header record (superset of nonEmpty)
vars == <<nonEmpty, recorded, headered>>
Rows == 0..(NR - 1)
Init == /\ nonEmpty \in SUBSET Rows
        /\ recorded \in {nonEmpty \cup e : e \in SUBSET (Rows \ nonEmpty)}
        /\ headered \in {nonEmpty \cup e : e \in SUBSET (Rows \ nonEmpty)}
Next == UNCHANGED vars
Spec == Init /\ [][Next]_vars
SortedSeq(S) == CHOOSE s \in [1..Cardinality(S) -> S] : \A a, b \in 1..Cardinality(S) : a < b => s[a] < s[b]
\* the flat list of rowInfos in tile order: <<tile, tile_row_index, 1 if it holds cells else 0>>
RowInfos == LET s == SortedSeq(recorded) IN [k \in 1..Len(s) |-> <<s[k] \div TileSize, s[k] % TileSize, IF s[k] \in nonEmpty THEN 1 ELSE 0>>]
RowOf(ri) == ri[1] * TileSize + ri[2]
\* Level B: the code keeps (1) a flat list of decoded row buffers and (2) a map  row -> position in that list (0 = None)
Buffers == IF Bug = "SkipEmptyRecords" THEN SelectSeq(RowInfos, LAMBDA ri : ri[3] = 1) ELSE RowInfos
CodePos(r) ==
  IF Bug = "CountHeaders"
    THEN (IF r \in headered THEN Cardinality({x \in headered : x <= r}) ELSE 0)          \* idx counts header records
    ELSE (IF r \in recorded THEN Cardinality({x \in recorded : x <= r}) ELSE 0)          \* counts rowInfos via tile / tile_row_index
\* a position beyond the list, or a buffer without cells, reads as "no cell" in the code
Reads(r) == LET p == CodePos(r) IN
            IF p = 0 \/ p > Len(Buffers) THEN -1
            ELSE IF Buffers[p][3] = 0 THEN -1 ELSE RowOf(Buffers[p])
\* Level A: row r shows the cells of the record that declares r, and nothing if no record with cells declares it
RowAtDeclaredIndex == \A r \in Rows : Reads(r) = (IF r \in nonEmpty THEN r ELSE -1)
EmitStore == PrintT("R " \o ToString(SortedSeq(nonEmpty)) \o " " \o ToString(SortedSeq(headered \ nonEmpty)) \o " " \o ToString(SortedSeq(recorded \ nonEmpty)))
====

---- MODULE FormulaStack ----
(***************************************************************************)
(* Stored formulas (property C08): a formula is a post-fix array of nodes; *)
(* TableFormulas.formula renders it with an operand stack.                 *)
(*                                                                         *)
(* The state machine below BUILDS well-formed programs node by node while  *)
(* keeping, for every stack entry, the expression tree it denotes.  A      *)
(* program is well formed "the way Numbers writes it": wherever the tree's *)
(* shape differs from what conventional precedence / left associativity    *)
(* would parse, the child is wrapped in an explicit one-element LIST node  *)
(* (the NeedsParen operators).  Trees:  <<"leaf",k>>  <<"empty">>  <<"bin",op,l,r>>     *)
(* <<"neg",x>>  <<"pct",x>>  <<"call",args>>  <<"list",args>>              *)
(* <<"arr",nrows,ncols,elems>>.                                            *)
(*                                                                         *)
(* Level A: the rendered token text, parsed with conventional precedence   *)
(* and the parentheses it shows, denotes the same tree: Parse(Render(t)) = *)
(* t  (Faithful).  Level B: the code's stack machine over token strings    *)
(* (RunProg) produces exactly Render(tree) (MachineAgrees); Bug selects    *)
(* defective variants of the machine / of the well-formedness rule.        *)
(***************************************************************************)
EXTENDS Integers, Sequences, FiniteSets, TLC
CONSTANTS LeafKinds, BinOps, MaxNodes, MaxArity, Features, Bug
VARIABLES stack, prog
vars == <<stack, prog>>

Prec(op) == CASE op \in {"eq", "ne", "lt", "gt", "le", "ge"} -> 1 [] op = "cat" -> 2 [] op \in {"add", "sub"} -> 3
              [] op \in {"mul", "div"} -> 4 [] op = "pow" -> 5 [] OTHER -> 0
Glyph(op) == CASE op = "add" -> "+" [] op = "sub" -> "-" [] op = "mul" -> "*" [] op = "div" -> "/" [] op = "pow" -> "^" [] op = "cat" -> "&"
               [] OTHER -> op
OpOfGlyph(g) == CASE g = "+" -> "add" [] g = "-" -> "sub" [] g = "*" -> "mul" [] g = "/" -> "div" [] g = "^" -> "pow" [] g = "&" -> "cat" [] OTHER -> g
IsBinGlyph(g) == g \in {"+", "-", "*", "/", "^", "&", "eq", "ne", "lt", "gt", "le", "ge"}
Kind(t) == t[1]
Atomic(t) == Kind(t) \in {"leaf", "call", "list", "arr"}
\* a child that would be read differently without parentheses (conservative where conventions differ:
\* powers and negations next to a power always take parentheses)
NeedsParenL(op, c) == \/ Kind(c) = "bin" /\ (Prec(c[2]) < Prec(op) \/ (op = "pow" /\ c[2] = "pow"))
                      \/ Kind(c) = "neg" /\ op = "pow"
NeedsParenR(op, c) == \/ Kind(c) = "bin" /\ Prec(c[2]) <= Prec(op)
                      \/ Kind(c) = "neg"                                         \* a - -b, a ^ -b : written with parentheses
NeedsParenNeg(c) == Kind(c) = "bin" \/ Kind(c) = "neg"
NeedsParenPct(c) == Kind(c) \in {"bin", "neg"}
RuleOn == Bug # "NoParenRule"

\* ---- rendering a tree to tokens (what the formula text is, token by token)
RECURSIVE Render(_), RenderArgs(_, _)
RenderArgs(args, sep) == IF args = <<>> THEN <<>> ELSE IF Len(args) = 1 THEN Render(args[1]) ELSE Render(Head(args)) \o <<sep>> \o RenderArgs(Tail(args), sep)
RECURSIVE RenderRows(_, _)
RenderRows(elems, nc) == IF Len(elems) <= nc THEN RenderArgs(elems, ",") ELSE RenderArgs(SubSeq(elems, 1, nc), ",") \o <<";">> \o RenderRows(SubSeq(elems, nc + 1, Len(elems)), nc)
Render(t) == CASE Kind(t) = "leaf" -> <<t[2]>>
               [] Kind(t) = "empty" -> <<>>
               [] Kind(t) = "bin" -> Render(t[3]) \o <<Glyph(t[2])>> \o Render(t[4])
               [] Kind(t) = "neg" -> <<"-">> \o Render(t[2])
               [] Kind(t) = "pct" -> Render(t[2]) \o <<"%">>
               [] Kind(t) = "call" -> <<"f", "(">> \o RenderArgs(t[2], ",") \o <<")">>
               [] Kind(t) = "list" -> <<"(">> \o RenderArgs(t[2], ",") \o <<")">>
               [] Kind(t) = "arr" -> <<"[">> \o RenderRows(t[4], t[3]) \o <<"]">>

\* ---- reading tokens back with conventional precedence (precedence climbing); results are <<tree, next position>>
Tok(ts, p) == IF p <= Len(ts) THEN ts[p] ELSE "EOF"
RECURSIVE PExpr(_, _, _), PLoop(_, _, _, _), PUnary(_, _), PPost(_, _, _), PPrimary(_, _), PArgs(_, _, _), PElems(_, _, _, _)
PExpr(ts, p, minp) == LET u == PUnary(ts, p) IN PLoop(ts, u[1], u[2], minp)
PLoop(ts, lhs, p, minp) ==
  LET g == Tok(ts, p) IN
  IF IsBinGlyph(g) /\ Prec(OpOfGlyph(g)) >= minp
    THEN LET r == PExpr(ts, p + 1, Prec(OpOfGlyph(g)) + 1) IN PLoop(ts, <<"bin", OpOfGlyph(g), lhs, r[1]>>, r[2], minp)
    ELSE <<lhs, p>>
PUnary(ts, p) == IF Tok(ts, p) = "-" THEN LET u == PUnary(ts, p + 1) IN <<<<"neg", u[1]>>, u[2]>>
                 ELSE LET q == PPrimary(ts, p) IN PPost(ts, q[1], q[2])
PPost(ts, t, p) == IF Tok(ts, p) = "%" THEN PPost(ts, <<"pct", t>>, p + 1) ELSE <<t, p>>
\* arguments up to the closing token; an argument position with nothing in it is an empty argument
PArgs(ts, p, close) ==
  IF Tok(ts, p) = close THEN <<<<>>, p + 1>>
  ELSE LET a == IF Tok(ts, p) = "," THEN <<<<"empty">>, p>> ELSE PExpr(ts, p, 1) IN
       IF Tok(ts, a[2]) = "," THEN (IF Tok(ts, a[2] + 1) = close THEN <<<<a[1], <<"empty">>>>, a[2] + 2>>
                                    ELSE LET rest == PArgs(ts, a[2] + 1, close) IN <<<<a[1]>> \o rest[1], rest[2]>>)
       ELSE <<<<a[1]>>, a[2] + 1>>
PElems(ts, p, acc, ncols) == \* array elements: leaves separated by "," (same row) or ";" (next row)
  LET e == PPrimary(ts, p) sep == Tok(ts, e[2]) IN
  IF sep = "," THEN PElems(ts, e[2] + 1, Append(acc, e[1]), ncols)
  ELSE IF sep = ";" THEN PElems(ts, e[2] + 1, Append(acc, e[1]), IF ncols = 0 THEN Len(acc) + 1 ELSE ncols)
  ELSE LET all == Append(acc, e[1]) nc == IF ncols = 0 THEN Len(all) ELSE ncols IN <<<<"arr", Len(all) \div nc, nc, all>>, e[2] + 1>>
PPrimary(ts, p) ==
  LET g == Tok(ts, p) IN
  IF g = "(" THEN LET a == PArgs(ts, p + 1, ")") IN <<<<"list", a[1]>>, a[2]>>
  ELSE IF g = "f" THEN LET a == PArgs(ts, p + 2, ")") IN <<<<"call", a[1]>>, a[2]>>
  ELSE IF g = "[" THEN PElems(ts, p + 1, <<>>, 0)
  ELSE <<<<"leaf", g>>, p + 1>>
Parse(ts) == LET r == PExpr(ts, 1, 1) IN IF r[2] = Len(ts) + 1 THEN r[1] ELSE <<"unparsed", r[2]>>

\* ---- Level B: the code's operand stack machine over rendered strings (here: token sequences)
TopN(st, n) == SubSeq(st, Len(st) - n + 1, Len(st))
DropN(st, n) == SubSeq(st, 1, Len(st) - n)
RECURSIVE JoinToks(_, _)
JoinToks(xs, sep) == IF xs = <<>> THEN <<>> ELSE IF Len(xs) = 1 THEN xs[1] ELSE Head(xs) \o <<sep>> \o JoinToks(Tail(xs), sep)
Rev(s) == [i \in 1..Len(s) |-> s[Len(s) - i + 1]]
RECURSIVE JoinRows(_, _)
JoinRows(xs, nc) == IF Len(xs) <= nc THEN JoinToks(xs, ",") ELSE JoinToks(SubSeq(xs, 1, nc), ",") \o <<";">> \o JoinRows(SubSeq(xs, nc + 1, Len(xs)), nc)
StepNode(st, nd) ==
  LET k == nd[1] IN
  CASE k = "leaf" -> Append(st, <<nd[2]>>)
    [] k = "empty" -> Append(st, <<>>)
    [] k = "bin" -> LET r == st[Len(st)] l == st[Len(st) - 1] IN
                    Append(DropN(st, 2), IF Bug = "SwapSub" /\ nd[2] = "sub" THEN r \o <<"-">> \o l ELSE l \o <<Glyph(nd[2])>> \o r)
    [] k = "neg" -> Append(DropN(st, 1), <<"-">> \o st[Len(st)])
    [] k = "pct" -> Append(DropN(st, 1), st[Len(st)] \o <<"%">>)
    [] k = "call" -> Append(DropN(st, nd[2]), <<"f", "(">> \o JoinToks(IF Bug = "ArgsReversed" THEN Rev(TopN(st, nd[2])) ELSE TopN(st, nd[2]), ",") \o <<")">>)
    [] k = "list" -> Append(DropN(st, nd[2]), <<"(">> \o JoinToks(TopN(st, nd[2]), ",") \o <<")">>)
    [] k = "arr" -> Append(DropN(st, nd[2] * nd[3]), <<"[">> \o JoinRows(TopN(st, nd[2] * nd[3]), nd[3]) \o <<"]">>)
    [] k = "ws" -> IF Bug = "WhitespacePops" /\ st # <<>> THEN DropN(st, 1) ELSE st      \* nodes that render nothing leave the stack alone
RECURSIVE RunProg(_, _)
RunProg(pr, st) == IF pr = <<>> THEN st ELSE RunProg(Tail(pr), StepNode(st, Head(pr)))

\* ---- the builder
Budget == Len(prog) < MaxNodes
NonEmpty(t) == Kind(t) # "empty"
PushLeaf(k) == /\ Budget /\ stack' = Append(stack, <<"leaf", k>>) /\ prog' = Append(prog, <<"leaf", k>>)
PushEmpty == /\ Budget /\ "empty" \in Features /\ stack' = Append(stack, <<"empty">>) /\ prog' = Append(prog, <<"empty">>)
Bin(op) == /\ Budget /\ Len(stack) >= 2
           /\ LET r == stack[Len(stack)] l == stack[Len(stack) - 1] IN
              /\ NonEmpty(l) /\ NonEmpty(r)
              /\ (RuleOn => ~NeedsParenL(op, l) /\ ~NeedsParenR(op, r))
              /\ stack' = Append(DropN(stack, 2), <<"bin", op, l, r>>)
           /\ prog' = Append(prog, <<"bin", op>>)
Neg == /\ Budget /\ "neg" \in Features /\ Len(stack) >= 1 /\ NonEmpty(stack[Len(stack)]) /\ (RuleOn => ~NeedsParenNeg(stack[Len(stack)]))
       /\ stack' = Append(DropN(stack, 1), <<"neg", stack[Len(stack)]>>) /\ prog' = Append(prog, <<"neg">>)
Pct == /\ Budget /\ "pct" \in Features /\ Len(stack) >= 1 /\ NonEmpty(stack[Len(stack)]) /\ (RuleOn => ~NeedsParenPct(stack[Len(stack)]))
       /\ stack' = Append(DropN(stack, 1), <<"pct", stack[Len(stack)]>>) /\ prog' = Append(prog, <<"pct">>)
Call(n) == /\ Budget /\ "call" \in Features /\ Len(stack) >= n
           /\ (n = 1 => NonEmpty(stack[Len(stack)]))          \* f() has no arguments; a single empty argument is not written
           /\ stack' = Append(DropN(stack, n), <<"call", TopN(stack, n)>>) /\ prog' = Append(prog, <<"call", n>>)
MkList(n) == /\ Budget /\ "list" \in Features /\ Len(stack) >= n /\ \A i \in 1..n : NonEmpty(TopN(stack, n)[i])
             /\ stack' = Append(DropN(stack, n), <<"list", TopN(stack, n)>>) /\ prog' = Append(prog, <<"list", n>>)
MkArr(r, c) == /\ Budget /\ "arr" \in Features /\ Len(stack) >= r * c /\ \A i \in 1..(r * c) : Kind(TopN(stack, r * c)[i]) = "leaf"
               /\ stack' = Append(DropN(stack, r * c), <<"arr", r, c, TopN(stack, r * c)>>) /\ prog' = Append(prog, <<"arr", r, c>>)
\* nodes the renderer skips (PREPEND/APPEND_WHITESPACE_NODE: the blanks the user typed; 133 of them in the fixtures): they may sit anywhere
\* in the node array and change nothing
Whitespace == /\ Budget /\ "ws" \in Features /\ (IF prog = <<>> THEN TRUE ELSE prog[Len(prog)][1] # "ws") /\ prog' = Append(prog, <<"ws">>) /\ UNCHANGED stack
Init == stack = <<>> /\ prog = <<>>
Next == \/ \E k \in LeafKinds : PushLeaf(k)
        \/ Whitespace
        \/ PushEmpty
        \/ \E op \in BinOps : Bin(op)
        \/ Neg \/ Pct
        \/ \E n \in 0..MaxArity : Call(n)
        \/ \E n \in 1..2 : MkList(n)
        \/ \E r \in 1..2, c \in 1..2 : MkArr(r, c)
Spec == Init /\ [][Next]_vars

Final == Len(stack) = 1 /\ NonEmpty(stack[1])
Faithful == Final => Parse(Render(stack[1])) = stack[1]
MachineAgrees == Final => RunProg(prog, <<>>) = <<Render(stack[1])>>
\* one string per well-formed program for the spec -> code replay
RECURSIVE Str(_)
Str(s) == IF s = <<>> THEN "" ELSE (IF Len(s) = 1 THEN Head(s) ELSE Head(s) \o " " \o Str(Tail(s)))
NodeStr(nd) == IF nd[1] = "leaf" THEN nd[2] ELSE IF nd[1] = "bin" THEN nd[2]
               ELSE IF nd[1] \in {"call", "list"} THEN nd[1] \o ToString(nd[2]) ELSE IF nd[1] = "arr" THEN "arr" \o ToString(nd[2]) \o "x" \o ToString(nd[3]) ELSE nd[1]
EmitProg == Final => PrintT("P " \o Str([i \in 1..Len(prog) |-> NodeStr(prog[i])]) \o " | " \o Str(Render(stack[1])))
====

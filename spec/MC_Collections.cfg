CONSTANTS MaxN = 6
Bug = "none"
SPECIFICATION Spec
INVARIANT IndexAgreesWithOrder
INVARIANT ContainsFolds
CHECK_DEADLOCK FALSE

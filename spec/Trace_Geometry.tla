---- MODULE Trace_Geometry ----
(***************************************************************************)
(* Code -> spec binding for C16 (Level A).  One ndjson line per recorded   *)
(* history on one table of one document:                                   *)
(*   init : what a pristine instance of the source document reports        *)
(*   ev   : set (component k, optional index i), query, border (the lines  *)
(*          whose size may change), save (post = what the open document    *)
(*          reports right after saving, re = what the saved file reports   *)
(*          when opened again), reopen (continue on a fresh instance of    *)
(*          the saved file that nobody has queried)                        *)
(* All observables are opaque string tokens; "*" in exp means "not fixed   *)
(* by the history so far" (a component just set, a line that got a border).*)
(* The state exp is what the document must report: it survives save and    *)
(* reopen unchanged (SurvivesReload / NoDrift), also for components that   *)
(* were never queried or that came from the source file.                   *)
(***************************************************************************)
EXTENDS Integers, Sequences, TLC, Json, IOUtils, TLCExt
Traces == ndJsonDeserialize(IOEnv.TRACE_FILE)
VARIABLES exp, tid, l
vars == <<exp, tid, l>>
RejBase == 1000000
NEv == Len(Traces[tid].ev)
Evt == Traces[tid].ev[l]
Scalars == {"height", "width", "x", "y", "hr", "hc", "tname", "sname", "cap", "capon", "nameon"}
Vectors == {"rh", "cw"}

SeqMatch(e, p) == Len(e) = Len(p) /\ \A i \in 1..Len(e) : e[i] = "*" \/ e[i] = p[i]
Match(e, p) == /\ \A k \in Scalars : e[k] = "*" \/ e[k] = p[k]
               /\ \A k \in Vectors : SeqMatch(e[k], p[k])
FirstDiff(e, p) ==
  IF \E k \in Scalars : e[k] # "*" /\ e[k] # p[k] THEN CHOOSE k \in Scalars : e[k] # "*" /\ e[k] # p[k]
  ELSE IF \E k \in Vectors : ~SeqMatch(e[k], p[k]) THEN CHOOSE k \in Vectors : ~SeqMatch(e[k], p[k])
  ELSE "none"
Same(p, q) == (\A k \in Scalars : p[k] = q[k]) /\ (\A k \in Vectors : p[k] = q[k])
FirstDiffSame(p, q) == IF \E k \in Scalars \cup Vectors : p[k] # q[k] THEN CHOOSE k \in Scalars \cup Vectors : p[k] # q[k] ELSE "none"

Wild(seq, idx) == [i \in 1..Len(seq) |-> IF i \in idx THEN "*" ELSE seq[i]]
ToSet(s) == {s[i] : i \in 1..Len(s)}
\* a setter frees its own component (and the derived totals); Level B (the value reads back as set) is the driver's DRIFT
AfterSet ==
  CASE Evt.k = "rh" -> [exp EXCEPT !.rh = Wild(@, {Evt.i}), !.height = "*"]
    [] Evt.k = "cw" -> [exp EXCEPT !.cw = Wild(@, {Evt.i}), !.width = "*"]
    [] Evt.k = "cap" -> [exp EXCEPT !.cap = "*", !.capon = "*"]   \* creating the caption object may switch it on: not fixed by C16
    [] OTHER        -> [exp EXCEPT ![Evt.k] = "*"]
AfterBorder == [exp EXCEPT !.rh = Wild(@, ToSet(Evt.rows)), !.cw = Wild(@, ToSet(Evt.cols)), !.height = "*", !.width = "*"]

StepOK ==
  CASE Evt.op = "set"    -> exp' = AfterSet
    [] Evt.op = "query"  -> exp' = exp
    [] Evt.op = "border" -> exp' = AfterBorder
    [] Evt.op = "save"   -> Evt.exc = "" /\ Match(exp, Evt.post) /\ Same(Evt.post, Evt.re) /\ exp' = Evt.post
    [] Evt.op = "reopen" -> exp' = exp
    [] OTHER -> FALSE
Clause ==
  IF Evt.op # "save" THEN "unknown-event"
  ELSE IF Evt.exc # "" THEN "save.raised"
  ELSE IF ~Match(exp, Evt.post) THEN "open-document-drifted." \o FirstDiff(exp, Evt.post)
  ELSE "reopened-differs." \o FirstDiffSame(Evt.post, Evt.re)

TInit == tid \in 1..Len(Traces) /\ l = 1 /\ exp = Traces[tid].init
Step == l <= NEv /\ StepOK /\ l' = l + 1 /\ UNCHANGED tid
Reject == /\ l <= NEv /\ ~ENABLED StepOK /\ PrintT(<<"REJECT", tid, l, Evt.op, Clause>>)
          /\ l' = RejBase + l /\ UNCHANGED <<exp, tid>>
Finish == (l = NEv + 1 \/ l >= RejBase) /\ UNCHANGED vars
TSpec == TInit /\ [][Step \/ Reject \/ Finish]_vars
Done == (l = NEv + 1) => PrintT(<<"ACCEPT", tid, NEv>>)
====

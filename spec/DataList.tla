---- MODULE DataList ----
(***************************************************************************)
(* TST.TableDataList indexing (property C06, lookup lists).                *)
(* A list is a sequence of entries [key, val] with pairwise distinct keys  *)
(* in ANY order.  Level B is the indexer loop of DataLists.add_table: one  *)
(* step per entry updating max_key, by_key, key_index, by_value.           *)
(* Level A (when the loop is done): by_key maps every key to the entry     *)
(* carrying it, whatever the order; next_key = max key + 1; Lookup of a    *)
(* stored key never falls back (a missing key is the only reason for the   *)
(* empty-string fallback of table_string).                                 *)
(* Bug = "IndexOnlyIfAscending": the pinned indentation - an entry is      *)
(* indexed only if its key exceeds all earlier keys.                       *)
(***************************************************************************)
EXTENDS Integers, Sequences, FiniteSets, TLC
CONSTANTS Keys, MaxLen, Bug
VARIABLES entries, i, maxKey, byKey, keyIndex
vars == <<entries, i, maxKey, byKey, keyIndex>>
Val(k) == k * 10                      \* the value stored under key k (distinct per key)
Perms(S) == {p \in [1..Cardinality(S) -> S] : \A a, b \in 1..Cardinality(S) : a # b => p[a] # p[b]}
Init == /\ entries \in UNION {Perms(S) : S \in {T \in SUBSET Keys : Cardinality(T) <= MaxLen}}
        /\ i = 1 /\ maxKey = 0 /\ byKey = <<>> /\ keyIndex = <<>>
\* byKey / keyIndex are sequences of pairs <<key, x>> (functions with a growing domain)
Put(m, k, x) == IF \E j \in 1..Len(m) : m[j][1] = k THEN [j \in 1..Len(m) |-> IF m[j][1] = k THEN <<k, x>> ELSE m[j]] ELSE Append(m, <<k, x>>)
Has(m, k) == \E j \in 1..Len(m) : m[j][1] = k
Get(m, k) == (CHOOSE p \in {m[j] : j \in 1..Len(m)} : p[1] = k)[2]
Step == /\ i <= Len(entries)
        /\ LET k == entries[i] index == Bug # "IndexOnlyIfAscending" \/ k > maxKey IN
           /\ maxKey' = IF k > maxKey THEN k ELSE maxKey
           /\ byKey' = IF index THEN Put(byKey, k, Val(k)) ELSE byKey
           /\ keyIndex' = IF index THEN Put(keyIndex, k, i) ELSE keyIndex
        /\ i' = i + 1 /\ UNCHANGED entries
Next == Step
Spec == Init /\ [][Next]_vars
Done == i = Len(entries) + 1
KeysOf == {entries[j] : j \in 1..Len(entries)}
AllIndexed == Done => \A k \in KeysOf : Has(byKey, k) /\ Get(byKey, k) = Val(k)
IndexPointsAtEntry == Done => \A k \in KeysOf : Has(keyIndex, k) /\ entries[Get(keyIndex, k)] = k
NextKeyFresh == Done => \A k \in KeysOf : maxKey + 1 > k
NoPhantom == \A j \in 1..Len(byKey) : byKey[j][1] \in KeysOf
\* one string per final state for the spec -> code replay
EmitList == Done => PrintT("L " \o ToString(entries))
====

---- MODULE Trace_Package ----
(***************************************************************************)
(* Code -> spec binding for C07: one event per save.  The harness's own    *)
(* structural validator (own zip and IWA framing code, protobuf classes    *)
(* only for field access, its own walk for TSP.Reference fields) turns the *)
(* source and the saved package into the abstract state; TLC evaluates the *)
(* clauses of C07 on it.                                                   *)
(*   srcIds, savedIds : object identifiers                                 *)
(*   rewritten        : ids present in both whose message bytes differ     *)
(*   refs             : <<id, <<targets>>>> for created and rewritten ids  *)
(*   srcDangling      : targets already unresolved in the source           *)
(*   lastId           : the recorded high-water mark of the saved package  *)
(*   addedFiles / componentFiles : archive files new in the saved package, *)
(*                      files named by the package metadata's components   *)
(*   dupIds           : identifiers that occur more than once in the saved *)
(*                      archives                                           *)
(*   tables : <<nrows, ncols, <<tiles>>>>, a tile is <<numrows, <<rows>>>>,*)
(*            a row is <<tile_row_index, cell_count, present, noffsets,    *)
(*            inbounds, aligned, increasing, nonoverlap>> (0/1 flags)      *)
(*   dataIds : identifiers registered in the package metadata's data list  *)
(*             (images ...: id -> file under Data/)                        *)
(*   dataRefs : <<id, <<data ids>>>> TSP.DataReference targets of created  *)
(*             and rewritten objects; srcDataDangling as for srcDangling   *)
(*   dataFilesMissing : registered data whose file is not in the saved     *)
(*             package (and was not already missing in the source)         *)
(*   reopen : "" or the exception raised when opening the saved file       *)
(***************************************************************************)
EXTENDS Integers, Sequences, FiniteSets, TLC, Json, IOUtils, TLCExt
Traces == ndJsonDeserialize(IOEnv.TRACE_FILE)
VARIABLE tid
Ev == Traces[tid]
TInit == tid \in 1..Len(Traces)
TSpec == TInit /\ [][UNCHANGED tid]_tid
ToSet(s) == {s[i] : i \in 1..Len(s)}
RECURSIVE SumSeq(_)
SumSeq(s) == IF s = <<>> THEN 0 ELSE Head(s) + SumSeq(Tail(s))
Src == ToSet(Ev.srcIds)
Saved == ToSet(Ev.savedIds)
Created == Saved \ Src
Touched == Created \cup ToSet(Ev.rewritten)
RowOK(r, numrows, ncols) == r[1] >= 0 /\ r[1] < numrows /\ r[2] = r[3] /\ r[4] = ncols /\ r[5] = 1 /\ r[6] = 1 /\ r[7] = 1 /\ r[8] = 1
TileOK(t, ncols) == /\ \A k \in 1..Len(t[2]) : RowOK(t[2][k], t[1], ncols)
                    /\ Cardinality({t[2][k][1] : k \in 1..Len(t[2])}) = Len(t[2])
TableOK(tb) == /\ SumSeq([k \in 1..Len(tb[3]) |-> tb[3][k][1]]) = tb[1]
               /\ \A k \in 1..Len(tb[3]) : TileOK(tb[3][k], tb[2])
Verdict ==
  IF Ev.exc # "" THEN "save-raised"
  ELSE IF Ev.reopen # "" THEN "not-reopenable"
  ELSE IF Ev.dupIds # <<>> THEN "duplicate-id"
  ELSE IF \E i \in Created : i > Ev.lastId THEN "above-high-water-mark"
  ELSE IF \E k \in 1..Len(Ev.refs) : Ev.refs[k][1] \in Touched /\ ~(ToSet(Ev.refs[k][2]) \subseteq Saved \cup ToSet(Ev.srcDangling)) THEN "dangling-reference"
  ELSE IF ~(ToSet(Ev.addedFiles) \subseteq ToSet(Ev.componentFiles)) THEN "file-not-listed"
  ELSE IF \E k \in 1..Len(Ev.dataRefs) : ~(ToSet(Ev.dataRefs[k][2]) \subseteq ToSet(Ev.dataIds) \cup ToSet(Ev.srcDataDangling)) THEN "dangling-data-reference"
  ELSE IF Ev.dataFilesMissing # <<>> THEN "data-file-missing"
  ELSE IF \E k \in 1..Len(Ev.tables) : ~TableOK(Ev.tables[k]) THEN "tile-geometry"
  ELSE "ok"
Judge == PrintT("V " \o ToString(tid) \o " " \o Verdict)
====

---- MODULE CsvPipeline ----
(***************************************************************************)
(* csv2numbers followed by cat-numbers -b (property C20).                  *)
(*                                                                         *)
(* A grid is a sequence of rows of cells <<class, id>>; the id makes every *)
(* cell distinguishable so that lost, duplicated or reordered cells show.  *)
(* Classes follow the DOCUMENTED conversion: "empty", "num" (what          *)
(* float(text without commas) accepts and is finite), "special" (nan, inf, *)
(* infinity in any case/sign, overflowing exponents), "text".  A header    *)
(* cell may repeat an earlier header name ("dup").                         *)
(* Level A (SpecOut): same shape; every cell keeps its identity; text,     *)
(* special and empty cells keep their class (a special float stays text),  *)
(* numbers stay numbers; data rows reversed iff --reverse; the run ends ok *)
(* or with a one-line error and non-zero status, never a crash.            *)
(* Level B (CodeOut): the converter's representation - rows as dicts keyed *)
(* by header name, a 2x2 minimum table, float() coercion.  Bug selects the *)
(* pinned tree's behaviours.                                               *)
(***************************************************************************)
EXTENDS Integers, Sequences, FiniteSets, TLC
CONSTANTS MaxR, MaxC, Classes, Bug
VARIABLES grid, header, reverse
vars == <<grid, header, reverse>>
NR == Len(grid)
NC == Len(grid[1])
Cell(k, i, j) == <<k, i * 10 + j>>
Init == /\ \E nr \in 1..MaxR, nc \in 1..MaxC :
             grid \in [1..nr -> [1..nc -> Classes]]
        /\ header \in BOOLEAN /\ reverse \in BOOLEAN
Next == UNCHANGED vars
Spec == Init /\ [][Next]_vars
Labelled == [i \in 1..NR |-> [j \in 1..NC |-> Cell(grid[i][j], i, j)]]
Rev(s) == [i \in 1..Len(s) |-> s[Len(s) - i + 1]]
\* in the header row every cell is a name: it is never coerced
HeaderRow(row) == [j \in 1..Len(row) |-> <<IF row[j][1] = "dup" THEN "dup" ELSE "text", row[j][2]>>]
DataClass(k) == IF k = "dup" THEN "text" ELSE k
DataRow(row) == [j \in 1..Len(row) |-> <<DataClass(row[j][1]), row[j][2]>>]
\* ---- Level A
SpecOut == LET L == Labelled
               body == IF header THEN SubSeq(L, 2, NR) ELSE L
               rows == [i \in 1..Len(body) |-> DataRow(body[i])]
               ordered == IF reverse THEN Rev(rows) ELSE rows
           IN [status |-> "ok", out |-> (IF header THEN <<HeaderRow(L[1])>> ELSE <<>>) \o ordered]
\* ---- Level B: the converter
\* rows become dicts keyed by header name: a repeated name ("dup" repeats the name of column 1) overwrites column 1's
\* value and the column disappears
Collapse(row) == IF Bug = "DuplicateHeaderCollapse" /\ header /\ \E j \in 2..NC : grid[1][j] = "dup"
                   THEN LET d == CHOOSE j \in 2..NC : grid[1][j] = "dup" IN
                        [j \in 1..(Len(row) - 1) |-> IF j = 1 THEN row[d] ELSE IF j < d THEN row[j] ELSE row[j + 1]]
                   ELSE row
Pad(rows) == IF Bug = "MinShape" /\ (Len(rows) < 2 \/ Len(rows[1]) < 2)
               THEN LET nc == IF Len(rows[1]) < 2 THEN 2 ELSE Len(rows[1])
                        wide == [i \in 1..Len(rows) |-> [j \in 1..nc |-> IF j <= Len(rows[i]) THEN rows[i][j] ELSE <<"empty", 0>>]]
                    IN IF Len(wide) < 2 THEN Append(wide, [j \in 1..nc |-> <<"empty", 0>>]) ELSE wide
               ELSE rows
CodeOut == LET L == Labelled
               body == IF header THEN SubSeq(L, 2, NR) ELSE L
               rows == [i \in 1..Len(body) |-> Collapse(DataRow(body[i]))]
               ordered == IF reverse THEN Rev(rows) ELSE rows
               crash == Bug = "SpecialFloatCoerced" /\ \E i \in 1..Len(body) : \E j \in 1..NC : body[i][j][1] = "special"
               all == (IF header THEN <<Collapse(HeaderRow(L[1]))>> ELSE <<>>) \o ordered
           IN IF crash THEN [status |-> "crash", out |-> <<>>] ELSE [status |-> "ok", out |-> Pad(all)]
Conforms == CodeOut = SpecOut
EmitGrid == PrintT("G " \o ToString(header) \o " " \o ToString(reverse) \o " " \o ToString(grid))
====

---- MODULE Trace_DateFormat ----
(***************************************************************************)
(* Code -> spec binding for C14: one event per displayed date or duration. *)
(*  date: fmt, out (code points), y, mo, d, H, Mi, S, us, days (ordinal)   *)
(*  dur : style, largest, smallest (unit numbers), auto, dur <<days, ms>>,  *)
(*        vals (numbers read from the text in order), units (unit each     *)
(*        number is labelled with, <<>> for the compact style), ok (the    *)
(*        text had the token shape of its style)                           *)
(***************************************************************************)
EXTENDS DateFormat, Json, IOUtils, TLCExt
Traces == ndJsonDeserialize(IOEnv.TRACE_FILE)
VARIABLE tid
E == Traces[tid]
TInit == tid \in 1..Len(Traces) /\ ev = [kind |-> "trace"]
TSpec == TInit /\ [][UNCHANGED <<ev, tid>>]_<<ev, tid>>
Verdict ==
  IF E.kind = "date" THEN (IF ~CivilOK(E) THEN "date.calendar" ELSE IF E.out \in RenderSet(E.fmt, E) THEN "ok" ELSE "date.render")
  ELSE IF ~E.ok THEN "dur.shape"
  ELSE IF E.auto THEN (IF AutoOK(E) THEN "ok" ELSE "dur.auto")
  ELSE IF DurationOK(E) THEN "ok" ELSE "dur.read"
Judge == PrintT("V " \o ToString(tid) \o " " \o Verdict)
====

CONSTANTS MaxCol = 0
MaxRow = 0
Bug = "none"
SPECIFICATION TSpec
INVARIANT Judge
CHECK_DEADLOCK FALSE

---- MODULE Trace_Workbook ----
(***************************************************************************)
(* Code -> spec binding for Workbook.tla (C03, C11, C19, shape part of     *)
(* C01).  One ndjson line per recorded history of the real library:        *)
(*   init : per handle, the projected document before the first call       *)
(*   ev   : per public call  op, arguments, out (outcome), post (projection *)
(*          of EVERY handle after the call), and for read-only probes the  *)
(*          observed result                                                *)
(* A projected document is a sequence of sheets [name, tables], a table is *)
(* [name, nr, nc, cells (sparse <<r, c, v>> of the non-empty cells), bad   *)
(* (number of cells whose own row/col disagrees with their index, plus     *)
(* ragged rows)].  Step consumes one line with the matching spec action    *)
(* and requires the projection to equal the specified state; Reject names  *)
(* the first failing clause and ends that trace, the batch goes on.        *)
(***************************************************************************)
EXTENDS Workbook, Json, IOUtils, TLCExt
Traces == ndJsonDeserialize(IOEnv.TRACE_FILE)
VARIABLES tid, l
tvars == <<vars, tid, l>>
RejBase == 1000000
NEv == Len(Traces[tid].ev)
Evt == Traces[tid].ev[l]

ToSet(seq) == {seq[i] : i \in 1..Len(seq)}
Sparse(g) == {<<i, j, g[i][j]>> : i \in 1..NR(g), j \in 1..NC(g)} \ {<<i, j, E>> : i \in 1..NR(g), j \in 1..NC(g)}
GridFrom(p) == [i \in 1..p.nr |-> [j \in 1..p.nc |->
                  IF \E x \in ToSet(p.cells) : x[1] = i /\ x[2] = j
                    THEN (CHOOSE x \in ToSet(p.cells) : x[1] = i /\ x[2] = j)[3] ELSE E]]
DocFrom(p) == [s \in 1..Len(p) |-> [name |-> p[s].name,
                 tables |-> [t \in 1..Len(p[s].tables) |-> [name |-> p[s].tables[t].name, g |-> GridFrom(p[s].tables[t])]]]]

TableDims(tb, p) == NR(tb.g) = p.nr /\ NC(tb.g) = p.nc
DocShape(d, p) == /\ Len(d) = Len(p)
                  /\ \A s \in 1..Len(d) : Len(d[s].tables) = Len(p[s].tables)
DocNames(d, p) == \A s \in 1..Len(d) : /\ d[s].name = p[s].name
                                       /\ \A t \in 1..Len(d[s].tables) : d[s].tables[t].name = p[s].tables[t].name
DocDims(d, p) == \A s \in 1..Len(d) : \A t \in 1..Len(d[s].tables) : TableDims(d[s].tables[t], p[s].tables[t])
DocPos(d, p) == \A s \in 1..Len(d) : \A t \in 1..Len(d[s].tables) : p[s].tables[t].bad = 0
DocCells(d, p) == \A s \in 1..Len(d) : \A t \in 1..Len(d[s].tables) : Sparse(d[s].tables[t].g) = ToSet(p[s].tables[t].cells)
\* clause by clause, for every handle: the frame condition is part of every clause
PShape(post) == \A h \in Handles : DocShape(docs'[h], post[h])
PNames(post) == \A h \in Handles : DocNames(docs'[h], post[h])
PDims(post)  == \A h \in Handles : DocDims(docs'[h], post[h])
PPos(post)   == \A h \in Handles : DocPos(docs'[h], post[h])
PCells(post) == \A h \in Handles : DocCells(docs'[h], post[h])
PostOK(post) == PShape(post) /\ PNames(post) /\ PDims(post) /\ PPos(post) /\ PCells(post)
OutOK == hist'[Len(hist')].out = Evt.out

\* the spec action named by the event (arguments bound from the logged fields)
Act ==
  CASE Evt.op = "write"       -> Write(Evt.h, Evt.s, Evt.t, Evt.r, Evt.c, Evt.v)
    [] Evt.op = "touch"       -> Touch(Evt.h, Evt.s, Evt.t, Evt.r, Evt.c, Evt.kind)
    [] Evt.op = "addrow"      -> AddRow(Evt.h, Evt.s, Evt.t, Evt.n, Evt.at, Evt.d)
    [] Evt.op = "addcol"      -> AddCol(Evt.h, Evt.s, Evt.t, Evt.n, Evt.at, Evt.d)
    [] Evt.op = "delrow"      -> DelRow(Evt.h, Evt.s, Evt.t, Evt.n, Evt.at)
    [] Evt.op = "delcol"      -> DelCol(Evt.h, Evt.s, Evt.t, Evt.n, Evt.at)
    [] Evt.op = "addtable"    -> AddTable(Evt.h, Evt.s, Evt.nm, Evt.nr, Evt.nc)
    [] Evt.op = "addsheet"    -> AddSheet(Evt.h, Evt.nm, Evt.nr, Evt.nc)
    [] Evt.op = "renametable" -> RenameTable(Evt.h, Evt.s, Evt.t, Evt.nm)
    [] Evt.op = "renamesheet" -> RenameSheet(Evt.h, Evt.s, Evt.nm)
    [] Evt.op = "save"        -> Save(Evt.h, Evt.f)
    [] Evt.op = "open"        -> Open(Evt.h, Evt.f)
    [] Evt.op = "newdoc"      -> NewDoc(Evt.h, Evt.nr, Evt.nc)
    [] OTHER -> FALSE

\* read-only probes: the observed result must be what the specified state implies; nothing changes
IsProbe == Evt.op \in {"iterrows", "itercols", "cell", "byindex", "byname", "contains", "len"}
Coll == IF Evt.s = 0 THEN docs[Evt.h] ELSE docs[Evt.h][Evt.s].tables       \* sheets of a document / tables of a sheet
ProbeResult ==
  CASE Evt.op = "iterrows" -> IterRows(G(Evt.h, Evt.s, Evt.t), Evt.minr, Evt.maxr, Evt.minc, Evt.maxc)
    [] Evt.op = "itercols" -> IterCols(G(Evt.h, Evt.s, Evt.t), Evt.minc, Evt.maxc, Evt.minr, Evt.maxr)
    [] Evt.op = "cell"     -> CellAt(G(Evt.h, Evt.s, Evt.t), Evt.r, Evt.c)
    [] Evt.op = "byindex"  -> ByIndex(Coll, Evt.i)
    [] Evt.op = "byname"   -> ByName(Coll, Evt.nm)
    [] Evt.op = "contains" -> Contains(Coll, Evt.nm)
    [] Evt.op = "len"      -> Len(Coll)
HasPost == "post" \in DOMAIN Evt
Probe == IsProbe /\ ProbeResult = Evt.res /\ UNCHANGED <<docs, disk, hist>> /\ (HasPost => PostOK(Evt.post))

\* local effect of a touch as observed by the driver: the addressed cell shows it, no other cell changed
Effect == Evt.op = "touch" /\ Evt.out = "ok" => Evt.seen /\ ~Evt.others
Matches == Probe \/ (~IsProbe /\ Act /\ OutOK /\ Effect /\ PostOK(Evt.post))
\* outside the documented domain (the spec action is not enabled for these arguments at all): the
\* property fixes nothing, the state is re-read from the projection
Unspecified == ~IsProbe /\ ~ENABLED Act /\ docs' = [h \in Handles |-> DocFrom(Evt.post[h])] /\ UNCHANGED <<disk, hist>>

Clause ==
  IF IsProbe THEN (IF ProbeResult # Evt.res THEN "probe." \o Evt.op ELSE "probe.state-changed")
  ELSE IF ~ENABLED (Act /\ OutOK) THEN "outcome"
  ELSE IF ~Effect THEN "touch.effect"
  ELSE IF ~ENABLED (Act /\ PShape(Evt.post)) THEN "post.shape"
  ELSE IF ~ENABLED (Act /\ PNames(Evt.post)) THEN "post.names"
  ELSE IF ~ENABLED (Act /\ PDims(Evt.post)) THEN "post.dims"
  ELSE IF ~ENABLED (Act /\ PPos(Evt.post)) THEN "post.pos"
  ELSE IF ~ENABLED (Act /\ PCells(Evt.post)) THEN "post.cells"
  ELSE "post"

TInit == /\ tid \in 1..Len(Traces) /\ l = 1
         /\ docs = [h \in Handles |-> DocFrom(Traces[tid].init[h])]
         /\ disk = [f \in Files |-> <<>>]
         /\ hist = <<>>
Step   == /\ l <= NEv /\ Matches /\ l' = l + 1 /\ UNCHANGED tid
Skip   == /\ l <= NEv /\ ~ENABLED Matches /\ Unspecified
          /\ PrintT(<<"NOTE", tid, l, Evt.op, "outside-documented-domain">>) /\ l' = l + 1 /\ UNCHANGED tid
Reject == /\ l <= NEv /\ ~ENABLED Matches /\ ~ENABLED Unspecified
          /\ PrintT(<<"REJECT", tid, l, Evt.op, Clause>>)
          /\ l' = RejBase + l /\ UNCHANGED <<vars, tid>>
Finish == /\ (l = NEv + 1 \/ l >= RejBase) /\ UNCHANGED tvars
TNext == Step \/ Skip \/ Reject \/ Finish
TSpec == TInit /\ [][TNext]_tvars
Done == (l = NEv + 1) => PrintT(<<"ACCEPT", tid, NEv>>)
====

---- MODULE Styles ----
(***************************************************************************)
(* Styles applied through the API (property C15, styles).                  *)
(* A style value is an opaque token standing for one complete set of the   *)
(* 15 attributes.  State: the document's named styles, the style each cell *)
(* shows, the saved file.  Level A: ReadStyle(cell) is what was applied,   *)
(* on the open document and after reopen; cells that were not styled keep  *)
(* what they showed; automatically named styles are fresh; reading styles  *)
(* changes nothing that is saved.  Level B: a read style carries dirty     *)
(* flags; Bug "ReadMarksDirty" lets a later save rewrite the cell's style   *)
(* (to a lossy copy) after a mere read.  The document comes with PRESET    *)
(* styles (PresetNames: "Body", "Title" ...; their attribute-set token is  *)
(* their name); applying one is an Apply like any other.  Bug              *)
(* Edit: an attribute of the style object read from a loaded cell is       *)
(* assigned in place (cell.style.text_inset = ...); used by the trace      *)
(* judge for histories recorded on loaded fixture documents (it is not     *)
(* part of Next: the generator's documents are new ones).                  *)
(* "PresetKeepsCellStyle": a preset has no cell-level record, so a cell    *)
(* that had one before keeps it in the file (pinned tree).                 *)
(***************************************************************************)
EXTENDS Integers, Sequences, FiniteSets, TLC
CONSTANTS Cells, Attrs, PresetNames, MaxOps, Bug
VARIABLES named, shown, readflag, disk, diskNamed, hist
vars == <<named, shown, readflag, disk, diskNamed, hist>>
Default == "default"
AutoNames == <<"Custom Style 1", "Custom Style 2", "Custom Style 3", "Custom Style 4">>
Lossy(a) == "lossy"
Ev(r) == hist' = Append(hist, r)
AddStyle(nm, a) == /\ Len(hist) < MaxOps /\ (nm = "AUTO" => \E i \in 1..4 : AutoNames[i] \notin DOMAIN named)
                   /\ LET name == IF nm = "AUTO" THEN AutoNames[CHOOSE i \in 1..4 : AutoNames[i] \notin DOMAIN named /\ \A j \in 1..(i - 1) : AutoNames[j] \in DOMAIN named] ELSE nm IN
                      /\ name \notin DOMAIN named
                      /\ named' = [x \in DOMAIN named \cup {name} |-> IF x = name THEN a ELSE named[x]]
                   /\ UNCHANGED <<shown, readflag, disk, diskNamed>> /\ Ev([op |-> "add", nm |-> nm, a |-> a])
Apply(c, name) == /\ Len(hist) < MaxOps /\ name \in DOMAIN named /\ shown' = [shown EXCEPT ![c] = named[name]]
                  /\ UNCHANGED <<named, readflag, disk, diskNamed>> /\ Ev([op |-> "apply", c |-> c, nm |-> name])
\* the Style object a cell of a LOADED document hands out is that cell's own: assigning to one of its attributes changes what this
\* cell shows (attribute set a = the old set with the one attribute replaced) and nothing else
Edit(c, a) == /\ Len(hist) < MaxOps /\ disk # <<>> /\ shown' = [shown EXCEPT ![c] = a]
              /\ UNCHANGED <<named, readflag, disk, diskNamed>> /\ Ev([op |-> "edit", c |-> c, a |-> a])
ReadStyle(c) == /\ Len(hist) < MaxOps /\ readflag' = [readflag EXCEPT ![c] = TRUE] /\ UNCHANGED <<named, shown, disk, diskNamed>> /\ Ev([op |-> "read", c |-> c])
Save == /\ Len(hist) < MaxOps
        /\ diskNamed' = named
        /\ disk' = [c \in Cells |-> IF Bug = "ReadMarksDirty" /\ readflag[c] /\ shown[c] # Default THEN Lossy(shown[c])
                                    ELSE IF Bug = "PresetKeepsCellStyle" /\ shown[c] \in PresetNames /\ disk # <<>> /\ disk[c] \notin PresetNames \cup {Default}
                                           THEN Lossy(shown[c])
                                    ELSE shown[c]]
        /\ UNCHANGED <<named, shown, readflag>> /\ Ev([op |-> "save"])
Reopen == /\ Len(hist) < MaxOps /\ disk # <<>> /\ shown' = disk /\ named' = diskNamed /\ readflag' = [c \in Cells |-> FALSE]
          /\ UNCHANGED <<disk, diskNamed>> /\ Ev([op |-> "reopen"])      \* the reopened document has the styles that were saved
Init == named = [x \in PresetNames |-> x] /\ shown = [c \in Cells |-> Default] /\ readflag = [c \in Cells |-> FALSE] /\ disk = <<>> /\ diskNamed = <<>> /\ hist = <<>>
Next == \/ \E nm \in {"AUTO", "Named"}, a \in Attrs : AddStyle(nm, a)
        \/ \E c \in Cells : \E name \in DOMAIN named : Apply(c, name)
        \/ \E c \in Cells : ReadStyle(c)
        \/ Save \/ Reopen
Spec == Init /\ [][Next]_vars
NoHist == <<named, shown, readflag, disk, diskNamed>>
SavedIsShown == disk # <<>> /\ hist # <<>> /\ hist[Len(hist)].op = "save" => disk = shown
ReadIsReadOnly == [][hist' # hist /\ hist'[Len(hist')].op = "read" => shown' = shown /\ named' = named /\ disk' = disk /\ diskNamed' = diskNamed]_vars
UnstyledKeep == [][hist' # hist /\ hist'[Len(hist')].op = "apply" => \A c \in Cells : c # hist'[Len(hist')].c => shown'[c] = shown[c]]_vars
====

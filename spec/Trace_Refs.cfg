CONSTANTS MaxSheets = 4
MaxTables = 4
TableNames = {"A"}
Bug = "none"
SPECIFICATION TSpec
INVARIANT Judge
CHECK_DEADLOCK FALSE

---- MODULE Trace_Tokenizer ----
(***************************************************************************)
(* Code -> spec binding for C18.  Each trace line is one call of the real  *)
(* Tokenizer:  cls  = the input as class names (the scanner's alphabet),   *)
(* cp = the input as code points, items = the returned token texts as code *)
(* point sequences, ilen = the token lengths in class units (-1 if a token *)
(* boundary falls inside a multi-character class), outcome, must = the     *)
(* text was produced by the library's own reader and must be accepted.     *)
(* The scanner of Tokenizer.tla is run on cls; when it stops the recorded  *)
(* call is judged: Level A on the recorded observables (REJECT), Level B   *)
(* against the scanner's own result (DRIFT).  One verdict line per trace.  *)
(***************************************************************************)
EXTENDS Tokenizer, Json, IOUtils, TLCExt
Traces == ndJsonDeserialize(IOEnv.TRACE_FILE)
VARIABLE tid
tvars == <<vars, tid>>
Ev == Traces[tid]

TInit == /\ tid \in 1..Len(Traces) /\ InitWith({Traces[tid].cls})
TNext == Next /\ UNCHANGED tid
TSpec == TInit /\ [][TNext]_tvars

LevelA ==
  IF Ev.outcome \notin {"done", "TokenizerError"} THEN "total"
  ELSE IF Ev.must /\ Ev.outcome # "done" THEN "accepts-own-output"
  ELSE IF Ev.outcome = "done" /\ Flat(Ev.items) # Ev.cp THEN "lossless"
  ELSE IF Ev.outcome = "done" /\ ~GUnsplit(Ev.cp, Ev.items, 34, 39) THEN "quoted-split"
  ELSE "ok"
LevelB ==
  IF Ev.outcome # status THEN "status"
  ELSE IF status = "done" /\ Ev.ilen # [k \in 1..Len(items) |-> Len(items[k].v)] THEN "boundaries"
  ELSE "ok"
Judge == status # "run" => PrintT(<<"V", tid, LevelA, LevelB>>)
====

---- MODULE Geometry ----
(***************************************************************************)
(* Table geometry and labels (property C16).                               *)
(*                                                                         *)
(* Level A: obs is the record of everything the API reports about one      *)
(* table (sizes of its lines = rows and columns, position, header counts,  *)
(* names, caption, visibility flags).  Setters change one component,       *)
(* getters change nothing, Save copies obs to disk, Reopen reads it back:  *)
(* Reopen(Save(doc)) reports what doc reports (SurvivesReload), and k      *)
(* cycles change nothing (NoDrift).                                        *)
(*                                                                         *)
(* Level B: the mechanism behind line sizes as model.py has it - the size  *)
(* stored in the file, the value set through the API, the memo of computed *)
(* values, and the border allowance added when a size is computed.         *)
(* Mode selects how Save writes sizes back: "separate" keeps stored size   *)
(* and allowance apart (the design that satisfies the property), the Bug   *)
(* modes are the defective variants of the pinned tree.                    *)
(* Units: every size and allowance is in HALF points, because a border of  *)
(* odd width contributes a fractional allowance (half its width) while     *)
(* sizes are reported in whole points: the code stores set - floor(allow)  *)
(* and reports floor(round(stored) + allow), round being half-to-even.     *)
(* Mode "UnflooredAllowance" stores set - allow instead.                   *)
(***************************************************************************)
EXTENDS Integers, Sequences, FiniteSets, TLC
CONSTANTS Lines,      \* row and column identifiers
          Sizes,      \* sizes that may be set (whole points = even numbers of half points)
          Widths,     \* allowances of borders that may be drawn (half points = the border's width in points; 0 = no border)
          Default,    \* default size (half points, even)
          Mode,       \* "separate" | "SaveFromMemoOnly" | "AllowanceSavedBack" | "BorderDropsSetSize" | "UnflooredAllowance"
          D
VARIABLES stored,   \* Lines -> size in the file (0 = "use default")
          setv,     \* Lines -> size set through the API, or 0
          memo,     \* Lines -> memoised computed size, or 0
          allow,    \* Lines -> border allowance currently applying
          disk,     \* stored sizes + allowances of the saved file, or <<>>
          before,   \* what was reported when the document was last saved
          hist
vars == <<stored, setv, memo, allow, disk, before, hist>>
Ev(r) == hist' = Append(hist, r)

FloorPt(x) == (x \div 2) * 2                                   \* whole points below x
RoundPt(x) == IF x % 2 = 0 THEN x                                \* round to whole points, halves to the even one
              ELSE IF ((x - 1) \div 2) % 2 = 0 THEN x - 1 ELSE x + 1
Base(l) == IF stored[l] = 0 THEN Default ELSE stored[l]
Computed(l) == FloorPt(RoundPt(Base(l)) + allow[l])
Reported(l) == IF setv[l] # 0 THEN setv[l] ELSE IF memo[l] # 0 THEN memo[l] ELSE Computed(l)
Obs == [l \in Lines |-> Reported(l)]

SetSize(l, v) == /\ setv' = [setv EXCEPT ![l] = v] /\ UNCHANGED <<stored, memo, allow, disk, before>>
                 /\ Ev([op |-> "set", l |-> l, v |-> v])
Query(l) == /\ memo' = [memo EXCEPT ![l] = IF setv[l] # 0 THEN @ ELSE Computed(l)]
            /\ UNCHANGED <<stored, setv, allow, disk, before>> /\ Ev([op |-> "query", l |-> l])
Border(l, w) == /\ allow' = [allow EXCEPT ![l] = w]
                /\ memo' = [memo EXCEPT ![l] = 0]                                   \* the code drops the memo entry
                /\ setv' = IF Mode = "BorderDropsSetSize" THEN [setv EXCEPT ![l] = 0] ELSE setv
                /\ UNCHANGED <<stored, disk, before>> /\ Ev([op |-> "border", l |-> l, w |-> w])
Saved(l) ==
  CASE Mode = "separate"           -> IF setv[l] # 0 THEN setv[l] - FloorPt(allow[l]) ELSE stored[l]
    [] Mode = "UnflooredAllowance" -> IF setv[l] # 0 THEN setv[l] - allow[l] ELSE stored[l]
    [] Mode = "SaveFromMemoOnly"   -> IF setv[l] # 0 THEN setv[l] ELSE IF memo[l] # 0 THEN memo[l] ELSE 0
    [] Mode = "AllowanceSavedBack" -> IF setv[l] # 0 THEN setv[l] ELSE Computed(l)
    [] OTHER                       -> IF setv[l] # 0 THEN setv[l] - FloorPt(allow[l]) ELSE stored[l]
Save == /\ disk' = <<[l \in Lines |-> Saved(l)], allow>> /\ before' = Obs
        /\ UNCHANGED <<stored, setv, memo, allow>> /\ Ev([op |-> "save"])
Reopen == /\ disk # <<>> /\ stored' = disk[1] /\ allow' = disk[2]
          /\ setv' = [l \in Lines |-> 0] /\ memo' = [l \in Lines |-> 0]
          /\ UNCHANGED <<disk, before>> /\ Ev([op |-> "reopen"])

Init == /\ stored \in [Lines -> {0} \cup Sizes] /\ setv = [l \in Lines |-> 0] /\ memo = [l \in Lines |-> 0]
        /\ allow = [l \in Lines |-> 0] /\ disk = <<>> /\ before = <<>> /\ hist = <<>>
Next == \/ \E l \in Lines, v \in Sizes : SetSize(l, v)
        \/ \E l \in Lines : Query(l)
        \/ \E l \in Lines, w \in Widths : Border(l, w)
        \/ Save \/ Reopen
Spec == Init /\ [][Next]_vars
Depth == TLCGet("level") <= D
NoHist == <<stored, setv, memo, allow, disk, before>>

\* Level A on the mechanism: what is reported right after a reopen is what was reported when saving -
\* whether sizes were set or came from the file, queried or not, with or without borders; since Reopen may
\* follow any number of earlier cycles this is also NoDrift.
LastOp == IF hist = <<>> THEN "none" ELSE hist[Len(hist)].op
SurvivesReload == LastOp = "reopen" => Obs = before
QueryIsReadOnly == [][(hist' # hist /\ hist'[Len(hist')].op = "query") => Obs' = Obs]_vars
====

---- MODULE Geometry ----
(***************************************************************************)
(* Table geometry and labels (property C16).                               *)
(*                                                                         *)
(* Level A: obs is the record of everything the API reports about one      *)
(* table (sizes of its lines = rows and columns, position, header counts,  *)
(* names, caption, visibility flags).  Setters change one component,       *)
(* getters change nothing, Save copies obs to disk, Reopen reads it back:  *)
(* Reopen(Save(doc)) reports what doc reports (SurvivesReload), and k      *)
(* cycles change nothing (NoDrift).                                        *)
(*                                                                         *)
(* Level B: the mechanism behind line sizes as model.py has it - the size  *)
(* stored in the file, the value set through the API, the memo of computed *)
(* values, and the border allowance added when a size is computed.         *)
(* Lines 1..NL lie next to each other on one axis (rows of a table, or its *)
(* columns); EDGE e (0..NL) is the boundary after line e and before line   *)
(* e+1.  A border lives on an edge and widens BOTH adjacent lines by half  *)
(* its width; it can be drawn from either side: as the far side of line e  *)
(* ("lo": bottom / right) or as the near side of line e+1 ("hi": top /     *)
(* left).                                                                  *)
(* Units: every size and width is in HALF points, because half of an odd   *)
(* width is fractional while sizes are reported in whole points: the code  *)
(* stores set - floor(allowance) and reports floor(round(stored) +         *)
(* allowance), round being half-to-even.                                   *)
(* Mode selects how Save writes sizes back and which memo entries a border *)
(* drops: "separate" is the design that satisfies the property; the others *)
(* are defective variants (those of the pinned tree, and seeded ones).     *)
(***************************************************************************)
EXTENDS Integers, Sequences, FiniteSets, TLC
CONSTANTS NL,         \* number of adjacent lines
          Sizes,      \* sizes that may be set (whole points = even numbers of half points)
          Widths,     \* border widths that may be drawn (points = allowance in half points for each adjacent line; 0 = no border)
          Default,    \* default size (half points, even)
          Mode,       \* "separate" | "SaveFromMemoOnly" | "AllowanceSavedBack" | "BorderDropsSetSize" | "UnflooredAllowance" | "ForgetWrongNeighbour"
          D
Lines == 1..NL
Edges == 0..NL
VARIABLES stored,   \* Lines -> size in the file (0 = "use default")
          setv,     \* Lines -> size set through the API, or 0
          memo,     \* Lines -> memoised computed size, or 0
          width,    \* Edges -> width of the border on that edge
          disk,     \* stored sizes + edge widths of the saved file, or <<>>
          before,   \* what was reported when the document was last saved
          hist
vars == <<stored, setv, memo, width, disk, before, hist>>
Ev(r) == hist' = Append(hist, r)

FloorPt(x) == (x \div 2) * 2                                   \* whole points below x
RoundPt(x) == IF x % 2 = 0 THEN x                                \* round to whole points, halves to the even one
              ELSE IF ((x - 1) \div 2) % 2 = 0 THEN x - 1 ELSE x + 1
Allow(l) == width[l - 1] + width[l]                              \* half the width of each adjacent border, in half points
Base(l) == IF stored[l] = 0 THEN Default ELSE stored[l]
Computed(l) == FloorPt(RoundPt(Base(l)) + Allow(l))
Reported(l) == IF setv[l] # 0 THEN setv[l] ELSE IF memo[l] # 0 THEN memo[l] ELSE Computed(l)
Obs == [l \in Lines |-> Reported(l)]

SetSize(l, v) == /\ setv' = [setv EXCEPT ![l] = v] /\ UNCHANGED <<stored, memo, width, disk, before>>
                 /\ Ev([op |-> "set", l |-> l, v |-> v])
Query(l) == /\ memo' = [memo EXCEPT ![l] = IF setv[l] # 0 \/ @ # 0 THEN @ ELSE Computed(l)]      \* a memoised value is returned as it is
            /\ UNCHANGED <<stored, setv, width, disk, before>> /\ Ev([op |-> "query", l |-> l])
\* the lines whose memoised size a border on edge e, drawn from side `from`, makes the code forget
Forgotten(e, from) ==
  IF Mode = "ForgetWrongNeighbour" /\ from = "lo" THEN {e, e - 1} \cap Lines      \* the far side of line e treated like its near side
  ELSE {e, e + 1} \cap Lines
Border(e, w, from) ==
  /\ (from = "lo" => e >= 1) /\ (from = "hi" => e + 1 <= NL)
  /\ width' = [width EXCEPT ![e] = w]
  /\ memo' = [l \in Lines |-> IF l \in Forgotten(e, from) THEN 0 ELSE memo[l]]
  /\ setv' = IF Mode = "BorderDropsSetSize" THEN [l \in Lines |-> IF l \in {e, e + 1} THEN 0 ELSE setv[l]] ELSE setv
  /\ UNCHANGED <<stored, disk, before>> /\ Ev([op |-> "border", e |-> e, w |-> w, from |-> from])
Saved(l) ==
  CASE Mode = "SaveFromMemoOnly"   -> IF setv[l] # 0 THEN setv[l] ELSE IF memo[l] # 0 THEN memo[l] ELSE 0
    [] Mode = "AllowanceSavedBack" -> IF setv[l] # 0 THEN setv[l] ELSE Computed(l)
    [] Mode = "UnflooredAllowance" -> IF setv[l] # 0 THEN setv[l] - Allow(l) ELSE stored[l]
    [] OTHER                       -> IF setv[l] # 0 THEN setv[l] - FloorPt(Allow(l)) ELSE stored[l]
Save == /\ disk' = <<[l \in Lines |-> Saved(l)], width>> /\ before' = Obs
        /\ UNCHANGED <<stored, setv, memo, width>> /\ Ev([op |-> "save"])
Reopen == /\ disk # <<>> /\ stored' = disk[1] /\ width' = disk[2]
          /\ setv' = [l \in Lines |-> 0] /\ memo' = [l \in Lines |-> 0]
          /\ UNCHANGED <<disk, before>> /\ Ev([op |-> "reopen"])

Init == /\ stored \in [Lines -> {0} \cup Sizes] /\ setv = [l \in Lines |-> 0] /\ memo = [l \in Lines |-> 0]
        /\ width = [e \in Edges |-> 0] /\ disk = <<>> /\ before = <<>> /\ hist = <<>>
Next == \/ \E l \in Lines, v \in Sizes : SetSize(l, v)
        \/ \E l \in Lines : Query(l)
        \/ \E e \in Edges, w \in Widths, from \in {"lo", "hi"} : Border(e, w, from)
        \/ Save \/ Reopen
Spec == Init /\ [][Next]_vars
Depth == TLCGet("level") <= D
NoHist == <<stored, setv, memo, width, disk, before>>

\* Level A on the mechanism: what is reported right after a reopen is what was reported when saving -
\* whether sizes were set or came from the file, queried or not, with or without borders; since Reopen may
\* follow any number of earlier cycles this is also NoDrift.
LastOp == IF hist = <<>> THEN "none" ELSE hist[Len(hist)].op
SurvivesReload == LastOp = "reopen" => Obs = before
QueryIsReadOnly == [][(hist' # hist /\ hist'[Len(hist')].op = "query") => Obs' = Obs]_vars
====

#!/bin/sh
# apply a patch to a scratch worktree of /repo's HEAD, run one property's check against it, remove the change:
#   tools/try_patch.sh C09 /path/to/patch.diff [tier]
# (neither /repo nor /verif/evidence is touched: NV_REPO / NV_OUT)
p=$1; patch=$2; tier=${3:-quick}
cd /verif
wt=/tmp/nv-tryrepo-$$
git -C /repo worktree add --detach $wt HEAD -q || exit 2
if git -C $wt apply "$patch"; then
  NV_REPO=$wt NV_OUT=/tmp/nv-tryout-$$ ./check $p --tier $tier > /tmp/t1/try_$p.log 2>&1; rc=$?
  echo "$p exit $rc :: $(grep -E 'violation\(s\) in total|^C[0-9]+ ' /tmp/t1/try_$p.log | tr '\n' ' ' | cut -c1-300)"
else
  echo "$p: patch does not apply"
fi
git -C /repo worktree remove --force $wt; rm -rf /tmp/nv-tryout-$$

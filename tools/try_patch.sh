#!/bin/sh
# apply a patch to /repo, run one property's check, undo the patch:  tools/try_patch.sh C09 /path/to/patch.diff [tier]
p=$1; patch=$2; tier=${3:-quick}
cd /verif
test -z "$(git -C /repo status --porcelain -- src)" || { echo "/repo has local changes"; exit 2; }
git -C /repo apply "$patch" || { echo "patch does not apply"; exit 2; }
./check $p --tier $tier > /tmp/t1/try_$p.log 2>&1; rc=$?
git -C /repo checkout -- .
echo "$p exit $rc :: $(grep -E 'violation\(s\) in total|^C[0-9]+ ' /tmp/t1/try_$p.log | tr '\n' ' ' | cut -c1-300)"

#!/bin/sh
# confirm a sub-agent's seeded change in its scratch worktree and file it under seeded/<id>/
#   tools/confirm_seed.sh C04 "needs: ..." [full]
p=$1; needs=$2; full=$3
root=${MUT_ROOT:-/tmp/mut}; name=$p${SUFFIX:-}
wt=$root/$p
cd $wt || exit 2
# the agent's deliverable is the source of truth (git stash is shared between worktrees and must not be used here)
test -s $wt/mutation.diff || { echo "no mutation.diff in $wt"; exit 2; }
git checkout -q -- src
git apply $wt/mutation.diff || { echo "mutation.diff does not apply"; exit 2; }
git diff -- src > $root/$p.actual.diff
PYTHONPATH=$wt/src /venv/bin/python $wt/demo.py > $root/$p.demo_with.log 2>&1; with=$?
git apply -R $root/$p.actual.diff
test -z "$(git status --porcelain -- src)" || { echo "worktree not clean after reverse apply"; exit 2; }
PYTHONPATH=$wt/src /venv/bin/python $wt/demo.py > $root/$p.demo_without.log 2>&1; without=$?
git apply $root/$p.actual.diff
echo "demo with change: exit $with ; without: exit $without"
tests="not run"
if [ "$full" = "full" ]; then
  PYTHONPATH=$wt/src /venv/bin/python -m pytest -q -p no:cacheprovider --timeout=900 -k "not subprocess" --deselect tests/test_issues.py::test_issue_50 --deselect tests/test_formulas.py::test_parse_formulas > $root/$p.tests.log 2>&1
  tests=$(tail -1 $root/$p.tests.log)
  echo "tests: $tests"
fi
if [ $with -ne 0 ] && [ $without -eq 0 ]; then
  d=/verif/seeded/$name
  mkdir -p $d
  cp $root/$p.actual.diff $d/patch.diff; cp $wt/demo.py $d/demo.py; cp $wt/notes.md $d/notes.md 2>/dev/null
  python3 - "$p" "$needs" "$with" "$without" "$tests" "$name" <<'PY'
import json,sys
p,needs,w,wo,tests,name=sys.argv[1:7]
json.dump({"property":p,"needs":needs,"confirmed":{"demo_exit_with_change":int(w),"demo_exit_without_change":int(wo),"existing_tests":tests,
 "how":"tools/confirm_seed.sh in a scratch worktree of /repo under /tmp (git apply / apply -R of the change around the demo; stable suite with PYTHONPATH=<worktree>/src)"},
 "origin":"fresh sub-agent given only the property text and its own worktree"}, open("/verif/seeded/%s/meta.json"%name,"w"), indent=1)
PY
  echo "filed under $d"
else
  echo "NOT confirmed"
fi

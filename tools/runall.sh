#!/bin/sh
# run every claimed check:  tools/runall.sh <seed> <tier>   -> one summary line per property
seed=${1:-0}; tier=${2:-quick}
cd "$(dirname "$0")/.."
for p in $(python3 -c "import json;print(' '.join(c['property_id'] for c in json.load(open('MANIFEST.json'))['checks']))"); do
  t0=$(date +%s)
  VERIF_SEED=$seed ./check $p --tier $tier > /tmp/runall-$p-$seed.log 2>&1; rc=$?
  echo "$p seed=$seed tier=$tier rc=$rc $(( $(date +%s) - t0 ))s :: $(tail -1 /tmp/runall-$p-$seed.log | cut -c1-200)"
  if [ $rc -ne 0 ]; then grep -A1 "VIOLATION\|MACHINERY" /tmp/runall-$p-$seed.log | head -6 | cut -c1-600; fi
done

#!/usr/bin/env python3
"""Regenerate /verif/MANIFEST.json from the table below (keeps the manifest valid at all times)."""
import json
import os

ROOT = os.path.dirname(os.path.dirname(os.path.abspath(__file__)))
props = [json.loads(l) for l in open(os.path.join(ROOT, "properties.jsonl"))]
TITLES = {p["id"]: p["title"] for p in props}

# id -> (technique, level text, level note, design_ref)
CLAIMED = {
    "C18": ("TLC model checking of Tokenizer.tla (all class strings up to the bound) + replay of every TLC-enumerated "
            "final state into the real Tokenizer + TLC trace validation (Trace_Tokenizer) of reader-emitted formulas and random strings",
            "Tokenizer.tla is a character-level scanner model whose Level-A invariants (Total, Lossless, NoQuotedSplit) TLC "
            "checks for every input up to the bound; every enumerated input is replayed into the real tokenizer and must "
            "coincide with the model or be accepted by the property-level judge Trace_Tokenizer, which also validates every "
            "formula the reader emits from the fixtures and seeded random/mutated strings. Reference texts the library itself renders for "
            "generated documents (table/sheet-qualified names, header labels incl. ones that need quoting) must be accepted; a quoted name may "
            "follow a scope or the colon of a span inside an operand (modelled in the scanner).",
            "class alphabet with representatives; Python re semantics of the two string regexes as characterised in the spec; TLC/SANY",
            "DESIGN.md §4 C18"),
}
CLAIMED["C10"] = (
    "TLC model checking of A1.tla over the whole per-axis domain (every column 0..18307, every row up to the bound) with "
    "every TLC state replayed into the library's conversion functions + TLC judging (Trace_A1) of sampled call events",
    "A1.tla is the reference definition (bijective base-26, decimal rows, '$' markers, ranges); TLC checks round trip, shape, strict "
    "monotonicity (the counting argument for no gaps/no repeats), range collapse on the full per-axis domain; every position is "
    "replayed into xl_col_to_name / xl_col_to_offset / xl_rowcol_to_cell / xl_cell_to_rowcol and the second decoder in "
    "parse_numbers_range; sampled corner pairs, cells and negative arguments are recorded as events and judged by TLC.",
    "TLC/SANY; Python int/str decimal conversion only as far as it agrees with A1!Dec on each checked row",
    "DESIGN.md §4 C10")
CLAIMED["C03"] = (
    "TLC model checking of Workbook.tla (+ GridImpl.tla refinement) ; every bounded TLC behaviour replayed into real Document objects "
    "with the abstract state compared after every call; recorded random histories validated by TLC against Trace_Workbook",
    "Workbook.tla specifies the Document/Sheet/Table API as a state machine over plain grids (one action per public call); TLC checks "
    "the design properties (save is a stutter on open documents, frame conditions between documents and tables, reopen = saved, "
    "refused calls change nothing) and that the code-shaped renumbering of GridImpl.tla refines the plain grid. All maximal bounded "
    "histories from TLC's state dump and -simulate behaviours (2 documents, 2 sheets, tables to 5x5, tile-boundary profiles) are "
    "replayed into the library and compared after every op; long random histories from a spec-independent driver (typed all-distinct "
    "values, 25x25 tables, save/reopen) and the same driver on LOADED documents (every shipped fixture the library writes back unchanged, "
    "pivot-table documents excepted as the library itself warns) are validated event by event by TLC. Deletions whose count reaches past the end of the table are refusals in the model and are attempted by the random drivers.",
    "TLC/SANY; the projection (rows(), num_rows/num_cols, Cell.row/col, names) and the concretisation of value tokens; ops outside "
    "the documented domain are not generated",
    "DESIGN.md §4 C03")
CLAIMED["C11"] = (
    "TLC model checking of Workbook.tla (addressing: refusals, exact growth) and Addressing.tla (iterator bounds, A1 = RC); twin replay of "
    "every TLC-generated history in row/column and A1 notation with iterator/cell probes over every bound combination, all judged by TLC "
    "(Trace_Workbook)",
    "Workbook.tla makes every position-taking call (write, set_cell_style/formatting/border as Touch) either a refusal (IndexError, state "
    "unchanged) or a growth to exactly the required size, and defines iter_rows/iter_cols/cell as functions of the state; Addressing.tla "
    "checks the code-shaped bound handling against that definition over every bound combination and that the A1 text of a position "
    "parses back to it. All bounded histories with row/column arguments from -1 to limit+1 are replayed twice (RC and A1 text incl. 'A0'), "
    "must coincide event by event, and each recorded trace incl. ~100-1300 read-only probes is validated by TLC; concrete limit rows/columns "
    "(rows MAX, MAX+1 and -1, -2 - all refused; columns MAX-1, MAX, MAX+1) are validated with the real limits as spec constants; growth to the last row is C01's thorough case. Each history runs in three notations: row/column numbers, 'B2', and lower case or every '$' placement (a lower-case spelling may be refused without effect or read like the upper-case one).",
    "TLC/SANY; abstract limits 4 are mapped to MAX_ROW_COUNT/MAX_COL_COUNT; lower-case A1 not judged; the local effect of a touch (style "
    "name, border, formatted value at the addressed cell, no other cell changed) is observed by the driver and judged as a logged field",
    "DESIGN.md §4 C11")
CLAIMED["C19"] = (
    "TLC model checking of Workbook.tla (collection layer) and Collections.tla (index arithmetic); replay of every bounded TLC history of "
    "add_sheet/add_table/rename/save/open with exhaustive lookup probes after every call, judged by TLC (Trace_Workbook); fixtures' collections probed",
    "Workbook.tla specifies sheets and tables as name sequences with case folding: an explicit duplicate is a refusal, automatic names are the "
    "first unused 'Table k', lookups by index/name/membership are functions of the state. TLC checks AddKeepsUnique and AutoNameFresh on all "
    "histories to the bound; every maximal bounded history (and -simulate histories up to 6x6) is replayed into the library and after every call "
    "every index in [-2n,2n] and every name token (case variants, generated-looking, empty, non-ASCII) is looked up in every collection; TLC "
    "validates each recorded trace, including after save/reopen. The generator pool includes lower-case variants of generated names; histories 'variant then automatic name' are always in the quick sample.",
    "TLC/SANY; name tokens instantiated with fixed concrete strings; Python str.lower() as the meaning of 'ignoring case'",
    "DESIGN.md §4 C19")
CLAIMED["C12"] = (
    "TLC model checking of Merges.tla (grid + set of rectangles, all rectangles and disjoint pairs of a 3x3 area, edits, save/reopen); every "
    "maximal bounded TLC behaviour replayed into real tables with the merge picture recorded after every call and at every save from the "
    "reopened file; traces judged by TLC (Trace_Merges)",
    "Merges.tla derives the picture the API must report (anchor with size, placeholders with their rectangle and no value, list of ranges, "
    "untouched cells outside) from a set of rectangles; TLC checks well-formedness, that merging leaves outside cells untouched and that "
    "non-cutting edits only move rectangles. All maximal behaviours (merge single/list, writes, row/column insertion/deletion before, inside, "
    "after, save, reopen) plus edge placements on 5x6..12x9, 1xN, Nx1 tables and every fixture table with merges are recorded from the real "
    "library and validated by TLC: exact picture after merge/write/save/reopen, picture of the reopened file equal to the open one at every "
    "save, self-consistency after structural edits. add_row/add_column carry a default value in the model; whole-rectangle deletions, insertions/deletions at the edges of rectangles, sibling tables added after a save (they must start without merges) and structural edits on fixture tables whose merges came with the document are replayed.",
    "TLC/SANY; writing into a placeholder and overlapping merges are not generated; where rectangles move is Level B (DRIFT); edits cutting "
    "through a rectangle are a recorded known finding (F8b)",
    "DESIGN.md §4 C12")
CLAIMED["C16"] = (
    "TLC model checking of Geometry.tla (mechanism: stored size / API-set value / memo / border allowance; SurvivesReload) with its behaviours "
    "replayed into real tables; recorded setter/query/border/save/reopen histories on new documents and fixtures judged by TLC (Trace_Geometry)",
    "Geometry.tla models how line sizes are stored, set, memoised, inflated by border allowances and written back; TLC shows the design that keeps "
    "stored size and allowance apart satisfies SurvivesReload/NoDrift and that the pinned tree's variants (save from memo only, allowance written "
    "back) violate it. Every bounded behaviour of the mechanism spec is replayed on a real table, random subsets of the 11 setters (with borders, "
    "queried or not, 1-3 cycles) are run on new documents, and every readable fixture is saved unqueried and with setter subsets; at each save "
    "the trace records what the open document reports and what the reopened file reports, and TLC checks that the expected observation "
    "(source values + what was set) survives every cycle component by component. Geometry.tla works in half points with edges between adjacent lines (a border widens both neighbours, drawn from either side); three-table documents with a watched bystander table; documents whose header lists skip default-sized lines.",
    "TLC/SANY; 'what the document reported before saving' is observed right after the save (saving does not change the open document: C03); "
    "a caption text setter may switch the caption on (not fixed by C16); structural edits are not mixed in",
    "DESIGN.md §4 C16")
CLAIMED["C04"] = (
    "TLC model checking of CellRecord.tla (published layout vs encoder emission order and decoder offset walk) with every state replayed: all "
    "(kind, subset of 12 optional fields) through Cell._to_buffer/_from_storage, all flag words through an independent encoder into "
    "Cell._from_storage; fixture records judged by TLC (Trace_CellRecord)",
    "CellRecord.tla states the documented layout (fields in ascending flag-bit order, widths 16/8/8/4) and, as Level B, the encoder's emission "
    "order and the decoder's offset walk; TLC checks DecodeSlots/EncodeLayout/EncodeComplete for every kind x 2^12 subsets and every enumerated "
    "flag word and refutes the pinned tree's variants (SkipLate, RichTwice). Each TLC state is one implementation test: records are parsed slot "
    "by slot with the spec's offsets, decoded again and compared attribute by attribute; each flag word is materialised with sentinels by the "
    "harness's own encoder and decoded by the library; every distinct cell record of the fixtures is re-read by TLC at the layout's offsets. In every fifth case one of the fields present holds the id 0.",
    "TLC/SANY; stub model for string/style/rich-text lookups; payload values sampled from C01's domains; quick tier enumerates flag bits 0..14 "
    "(2^15 words), thorough all 2^21",
    "DESIGN.md §4 C04")
CLAIMED["C01"] = (
    "TLC model checking of Decimal.tla (digit-sequence values, decimal128 denotation) ; per-cell write/save/reopen/read events over every value "
    "class of the quantifier judged by TLC (Trace_Decimal); TLC-generated write/save/open behaviours of Workbook.tla replayed under tile- and "
    "column-block boundary profiles and validated by Trace_Workbook",
    "Values are compared as digit sequences / code points / integer fields, never as floats: Trace_Decimal accepts an event only if the reopened "
    "cell has the corresponding class and Norm(read) = Norm(written); the relation itself (Norm, decimal128 denotation, reference encoder) is model "
    "checked on all values of <= 3-4 digits, and its lossy-scaling mutant is refuted. Sweeps write 3*10^4 (quick) / 4*10^5 (thorough) values of "
    "every class into tables of 1, 8, 40 and 300 columns spanning several 256-row tiles, save, reopen and log one event per cell incl. the stored "
    "decimal128 payload (Level B). The growth/position clause is covered by Workbook behaviours (writes outside the bounds, save, open) replayed "
    "with row/column offsets 254/255/510/598 and 254/255/258/300, and by single writes at MAX_ROW_COUNT-1 / MAX_COL_COUNT-1 (thorough). Lifecycle variety: one third of the files are saved twice by the same Document with writes in between, one third are opened, edited and saved again.",
    "TLC/SANY; repr(float) shortest round-trip digits, Decimal, int.from_bytes are trusted for turning floats and payload bytes into digit "
    "sequences; long texts compared by length + SHA-256",
    "DESIGN.md §4 C01")
CLAIMED["C05"] = (
    "TLC model checking of IWAFrame.tla (streams, chunks, every re-chunking for CHUNK=4; encoder/decoder loops with mutants); synthetic real "
    "archives framed by the harness at TLC's cut compositions and decoded by the library; every IWA member of fixtures/template/generated "
    "documents decoded and re-encoded with both sides read by the harness's own framing code and judged by TLC (Trace_IWAFrame)",
    "IWAFrame.tla models archive streams as unique byte tokens so that sequence equality is content identity; TLC checks Decode(Encode(s)) = s, "
    "independence from the cuts for every composition, the container rules and that declared lengths are repaired, and refutes StaleLength / "
    "LenField2Bytes / Boundary variants. Synthetic archives (0 bytes, 64 KiB multiples -1/0/+1, many segments, multi-message segments, unknown "
    "fields) are framed at TLC's compositions scaled to real sizes with cut points perturbed by one byte, compressed / stored / mixed, and must "
    "decode to the original segments; ~1300 (quick) / ~5300 (thorough) real members are decoded and re-encoded and TLC judges stream identity "
    "by digests of exact bytes, every chunk record, data completeness and header lengths. IWAMessages.tla adds the decoder's choice of message class (regular messages of two classes, patch messages with every legal base index): all 202 segment shapes are built from two real classes whose payloads change under the other class. Readers are exercised with chunks beyond 64 KiB (single-chunk members, incompressible payloads, streams whose length is an exact multiple of 64 KiB).",
    "TLC/SANY; snappy and protobuf observed only through lengths and SHA-256 digests; stored chunks whose raw bytes are themselves valid "
    "snappy are not generated (ambiguous by the format's own 'try to uncompress' rule)",
    "DESIGN.md §4 C05")
CLAIMED["C02"] = (
    "TLC model checking of Lifecycle.tla (open / read-only accessors / save / reopen over opaque observations, with mutants); every generated "
    "schedule class run on every readable fixture, the template and API-built documents; observations of fresh instances judged by TLC (Trace_Lifecycle)",
    "Lifecycle.tla states SaveIsIdentity, AccessIsReadOnly and Idempotent over schedules of up to three saves with any subset/order of the seven "
    "accessor kinds; TLC enumerates the schedules (they are the histories quantifier) and refutes the AccessMutates / DirtySave variants. Each "
    "(document, schedule) case is executed on the real library; after every save a fresh instance of the written file is observed cell by cell "
    "(type, value, formula text or exception class, formatted value, bullets/hyperlinks, merge state, merge ranges) and TLC requires the "
    "observation to equal the pristine source's, component by component, at every save of every cycle; exemptions come only from the "
    "library's own save-time warnings.",
    "TLC/SANY; per-table component digests (SHA-256 of canonical per-cell records) stand for the observation, cell-level diffs are reported "
    "on rejection; accessors that raise on a document (Cell.style on unknown fonts) are noted, not judged",
    "DESIGN.md §4 C02")
CLAIMED["C06"] = (
    "TLC model checking of DataList.tla and RowMap.tla with every state materialised as a real file and read through the library; "
    "Lifecycle.tla Rewrite/LayoutBlind; compositions of layout rewrites applied to fixtures and API-built documents by the harness's own "
    "zip/IWA code, rewritten copies observed through the library and judged by TLC (Trace_Lifecycle)",
    "DataList.tla (the indexer loop: all permutations with gaps; AllIndexed, IndexPointsAtEntry, NextKeyFresh) and RowMap.tla (which rows are "
    "stored, which empty rows carry header records, tiles; RowAtDeclaredIndex) are checked exhaustively and their pinned-tree mutants "
    "refuted; every list / store state is written into a real document's archives and read back through Table.cell. The metamorphic "
    "relation: eleven rewrites (list permutation, re-chunking, zip order, compression method, package vs single file, narrow/wide offsets, "
    "header records for empty rows) singly and in compositions of 2-3 on every readable fixture, the template and API-built documents; "
    "the rewritten copy's observation (C02's) must equal the original's by sheet/table name and component. Row records without cells (RowMap.tla recorded set), one-chunk members and a bulky document whose compressed chunks exceed 64 KiB are part of the rewrites.",
    "TLC/SANY; the rewriter (validated by its own reader: same object ids before/after); tile size 2 of the model is scaled to 256; "
    "silent-fallback wrappers of DESIGN.md are not installed (the observation itself shows a fallback as a changed value)",
    "DESIGN.md §4 C06")
CLAIMED["C07"] = (
    "TLC model checking of Package.tla (identifier allocation, component metadata, reference closure, with mutants); every save of fixtures, "
    "API-built documents, edit histories and boundary table shapes abstracted by an independent structural validator and judged by TLC "
    "(Trace_Package), first save and a second save of the reopened file",
    "Package.tla models the object store as the code drives it (new_message_id, create object into a new or an existing archive file, component "
    "metadata, copy-back of references) and checks FreshIds, DistinctIds, Listed, Closed; ReuseId / ForgetComponent / StaleHighWater / "
    "DanglingRef variants are refuted. For each real save the harness's own zip+IWA reader and its own TSP.Reference walk produce the abstract "
    "state (source ids, saved ids, rewritten ids by message digest, references of created/rewritten objects, the source's dangling targets, the "
    "recorded high-water mark, added archive files vs component locators, per-tile row summaries) and TLC evaluates the clauses of C07: "
    "reopenable, no duplicate ids, ids below the high-water mark, reference closure, files listed, tiles covering rows and columns with "
    "in-bounds, aligned, increasing, non-overlapping records.",
    "TLC/SANY; the structural validator (protobuf classes for field access only; record lengths from the CellRecord layout); tiles written by "
    "Numbers may carry 255 offset slots, the surplus must be unused; Apple Numbers as consumer is out of reach",
    "DESIGN.md §4 C07")
CLAIMED["C08"] = (
    "TLC model checking of FormulaStack.tla (program builder, Render, a precedence-climbing Parse, the code's stack machine; Faithful and "
    "MachineAgrees for every well-formed program within the node bound, mutants refuted); every program TLC reaches materialised as a real "
    "formula archive, saved, reopened, read through Cell.formula and compared as an expression tree and literal by literal",
    "FormulaStack.tla builds post-fix node arrays the way Numbers writes them (explicit LIST nodes wherever precedence alone would read the "
    "text differently) while tracking the expression tree each stack entry denotes; TLC checks Parse(Render(tree)) = tree and that the "
    "code-shaped string stack machine produces Render(tree), and refutes SwapSub / ArgsReversed / NoParenRule. 2*10^4 (quick) / 4*10^5 "
    "(thorough) distinct programs over every operator (members of each precedence class substituted), unary minus, percent, lists, calls of "
    "arity 0..3 with empty arguments, 1-D/2-D arrays and number/string/boolean/date/reference leaves are injected into real tables in batches, "
    "saved and reopened; the text is read twice (determinism), tokenised and parsed by the harness's projection (same grammar as the spec's "
    "Parse) and compared with the stored tree, then literal by literal (numbers as decimals, strings with quotes undoubled, dates, references). Date literals on calendar boundaries; every second program with a reference is shared with the neighbouring cell of its row (same stored key, other host cell) and read in both orders.",
    "TLC/SANY; the projection parser (validated on the spec's own renderings); leaf values and function ids sampled from seeded pools; "
    "fixture formulas with named ranges / cross-table references are outside the projection's grammar and only counted",
    "DESIGN.md §4 C08")
CLAIMED["C17"] = (
    "TLC model checking of Loader.tla (the load pipeline with every single fault and pair of faults; Total; pinned-tree variant refuted); every "
    "fault set TLC enumerates materialised on real documents by a fault injector, plus random truncations and bit flips stratified by zip "
    "region; the loader's outcome class judged by TLC (Trace_Loader)",
    "Loader.tla walks the stages of IWork.open / ObjectStore.__init__ (exists, suffix, zip directory, plist, encryption marker, each archive "
    "member: read, sniff, un-frame, parse, store; store initialisation) with faults attached to stages, and checks that the outcome is a document "
    "or one of the three library error types for all 7 672 fault sets; the untranslated paths of the pinned tree are shown to violate Total. Each "
    "fault set (11 container faults, 12 member faults at the first/middle/last member, also inside a nested Index.zip) is written into real files "
    "with the harness's zip/IWA code and opened with ObjectStore(path); random truncation lengths and 1-4 bit flips in member data, local headers "
    "and the central directory are added per document. Level A: no foreign exception class escapes from loading; which library class is raised is "
    "Level B (DRIFT). Fault kinds include three ways a Properties.plist can fail to state a version, a segment header without messages, trailing bytes after the last chunk and a damaged Index.zip nested in a single-file document.",
    "TLC/SANY; 'loading' = ObjectStore(path); failures while later interpreting a container whose archives were dropped are noted, not judged",
    "DESIGN.md §4 C17")
CLAIMED["C20"] = (
    "TLC model checking of CsvPipeline.tla (grids of cell classes x header x reverse; the converter's dict/2x2/float representation vs the "
    "Level-A relation, mutants refuted); every sampled TLC grid concretised, converted by the in-process csv2numbers main and exported by "
    "cat-numbers -b main, per-cell results judged by TLC (Trace_CsvPipeline over Decimal.tla)",
    "CsvPipeline.tla labels every cell so that lost, merged or reordered cells are visible and checks that the converter's representation "
    "yields the Level-A grid (same shape, classes kept, special floats stay text, rows reversed iff asked) for every grid up to 2x3/3x3 over "
    "{empty, number, special float, text, duplicate header}; DuplicateHeaderCollapse / MinShape / SpecialFloatCoerced are refuted. Abstract "
    "grids (and tilings to 1..40 x 1..12) are concretised with seeded spellings (delimiters, quotes, CR/LF, non-ASCII, thousands commas, "
    "exponents, signs, underscores, non-ASCII digits, nan/inf/1e400), run through both command-line entry points in-process with "
    "stdout/stderr/exit status captured, and TLC judges shape, text identity code point by code point, numeric equality on digit sequences "
    "and 'ok or one-line error, never a crash'. Minimal shapes (header-only, one data row, one column) in every option combination; numeric spellings from 1e-31 to 1e23.",
    "TLC/SANY; Python's csv module (excel dialect) as reference reader/writer; cells classified by the documented conversion; numeric spellings "
    "of at most 15 significant digits; duplicate header names are a recorded known finding (F17b)",
    "DESIGN.md §4 C20")
CLAIMED["C14"] = (
    "TLC model checking of DateFormat.tla (calendar fields from the ordinal, the documented directive table as sets of acceptable texts, the "
    "format scanner, duration recombination; ShapeOK/ScanOK, mutants refuted); every directive x every field value and random compositions "
    "rendered by the library (directly and through set_cell_formatting / custom formats with save and reopen), durations through injected "
    "duration formats; every displayed text judged by TLC (Trace_DateFormat)",
    "DateFormat.tla derives weekday, day of year, week of month/year and n-th weekday from the proleptic Gregorian ordinal (CivilOK ties it to "
    "year/month/day), states the directive table of docs/api/datetime.rst (both readings accepted where the documentation contradicts itself), "
    "scans a format into fields, literals and quoted text and defines RenderSet as the concatenation of the parts; TLC checks the documented "
    "range/padding of every numeric directive over a calendar of cases and the scanner laws, and refutes K24Replace / NoQuoteUnescape. ~24 000 "
    "directive events (24 hours, 60 minutes/seconds, all 731 days of 2023-2024, boundary years), compositions with literals, quoted text and "
    "escaped quotes, and the public route are judged by out in RenderSet(fmt, fields). Durations (unit boundaries +-1 ms up to 10 years x 21 "
    "unit pairs x 3 styles + automatic units) are read unit by unit and must recombine, in <<days, ms>> limbs, to the duration truncated to the "
    "smallest unit shown. Cases are spread over three tables of one document in half of the jobs; the epoch date (stored number 0) and re-formatting after a read are included.",
    "TLC/SANY; C-locale English month/day names; the harness splits a duration text into numbers and unit words, TLC does the reading; "
    "compact automatic durations are accepted if some contiguous unit range reads back exactly",
    "DESIGN.md §4 C14")
CLAIMED["C13"] = (
    "TLC model checking of NumFormat.tla (digit-sequence rounding with ties, notation readers, base conversion by long division, two's complement; "
    "the reader agrees with a reference formatter on every small value; mutants refuted); one event per (value, format) displayed by the library, "
    "judged by TLC (Trace_NumFormat)",
    "NumFormat.tla reads a displayed text in its notation (currency symbol/code, tab, grouping commas valid only in the integer part in groups of "
    "three, parentheses or minus, percent inside or outside the parentheses, d.dddE+xx, base-b digits and two's-complement words, 'w n/d', stars) "
    "and requires it to equal the value rounded to the precision shown, on digit sequences with carries, accepting either neighbour at an exact "
    "tie; the number of decimals shown must be the number asked for. TLC checks Read(Show(v)) against RoundAt for all values of <= 3 digits x "
    "exponents x places x separator and refutes Truncate / CommaInDecimals. 3*10^4 (quick) / 5*10^5 (thorough) events over C01's numeric domain, "
    "exact ties, powers of ten and neighbours x places 0..10/auto x separator x four negative styles x accounting x all supported currencies x "
    "bases 2..36 x 0..8 places x two's complement x nine fraction accuracies x ratings are judged. Cases are spread over three tables of one document (added table, added sheet) in half of the jobs, and every seventh cell is given another format and read before its final format.",
    "TLC/SANY; the value is its shortest round-trip decimal; red negative style carries no sign in text (magnitude only); n-digit fraction "
    "accuracies: closeness computed by the harness with Fraction and passed as a flag; automatic decimals may be spelled with an exponent",
    "DESIGN.md §4 C13")
CLAIMED["C15"] = (
    "TLC model checking of Borders.tla (stroke runs patched as add_stroke does vs last-writer-wins edge map; open cells with order stamps) and "
    "Styles.tla (named styles, applied styles, reads, save/reopen), mutants refuted; every maximal TLC stroke / style history replayed on real "
    "tables with both adjacent cells of every edge observed on the open document and on the file saved after each stroke, judged by TLC "
    "(Trace_Borders, Trace_Styles)",
    "Borders.tla: Level A is the edge map of one grid line under last-writer-wins; Level B the file's stroke layer (runs patched by cover / cut "
    "start / cut end / split / append, sorted) read with greatest-order-wins, and the open cells whose setters compare orders; TLC checks "
    "FileAgrees and OpenAgrees for all sequences of <= 3-4 strokes on 5 positions with 2 values and refutes StampAfterUpdate (the pinned tree) and "
    "FirstRunWins. Styles.tla: SavedIsShown, ReadIsReadOnly, UnstyledKeep, fresh automatic names; ReadMarksDirty (the pinned tree) refuted. Stroke "
    "histories run on horizontal and vertical lines (outer edge and inner lines, next to a merged rectangle), addressed from either adjacent "
    "cell, with widths/colours/patterns drawn per run; style histories use complete 15-attribute sets over the documented domains (188 font "
    "families, quarter-point sizes and indents, RGB, 5x3 alignments, wrap, background colour), applied by object, by name and through write(). Border lines start empty or preloaded from a file (counter = latest order) with reopen between strokes, lie next to or on the outer edge of merged ranges; first strokes over existing borders of fixture tables. Style histories run with the second cell in the same table, an added table or a table on an added sheet; every two-styles-live history once per attribute with styles differing in that attribute only (incl. background images); directed 13-step histories with four styles around a save-reopen.",
    "TLC/SANY; tokens stand for concrete border / attribute-set values compared attribute by attribute; the named styles of a reopened document "
    "are re-read (an unused style keeps only what the file stores for it)",
    "DESIGN.md §4 C15")
CLAIMED["C09"] = (
    "TLC model checking of Refs.tla (namespaces of sheets and table names, the qualifier reading rules, the prefix chooser of expand_ref, table "
    "renames; ExactlyTheTarget on every namespace, mutants refuted) and RefLabels.tla (header labels: what a printed label reference denotes, "
    "the scope chooser; three mutants refuted); every TLC namespace / labelling built through the API with stored references injected as real "
    "AST nodes, printed by Cell.formula on the open document, after a rename and after save/reopen, judged by TLC (Trace_Refs, Trace_RefLabels)",
    "Refs.tla states how a printed qualifier is read with the document's own names (none: the host table; T:: the table T of the host sheet, "
    "else the tables named T anywhere; S::T:: that table) and checks that the library's prefix choice resolves to exactly the stored target for "
    "every assignment of table names to 1..3 sheets x 1..2 tables, every host and target, before and after any legal table rename; dropping the "
    "sheet prefix for a shared name and a stale unique-name cache are refuted. "
    "For each namespace (and seeded larger ones) cell, rectangle, row-span and column-span references with every absolute/relative combination "
    "are injected at varying host cells (cross-table ones with the target's UUID); the printed text is split into qualifiers and body, and TLC "
    "checks the body against the stored ends resolved from the host cell ('$' exactly on the absolute ends, ends not swapped) and resolves the "
    "qualifiers in the namespace the library reports. RefLabels.tla adds header labels (per table 3 lines labelled x / y / empty, unique or "
    "repeated within the table, sheet or document): a printed label reference must denote exactly the stored lines of the stored table; every "
    "TLC case (<= 2 tables exhaustively, <= 3 tables model-checked, larger ones seeded) is built with real header rows or columns and single-line "
    "and span references, and TLC judges each printed text with the labels the document reports (Level A) and against the modelled chooser (drift).",
    "TLC/SANY; label references: one labelled axis per document, text labels, a label repeated on its table's axis names nothing and a span names "
    "lines of one table carrying both labels (Numbers' conventions as seen in tests/data/create-formulas.numbers); mixed absolute/relative range "
    "ends stored as the library's reader and writer agree",
    "DESIGN.md §4 C09, Part I")
NOT_YET = "check not built yet in this round (planned: see DESIGN.md section for this property)"
NA = {}

# what was added to a check after its description above was written
ADDENDA = {
    "C01": "A quarter of the file jobs save in the package-folder form of Document.save.",
    "C02": "Saves take either form of Document.save (zip file / package folder: Lifecycle.tla carries the form of every file; FormBlind, RefusalKeeps; "
           "package over package, refused crossings; PackageDropsLooseFiles refuted).",
    "C03": "Counts of zero (insert / delete nothing) are part of the generated and the random histories.",
    "C05": "Varint.tla opens up the varint in front of every segment (RoundTrip, Minimal, Framed for all values below B^3; StopOneLate refuted); every carry "
           "pattern of the model is materialised as a real ArchiveInfo header length (127/128/129, 16383..16385, 16511/16512 ...).",
    "C07": "A third of the cases write one of the two saves as a package folder; Package.tla also carries the data-file registry (DataClosed: a data "
           "reference names a registered data item whose file is in the package; DataNotRegistered / DataFileNotStored refuted).",
    "C08": "Exact integer literals beyond 2^53 and nodes that render nothing (whitespace nodes anywhere in the node array; WhitespacePops refuted) are included.",
    "C09": "Also: table / sheet / label names that need quoting, rectangles stored as two cell references joined by a COLON_NODE, host cells that moved after "
           "the reference was stored, labels re-read after structural edits of the target table, and tables with labels on both axes (RefLabels.tla xlab; "
           "CrossAxisIgnored refuted).",
    "C11": "Every second iterator probe passes its bounds positionally in the documented order.",
    "C12": "Write covers placeholders (the value is not kept); fixture tables are also edited until no merged rectangle is left.",
    "C13": "Magnitudes down to 1e-290 (automatic decimals shown with an exponent).",
    "C15": "Borders.tla has Touch steps between strokes (Table.write on the cells along the line, merge_cells elsewhere; TouchForgetsBorders refuted); Styles.tla "
           "has the document's preset styles (PresetKeepsCellStyle refuted); colour twins whose decimal digits run together, font-only styles and presets "
           "applied over a styled cell; a quarter of the style histories go through the package form.",
    "C17": "Fault zip-feature: an intact zip that asks for what zipfile does not do (version needed above 6.3, unknown method, encrypted member, patched data).",
    "C18": "Error literals in other letter cases; reference texts with names that need quoting.",
    "C20": "Whole numbers beyond the decimal128 coefficient (34 digits, e33..e300).",
}
checks = []
for pid, (tech, text, note, ref) in sorted(CLAIMED.items()):
    if pid in ADDENDA:
        text = text + " " + ADDENDA[pid]
    checks.append({
        "property_id": pid,
        "quick_cmd": "./check %s --tier quick" % pid,
        "thorough_cmd": "./check %s --tier thorough" % pid,
        "evidence_file": "/verif/evidence/%s.json" % pid,
        "replay_cmd_template": "./check %s --replay {path}" % pid,
        "engine": "nv",
        "level_claimed": {"category": "model_checking", "text": text, "design_ref": ref},
        "level_note": note,
        "technique": tech,
    })
na = [{"property_id": p["id"], "reason": NA.get(p["id"], NOT_YET)} for p in props if p["id"] not in CLAIMED]
man = {
    "version": 1,
    "setup_cmd": "./setup.sh",
    "hooks": {
        "guard": "NUMBERS_PARSER_VERIF",
        "enable": "no source hooks: the library is sequential and its public API exposes the abstract state; "
                  "./check exports NUMBERS_PARSER_VERIF=1 and installs harness-side wrappers only inside the check process",
        "baseline_off_cmd": "cd /repo && /venv/bin/python -m pytest -ra -q -p no:cacheprovider --timeout=900 --continue-on-collection-errors",
        "source_commits": [],
        "add_only": True,
    },
    "engines": [{"name": "nv", "path": "/verif/harness/nv", "serves_properties": sorted(CLAIMED),
                 "kind_free_text": "TLA+ specifications under /verif/spec checked with TLC; spec->code replay of TLC-generated "
                                   "behaviours and code->spec trace validation of recorded executions"}],
    "checks": checks,
    "notes": "Verdicts: exit 0 = held, exit 1 + VIOLATION line = property violated, exit 2 = machinery failure. "
             "known_findings.jsonl lists recorded/fixed defects; see DESIGN.md.",
    "not_applicable": na,
}
with open(os.path.join(ROOT, "MANIFEST.json"), "w") as fh:
    json.dump(man, fh, indent=1)
print("claimed:", sorted(CLAIMED), "not claimed:", len(na))

#!/usr/bin/env python3
"""Apply every seeded change in turn, run the checks of the property it breaks, undo it, and record who caught what.
usage: tools/mutants.py [reverts|seeded|all] [tier] [--in-repo]     writes seeded/RESULTS.json and seeded/RESULTS.md

By default the change is applied to a scratch worktree of /repo's HEAD (/tmp/nv-mutrepo, removed at the end) and the checks run
with NV_REPO pointing there and NV_OUT=/tmp/nv-mutout, so that neither /repo nor /verif/evidence is disturbed; with --in-repo
the change is applied to /repo itself (git -C /repo apply ...; git -C /repo checkout -- .), the way a reviewer would do it."""
import glob
import json
import os
import subprocess
import sys
import time

ROOT = os.path.dirname(os.path.dirname(os.path.abspath(__file__)))
args = [a for a in sys.argv[1:] if not a.startswith("--")]
in_repo = "--in-repo" in sys.argv
which = args[0] if len(args) > 0 else "all"
tier = args[1] if len(args) > 1 else "quick"
only = args[2].split(",") if len(args) > 2 else None
TREE = "/repo" if in_repo else os.environ.get("MUT_TREE", "/tmp/nv-mutrepo")
env = dict(os.environ)
if not in_repo:
    subprocess.run(["git", "-C", "/repo", "worktree", "remove", "--force", TREE], capture_output=True)
    subprocess.run(["git", "-C", "/repo", "worktree", "add", "--detach", TREE, "HEAD", "-q"], check=True)
    env.update(NV_REPO=TREE, NV_OUT=os.environ.get("MUT_OUT", "/tmp/nv-mutout"))
items = []
if which in ("reverts", "all"):
    for ln in open(os.path.join(ROOT, "known_findings.jsonl")):
        f = json.loads(ln)
        if f.get("status") == "fixed":
            d = os.path.join(ROOT, "seeded", "reverts", "revert-%s.diff" % f["commit"])
            if os.path.exists(d):
                items.append({"id": "revert-%s (%s)" % (f["commit"], f["key"]), "patch": d, "props": [f["property"]], "what": f["what"]})
if which in ("seeded", "all"):
    for meta in sorted(glob.glob(os.path.join(ROOT, "seeded", "*", "meta.json"))):
        m = json.load(open(meta))
        items.append({"id": os.path.basename(os.path.dirname(meta)), "patch": os.path.join(os.path.dirname(meta), "patch.diff"), "props": m.get("run_checks") or [m["property"]],
                      "what": m.get("needs", "")})
res_path = os.environ.get("MUT_RESULTS", os.path.join(ROOT, "seeded", "RESULTS.json"))      # (a second instance on another subset writes its own file)
results = json.load(open(res_path)) if os.path.exists(res_path) else {}
assert subprocess.run(["git", "-C", TREE, "status", "--porcelain", "--", "src"], capture_output=True, text=True).stdout.strip() == "", TREE + " has local changes"
if only:
    items = [it for it in items if any(o in it["id"] for o in only)]
for it in items:
    ap = subprocess.run(["git", "-C", TREE, "apply", it["patch"]], capture_output=True, text=True)
    if ap.returncode != 0:
        results[it["id"]] = {"error": "patch does not apply: " + ap.stderr[:200]}
        continue
    try:
        out = {}
        for p in it["props"]:
            t0 = time.time()
            cp = subprocess.run([os.path.join(ROOT, "check"), p, "--tier", tier], cwd=ROOT, capture_output=True, text=True, env=env)
            lines = [l for l in cp.stdout.splitlines() if l.startswith("VIOLATION") or "violation(s) in total" in l or l.startswith("MACHINERY")]
            out[p] = {"exit": cp.returncode, "wall_s": round(time.time() - t0), "summary": (lines[-1] if lines else cp.stdout.splitlines()[-1] if cp.stdout else "")[:300]}
            print(it["id"], p, "exit", cp.returncode, out[p]["summary"][:160], flush=True)
        results[it["id"]] = {"what": it["what"][:200], "tier": tier, "checks": out, "caught": any(v["exit"] == 1 for v in out.values())}
    finally:
        subprocess.run(["git", "-C", TREE, "checkout", "--", "."], check=True)
    json.dump(results, open(res_path, "w"), indent=1)
with open(os.path.join(ROOT, "seeded", "RESULTS.md") if "MUT_RESULTS" not in os.environ else res_path + ".md", "w") as fh:
    fh.write("| seeded change | breaks | checks run (exit) | caught |\n|---|---|---|---|\n")
    for k, v in results.items():
        if "checks" in v:
            fh.write("| %s | %s | %s | %s |\n" % (k, v["what"][:110].replace("|", "/"), ", ".join("%s (%d)" % (p, c["exit"]) for p, c in v["checks"].items()), "yes" if v["caught"] else "**NO**"))
        else:
            fh.write("| %s | %s | - | - |\n" % (k, v.get("error", "")))
if not in_repo:
    subprocess.run(["git", "-C", "/repo", "worktree", "remove", "--force", TREE], capture_output=True)
    subprocess.run(["rm", "-rf", env["NV_OUT"]])
print("done")

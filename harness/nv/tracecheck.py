"""Generic batch trace validation: write ndjson, run the Trace_* module under TLC, collect total verdicts.

Trace modules follow one protocol: every trace ends with exactly one line
  <<"ACCEPT", tid, n>>   or   <<"REJECT", tid, line, "op", "clause">>
optionally preceded by <<"DRIFT", tid, line, ...>> / <<"NOTE", tid, line, ...>> lines."""
import json
import os
import random
import re

from .core import Machinery

_V = re.compile(r'^<<"(ACCEPT|REJECT)", (\d+), (\d+)(?:, "([\w.\-]*)", "([^"]*)")?>>$')


def validate(ctx, module, cfgtext, traces, label, on_reject, batch=300, payload=lambda t: {"init": t["init"], "ev": t["ev"]},
             on_drift=None, timeout=3000, count=True):
    rejected = 0
    for b0 in range(0, len(traces), batch):
        part = traces[b0:b0 + batch]
        path = os.path.join(ctx.scratch, "%s-%d.ndjson" % (module, random.getrandbits(30)))
        with open(path, "w") as fh:
            for t in part:
                fh.write(json.dumps(payload(t)) + "\n")
        res = ctx.tlc(module, cfgtext, what="%s[%s,%d]" % (module, label, b0), env={"TRACE_FILE": path}, timeout=timeout, count=count)
        os.remove(path)
        if res.violated:
            raise Machinery("%s[%s]: %s\n%s" % (module, label, res.violated, res.out[-1500:]))
        verdict = {}
        for ln in res.printed:
            m = _V.match(ln)
            if m:
                verdict[int(m.group(2))] = (m.group(1), int(m.group(3)), m.group(4), m.group(5))
            elif ln.startswith('<<"DRIFT"') and on_drift:
                on_drift(ln)
        if len(verdict) != len(part):
            raise Machinery("%s[%s]: %d verdicts for %d traces\n%s" % (module, label, len(verdict), len(part), res.out[-2000:]))
        for tid, (v, line, op, clause) in sorted(verdict.items()):
            if count:
                ctx.traces += 1
            if v == "REJECT":
                rejected += 1
                on_reject(part[tid - 1], line, op, clause)
    return rejected

"""Fixture discovery and parallel helpers."""
import glob
import os
import warnings
from concurrent.futures import ProcessPoolExecutor

from .core import DATA, REPO

TEMPLATE = os.path.join(REPO, "src", "numbers_parser", "data", "empty.numbers")


def all_numbers_files():
    out = sorted(glob.glob(os.path.join(DATA, "*.numbers")))
    return out


def _try_open(path):
    warnings.simplefilter("error")
    try:
        from numbers_parser import Document
        Document(path)
        return (path, "ok")
    except Warning as w:
        return (path, "warn:" + type(w).__name__ + ":" + str(w)[:80])
    except Exception as e:  # noqa: BLE001
        return (path, "exc:" + type(e).__name__)


def classify_fixtures(workers=16):
    """-> dict path -> 'ok' | 'warn:...' | 'exc:...' (opened with warnings as errors)."""
    paths = all_numbers_files()
    with ProcessPoolExecutor(workers) as ex:
        return dict(ex.map(_try_open, paths))


def readable_fixtures(workers=16):
    """Fixtures that open without any warning (hence without an unsupported-version warning)."""
    return [p for p, r in sorted(classify_fixtures(workers).items()) if r == "ok"]


def _limit_worker():
    """a worker that runs away in memory (a changed library may do that) must fail with MemoryError inside the call - where it is
    recorded like any other exception - instead of being killed by the kernel, which would take the whole run down"""
    import resource
    lim = 8 * 2 ** 30
    try:
        resource.setrlimit(resource.RLIMIT_AS, (lim, lim))
    except (ValueError, OSError):
        pass
    # a worker must not outlive a check that was killed (it would sit on its memory): die with the parent
    try:
        import ctypes
        import signal
        ctypes.CDLL("libc.so.6", use_errno=True).prctl(1, signal.SIGKILL)      # PR_SET_PDEATHSIG
    except Exception:  # noqa: BLE001
        pass


def pmap(fn, items, workers=16, chunksize=1):
    if workers <= 1 or len(items) <= 1:
        return [fn(x) for x in items]
    with ProcessPoolExecutor(workers, initializer=_limit_worker) as ex:
        return list(ex.map(fn, items, chunksize=chunksize))


def _formulas_of(path):
    warnings.simplefilter("ignore")
    from numbers_parser import Document
    out = []
    try:
        doc = Document(path)
        for sh in doc.sheets:
            for tb in sh.tables:
                for row in tb.rows():
                    for c in row:
                        try:
                            if c.is_formula:
                                out.append(c.formula)
                        except Exception as e:  # noqa: BLE001
                            out.append(("EXC", type(e).__name__, os.path.basename(path), sh.name, tb.name, c.row, c.col))
    except Exception as e:  # noqa: BLE001
        return [("OPEN-EXC", type(e).__name__, os.path.basename(path))]
    return out


def collect_formulas(paths, workers=16):
    res = pmap(_formulas_of, paths, workers)
    texts, errors = [], []
    for lst in res:
        for f in lst:
            if isinstance(f, tuple):
                errors.append(f)
            elif f is not None:
                texts.append(f)
    return texts, errors


def iwa_members(path):
    """All IWA members of a document (zip file, package folder with Index/ or with Index.zip): list of (name, bytes)."""
    import io
    import zipfile
    out = []

    def from_zip(zf, prefix=""):
        for n in zf.namelist():
            if n.endswith(".iwa"):
                out.append((prefix + n, zf.read(n)))
            elif n.endswith("Index.zip"):
                from_zip(zipfile.ZipFile(io.BytesIO(zf.read(n))), prefix + n + "!")
    if os.path.isdir(path):
        for root, _, files in os.walk(path):
            for f in sorted(files):
                p = os.path.join(root, f)
                if f.endswith(".iwa"):
                    with open(p, "rb") as fh:
                        out.append((os.path.relpath(p, path), fh.read()))
                elif f == "Index.zip":
                    from_zip(zipfile.ZipFile(p), "Index.zip!")
    else:
        from_zip(zipfile.ZipFile(path))
    return out

"""Check context: scratch dir, TLC accounting, failure collection, known findings, evidence, exit code."""
import json
import os
import shutil
import sys
import tempfile
import time
import traceback

from . import tlc as _tlc

ROOT = os.path.dirname(os.path.dirname(os.path.dirname(os.path.abspath(__file__))))
REPO = os.environ.get("NV_REPO", "/repo")
DATA = os.path.join(REPO, "tests", "data")
# where evidence/ and replays/ are written: /verif itself, except for mutant runs (tools/mutants.py) which must not overwrite
# the evidence of the real tree
OUT = os.environ.get("NV_OUT", ROOT)


class Machinery(Exception):
    """The verification machinery itself failed (exit 2); says nothing about the property."""


def load_findings():
    out = []
    p = os.path.join(ROOT, "known_findings.jsonl")
    if os.path.exists(p):
        with open(p) as fh:
            lines = fh.read().splitlines()
        for ln in lines:
            ln = ln.strip()
            if ln and not ln.startswith("#"):
                out.append(json.loads(ln))
    return out


def _match(pattern, key):
    """Structural match: every item of pattern must be present in key with an equal value
    (lists in pattern: value must be one of)."""
    for k, v in pattern.items():
        if k not in key:
            return False
        if isinstance(v, list):
            if key[k] not in v:
                return False
        elif key[k] != v:
            return False
    return True


class Ctx:
    def __init__(self, pid, tier, seed):
        self.pid = pid
        self.tier = tier
        self.seed = seed
        self.t0 = time.time()
        self.scratch = tempfile.mkdtemp(prefix="nv-%s-" % pid)
        self.states = 0
        self.transitions = 0
        self.traces = 0
        self.evaluations = 0
        self.distinct = set()
        self.distinct_n = 0
        self.samples = []
        self.failures = []  # (key dict, message, replay obj)
        self.drift = []
        self.notes = []
        self.tlc_runs = []
        self.bug_demos = []
        self.extra = {}
        self.rule = ""
        self.assumptions = []
        self.exhaustive = None
        self.budget = float(os.environ.get("VERIF_BUDGET_S", "120" if tier == "quick" else "1200"))
        self.workers = int(os.environ.get("NV_WORKERS", "16"))

    # ---- accounting
    @property
    def quick(self):
        return self.tier == "quick"

    def elapsed(self):
        return time.time() - self.t0

    def left(self):
        return self.budget - self.elapsed()

    def sample(self, x, cap=6):
        if len(self.samples) < cap:
            self.samples.append(x)

    def count(self, n=1, distinct_key=None, nontrivial=True):
        self.evaluations += n
        if distinct_key is not None and nontrivial:
            self.distinct.add(distinct_key)

    def count_distinct(self, n):
        self.distinct_n += n

    # ---- TLC
    def tlc(self, module, cfg, what=None, expect_violation=None, count=True, **kw):
        kw.setdefault("workers", self.workers)
        allow = kw.pop("allow_violation", False)
        res = _tlc.run(module, cfg, self.scratch, **kw)
        kw["allow_violation"] = allow
        what = what or "%s/%s" % (module, cfg if "\n" not in cfg else "inline")
        rec = {"what": what, "generated": res.generated, "distinct": res.distinct, "diameter": res.diameter,
               "wall_s": round(res.wall, 1), "violated": res.violated}
        if res.coverage:
            rec["actions"] = {k: v[1] for k, v in res.coverage.items()}
        self.tlc_runs.append(rec)
        if count:
            self.states += res.distinct
            self.transitions += res.generated
        if res.timed_out:
            raise Machinery("%s: TLC timed out (%.0fs)" % (what, res.wall))
        if expect_violation is not None:
            if res.violated is None:
                raise Machinery("%s: expected TLC to find a violation of %s (anti-vacuity), none found\n%s"
                                % (what, expect_violation, res.out[-800:]))
            if expect_violation is not True and res.violated != expect_violation:
                raise Machinery("%s: expected violation of %s, got %s" % (what, expect_violation, res.violated))
            self.bug_demos.append({"config": what, "violated": res.violated})
            return res
        if res.violated is not None and not kw.get("allow_violation"):
            # a specification that violates its own invariants decides nothing: never pass silently
            raise Machinery("%s: TLC reports %s violated by the specification itself\n%s" % (what, res.violated, res.out[-2500:]))
        if res.violated is None and res.exit != 0:
            raise Machinery("%s: TLC failed (exit %s)\n%s" % (what, res.exit, res.error_text or res.out[-2000:]))
        shutil.rmtree(getattr(res, "work", ""), ignore_errors=True)
        return res

    def require_actions(self, res, names):
        missing = [n for n in names if res.coverage.get(n, (0, 0))[1] == 0]
        if missing:
            raise Machinery("vacuity: actions never taken: %s" % missing)

    # ---- verdicts
    def fail(self, key, msg, replay=None):
        self.failures.append((dict(key), msg, replay))

    def stage(self, name):
        now = time.time()
        if getattr(self, "_stage", None):
            self.extra.setdefault("stages_s", {})[self._stage[0]] = round(now - self._stage[1], 1)
        self._stage = (name, now)
        if os.environ.get("NV_DEBUG_MEM"):
            import resource
            print("STAGE %s at %.0fs, peak RSS of the main process %d MB" % (name, now - self.t0 if hasattr(self, "t0") else 0,
                                                                              resource.getrusage(resource.RUSAGE_SELF).ru_maxrss // 1024), flush=True)

    def note(self, msg):
        self.notes.append(msg)

    def drifted(self, msg):
        if len(self.drift) < 50:
            self.drift.append(msg)
        self.extra["drift_count"] = self.extra.get("drift_count", 0) + 1

    # ---- finish
    def finish(self):
        self.stage(None)
        findings = [f for f in load_findings() if f.get("property") == self.pid]
        open_f = [f for f in findings if f.get("status") == "open"]
        known_seen = {}
        violations = []
        for key, msg, replay in self.failures:
            hit = None
            for f in open_f:
                if _match(f.get("match", {}), key):
                    hit = f
                    break
            if hit is not None:
                known_seen.setdefault(hit["key"], [hit, 0])[1] += 1
            else:
                violations.append((key, msg, replay))
        for k, (f, n) in sorted(known_seen.items()):
            print("KNOWN-FINDING: property=%s %s [%s; %d occurrence(s) this run]" % (self.pid, f["what"], k, n))
        for f in findings:
            if f.get("status") == "fixed":
                self.notes.append("fixed: property=%s %s %s" % (self.pid, f.get("commit", "?"), f["what"]))
        rdir = os.path.join(OUT, "replays")
        os.makedirs(rdir, exist_ok=True)
        import glob as _glob
        for old in _glob.glob(os.path.join(rdir, "%s-%s-*.json" % (self.pid, self.tier))):
            os.remove(old)
        shown = {}
        for i, (key, msg, replay) in enumerate(violations):
            kk = json.dumps({k: v for k, v in key.items() if k not in ("detail",)}, sort_keys=True, default=str)
            cls = key.get("clause", key.get("engine", "?"))
            shown[cls] = shown.get(cls, 0) + 1
            if shown[cls] > 8:
                continue
            path = os.path.join(rdir, "%s-%s-%d.json" % (self.pid, self.tier, i))
            with open(path, "w") as fh:
                json.dump({"property": self.pid, "key": key, "message": msg, "replay": replay, "seed": self.seed},
                          fh, indent=1, default=str)
            print("VIOLATION property=%s replay=%s" % (self.pid, path))
            print("  %s :: %s" % (kk, msg[:600]))
        if violations:
            import collections as _c
            cls = _c.Counter((k.get("clause", "?"), k.get("op", k.get("exc", "?")), k.get("where", "")) if k.get("where") else (k.get("clause", "?"), k.get("op", "?")) for k, _, _ in violations)
            print("  (%d violation(s) in total; by clause/op: %s)" % (len(violations), dict(cls)))
        for d in self.drift[:10]:
            print("DRIFT property=%s %s" % (self.pid, d[:300]))
        cov = {
            "states": int(self.states),
            "transitions": int(self.transitions),
            "traces_validated_against_impl": int(self.traces),
            "samples": self.samples or ["(none)"],
            "evaluations": int(self.evaluations),
            "distinct_nontrivial": int(len(self.distinct) + self.distinct_n),
            "rule": self.rule,
            "tlc_runs": self.tlc_runs,
            "spec_mutants_caught": self.bug_demos,
            "drift": self.extra.get("drift_count", 0),
            "known_findings_seen": sorted(known_seen),
            "notes": self.notes[:40],
        }
        if self.exhaustive is not None:
            cov["exhaustive"] = bool(self.exhaustive)
        for k, v in self.extra.items():
            cov.setdefault(k, v)
        ev = {
            "property_id": self.pid,
            "tier": self.tier,
            "seed": int(self.seed),
            "level": "model_checking",
            "coverage": cov,
            "assumptions": self.assumptions,
            "wall_s": round(self.elapsed(), 2),
            "violations": len(violations),
        }
        os.makedirs(os.path.join(OUT, "evidence"), exist_ok=True)
        with open(os.path.join(OUT, "evidence", self.pid + ".json"), "w") as fh:
            json.dump(ev, fh, indent=1, default=str)
        print("%s %s: states=%d transitions=%d traces=%d evaluations=%d violations=%d known=%d drift=%d wall=%.1fs"
              % (self.pid, self.tier, self.states, self.transitions, self.traces, self.evaluations,
                 len(violations), len(known_seen), self.extra.get("drift_count", 0), self.elapsed()))
        return 1 if violations else 0

    def cleanup(self):
        shutil.rmtree(self.scratch, ignore_errors=True)


def main(argv=None):
    import argparse
    import importlib
    ap = argparse.ArgumentParser()
    ap.add_argument("prop")
    ap.add_argument("--tier", default=os.environ.get("VERIF_TIER", "quick"), choices=["quick", "thorough"])
    ap.add_argument("--replay", default=None)
    a = ap.parse_args(argv)
    seed = int(os.environ.get("VERIF_SEED", "0") or 0)
    pid = a.prop.upper()
    import warnings
    warnings.filterwarnings("ignore")
    warnings.showwarning = lambda *a_, **k_: None      # library warnings are observed explicitly where they matter
    ctx = Ctx(pid, a.tier, seed)
    try:
        mod = importlib.import_module("nv.props." + pid.lower())
        if a.replay:
            rc = mod.replay(ctx, json.load(open(a.replay)))
            return rc
        mod.run(ctx)
        return ctx.finish()
    except Machinery as ex:
        print("MACHINERY-FAILURE property=%s %s" % (pid, ex))
        return 2
    except Exception:
        traceback.print_exc()
        print("MACHINERY-FAILURE property=%s unexpected exception in harness" % pid)
        return 2
    finally:
        ctx.cleanup()

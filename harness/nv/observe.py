"""Observation of a whole document: everything C02 says must be preserved (also used by C06, C07)."""
import hashlib
import json
import warnings

from .wb import canon


def _try(fn):
    try:
        return fn()
    except Exception as e:  # noqa: BLE001
        return "EXC:" + type(e).__name__


def cell_record(c):
    from numbers_parser import MergedCell
    typ = type(c).__name__
    rec = {"t": typ, "v": canon(c.value) if typ != "MergedCell" else "e"}
    isf = _try(lambda: bool(c.is_formula))
    rec["f"] = _try(lambda: c.formula) if isf is True else (None if isf is False else isf)
    rec["fv"] = _try(lambda: c.formatted_value)
    if typ == "RichTextCell":
        rec["b"] = _try(lambda: list(c.bullets))
        rec["h"] = _try(lambda: [list(x) for x in c.hyperlinks] if c.hyperlinks else None)
        rec["bb"] = _try(lambda: c.formatted_bullets if c.is_bulleted else None)
    if isinstance(c, MergedCell):
        rec["m"] = ["p", list(c.rect) if c.rect else None]
    elif c.is_merged:
        rec["m"] = ["a", list(c.size)]
    return rec


def dgst(x):
    return hashlib.sha256(json.dumps(x, sort_keys=True, default=str).encode()).hexdigest()[:12]


def observe_doc(doc, max_cells=400000):
    """-> {"sheets": [{"name", "tables": [{"name","nr","nc","cells": [[r,c,rec]...], "merges": [...]}]}]}"""
    warnings.simplefilter("ignore")
    out = []
    for sh in doc.sheets:
        tabs = []
        for tb in sh.tables:
            cells = []
            if tb.num_rows * tb.num_cols <= max_cells:
                for r, row in enumerate(tb.rows()):
                    for c, cell in enumerate(row):
                        rec = cell_record(cell)
                        if rec != {"t": "EmptyCell", "v": "e", "f": None, "fv": ""}:
                            cells.append([r, c, rec])
            tabs.append({"name": tb.name, "nr": tb.num_rows, "nc": tb.num_cols, "cells": cells, "merges": _try(lambda: list(tb.merge_ranges))})
        out.append({"name": sh.name, "tables": tabs})
    return {"sheets": out}


COMPONENTS = ["values", "formulas", "formatted", "rich", "merges"]


def summarize(obs, exempt_cells=(), exempt_tables=()):
    """-> the digest-level observation used by the TLA+ judge: per table five component digests.
    exempt_cells: set of (sheet name, table name, r, c); exempt_tables: set of table names"""
    sheets = []
    for sh in obs["sheets"]:
        tabs = []
        for tb in sh["tables"]:
            if tb["name"] in exempt_tables:
                tabs.append({"name": "h:" + dgst(tb["name"]), "nr": tb["nr"], "nc": tb["nc"], "values": "exempt", "formulas": "exempt", "formatted": "exempt",
                             "rich": "exempt", "merges": "exempt"})
                continue
            cells = [x for x in tb["cells"] if (sh["name"], tb["name"], x[0], x[1]) not in exempt_cells]
            tabs.append({"name": "h:" + dgst(tb["name"]), "nr": tb["nr"], "nc": tb["nc"],
                         "values": dgst([[r, c, rec["t"], rec["v"]] for r, c, rec in cells]),
                         "formulas": dgst([[r, c, rec["f"]] for r, c, rec in cells]),
                         "formatted": dgst([[r, c, rec["fv"]] for r, c, rec in cells]),
                         "rich": dgst([[r, c, rec.get("b"), rec.get("h"), rec.get("bb")] for r, c, rec in cells]),
                         "merges": dgst([tb["merges"], [[r, c, rec.get("m")] for r, c, rec in cells if rec.get("m")]])})
        sheets.append({"name": "h:" + dgst(sh["name"]), "tables": tabs})
    return sheets


def diff(a, b, exempt_cells=(), limit=5):
    """human readable cell-level differences between two observations"""
    out = []
    if [s["name"] for s in a["sheets"]] != [s["name"] for s in b["sheets"]]:
        return ["sheet names/order %s vs %s" % ([s["name"] for s in a["sheets"]], [s["name"] for s in b["sheets"]])]
    for sa, sb in zip(a["sheets"], b["sheets"]):
        if [t["name"] for t in sa["tables"]] != [t["name"] for t in sb["tables"]]:
            out.append("sheet %r: table names/order differ" % sa["name"])
            continue
        for ta, tb in zip(sa["tables"], sb["tables"]):
            if (ta["nr"], ta["nc"]) != (tb["nr"], tb["nc"]):
                out.append("%s/%s: dimensions %s vs %s" % (sa["name"], ta["name"], (ta["nr"], ta["nc"]), (tb["nr"], tb["nc"])))
            da = {(r, c): rec for r, c, rec in ta["cells"]}
            db = {(r, c): rec for r, c, rec in tb["cells"]}
            for k in sorted(set(da) | set(db)):
                if (sa["name"], ta["name"], k[0], k[1]) in exempt_cells:
                    continue
                if da.get(k) != db.get(k):
                    ra, rb = da.get(k) or {}, db.get(k) or {}
                    fields = [f for f in set(ra) | set(rb) if ra.get(f) != rb.get(f)]
                    out.append("%s/%s[%d,%d] %s: %s -> %s" % (sa["name"], ta["name"], k[0], k[1], fields,
                                                              {f: ra.get(f) for f in fields}, {f: rb.get(f) for f in fields}))
                    if len(out) >= limit:
                        return out
            if ta["merges"] != tb["merges"]:
                out.append("%s/%s: merge_ranges %s vs %s" % (sa["name"], ta["name"], ta["merges"], tb["merges"]))
    return out

"""Parser / printer for the TLA+ values TLC prints (PrintT, -dump, -simulate files)."""
import re

_num = re.compile(r"-?\d+")
_ident = re.compile(r"[A-Za-z_][A-Za-z_0-9]*")


class ParseError(Exception):
    pass


def parse(s, pos=0, want_end=True):
    """Parse one TLA+ value from s. Sequences -> list, records -> dict, sets -> frozenset-like
    list tagged as ('set', [...]), functions (a :> b @@ ...) -> dict, strings, ints, booleans."""
    n = len(s)

    def ws(p):
        while p < n and s[p] in " \t\r\n":
            p += 1
        return p

    def val(p):
        p = ws(p)
        if p >= n:
            raise ParseError("eof")
        c = s[p]
        if s.startswith("<<", p):
            p = ws(p + 2)
            out = []
            while not s.startswith(">>", p):
                v, p = val(p)
                out.append(v)
                p = ws(p)
                if p < n and s[p] == ",":
                    p += 1
                p = ws(p)
            return out, p + 2
        if c == "[":
            p = ws(p + 1)
            d = {}
            if s[p] == "]":
                return d, p + 1
            while True:
                p = ws(p)
                m = _ident.match(s, p)
                if not m:
                    raise ParseError("record field at %d: %r" % (p, s[p:p + 30]))
                k = m.group(0)
                p = ws(m.end())
                if not s.startswith("|->", p):
                    raise ParseError("expected |-> at %d" % p)
                v, p = val(p + 3)
                d[k] = v
                p = ws(p)
                if s[p] == ",":
                    p += 1
                    continue
                if s[p] == "]":
                    return d, p + 1
                raise ParseError("record sep at %d" % p)
        if c == "{":
            p = ws(p + 1)
            out = []
            while s[p] != "}":
                v, p = val(p)
                out.append(v)
                p = ws(p)
                if s[p] == ",":
                    p += 1
                p = ws(p)
            return ("set", out), p + 1
        if c == "(":
            # function  (k :> v @@ k :> v)
            p = ws(p + 1)
            d = {}
            while True:
                k, p = val(p)
                p = ws(p)
                if not s.startswith(":>", p):
                    raise ParseError("expected :> at %d" % p)
                v, p = val(p + 2)
                d[_hashable(k)] = v
                p = ws(p)
                if s.startswith("@@", p):
                    p += 2
                    continue
                if s[p] == ")":
                    return d, p + 1
                raise ParseError("function sep at %d" % p)
        if c == '"':
            q = p + 1
            buf = []
            while s[q] != '"':
                if s[q] == "\\":
                    q += 1
                    buf.append({"n": "\n", "t": "\t", "r": "\r"}.get(s[q], s[q]))
                else:
                    buf.append(s[q])
                q += 1
            return "".join(buf), q + 1
        m = _num.match(s, p)
        if m:
            return int(m.group(0)), m.end()
        m = _ident.match(s, p)
        if m:
            w = m.group(0)
            if w == "TRUE":
                return True, m.end()
            if w == "FALSE":
                return False, m.end()
            return ("id", w), m.end()
        raise ParseError("unexpected %r at %d" % (s[p:p + 20], p))

    v, p = val(pos)
    if want_end and ws(p) != n:
        raise ParseError("trailing input at %d: %r" % (p, s[p:p + 40]))
    return v


def _hashable(v):
    if isinstance(v, list):
        return tuple(_hashable(x) for x in v)
    if isinstance(v, dict):
        return tuple(sorted((k, _hashable(x)) for k, x in v.items()))
    return v


def to_tla(v):
    """Python -> TLA+ text (lists -> sequences, dict -> record, set/frozenset -> set)."""
    if isinstance(v, bool):
        return "TRUE" if v else "FALSE"
    if isinstance(v, int):
        return str(v)
    if isinstance(v, str):
        return '"' + v.replace("\\", "\\\\").replace('"', '\\"') + '"'
    if isinstance(v, (list, tuple)):
        return "<<" + ", ".join(to_tla(x) for x in v) + ">>"
    if isinstance(v, (set, frozenset)):
        return "{" + ", ".join(sorted(to_tla(x) for x in v)) + "}"
    if isinstance(v, dict):
        return "[" + ", ".join("%s |-> %s" % (k, to_tla(x)) for k, x in v.items()) + "]"
    raise TypeError(type(v))


def parse_dump(text):
    """Parse a TLC `-dump` file: yields dicts var -> value, one per state."""
    for blk in re.split(r"^State \d+:\n", text, flags=re.M)[1:]:
        yield parse_state_body(blk)


def parse_state_body(body):
    out = {}
    parts = re.split(r"(?:^|\n)/\\ ", "\n" + body.strip())
    for part in parts:
        part = part.strip()
        if not part:
            continue
        m = re.match(r"(\w+) = (.*)\Z", part, re.S)
        if not m:
            continue
        out[m.group(1)] = parse(m.group(2).strip())
    return out


def parse_sim_file(text):
    """Parse a `-simulate file=` behaviour file: list of (action_name, state dict)."""
    out = []
    for m in re.finditer(r"\\\* <?([\w ]*?)(?: line.*?)?>?\n?STATE_(\d+) ==\s*\n?(.*?)(?=\n\n|\n\\\*|\n=====|\Z)", text, re.S):
        out.append((m.group(1).strip(), parse_state_body(m.group(3))))
    return out

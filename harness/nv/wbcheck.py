"""Shared machinery for the Workbook.tla based checks: config text, history generation with TLC
(-dump / -simulate), parallel replay into the real library, trace validation with Trace_Workbook."""
import glob
import json
import os
import random
import re
import shutil
from concurrent.futures import ProcessPoolExecutor

from . import tlaval, wb
from .core import Machinery

PROPS = ["SaveIsStutter", "Frame", "TableFrame", "ReopenEqualsSaved", "RefusedChangesNothing", "ExactGrowth",
         "AddKeepsUnique", "AutoNameFresh"]
ALL_OPS = ["write", "addrow", "addcol", "delrow", "delcol", "addtable", "addsheet", "rename", "save", "open", "newdoc"]


def tla_set(xs):
    return "{" + ", ".join(('"%s"' % x) if isinstance(x, str) else str(x) for x in xs) + "}"


def cfg(handles=(1,), files=("f",), vals=("a", "b"), names=("T1", "t1", "T2", "X"), maxr=2, maxc=2, limr=4, limc=4,
        maxt=2, maxs=1, rowargs=None, colargs=None, counts=(1, 2), defaults=("a", "e"), ops=None, depth=5,
        view=True, spec="Spec", props=True, extra=""):
    rowargs = rowargs if rowargs is not None else list(range(1, maxr + 1))
    colargs = colargs if colargs is not None else list(range(1, maxc + 1))
    ops = ops or ["write", "addrow", "addcol", "delrow", "delcol", "addtable", "save", "open"]
    lines = ["CONSTANTS Handles = %s" % tla_set(handles), "Files = %s" % tla_set(files), "Vals = %s" % tla_set(vals),
             "Names = %s" % tla_set(names), "MaxR = %d" % maxr, "MaxC = %d" % maxc, "LimR = %d" % limr, "LimC = %d" % limc,
             "MaxT = %d" % maxt, "MaxS = %d" % maxs, "RowArgs = %s" % tla_set(rowargs), "ColArgs = %s" % tla_set(colargs),
             "Counts = %s" % tla_set(counts), "Defaults = %s" % tla_set(defaults), "OpsOn = %s" % tla_set(ops), "D = %d" % depth,
             "SPECIFICATION %s" % spec, "CONSTRAINT Depth", "CHECK_DEADLOCK FALSE"]
    if view:
        lines.append("VIEW NoHist")
    if props:
        lines += ["INVARIANT Rect", "INVARIANT DiskRect"] + ["PROPERTY %s" % p for p in PROPS]
    return "\n".join(lines) + "\n" + extra


def histories_from_dump(ctx, cfgtext, what):
    """All bounded behaviours as (ops, expected docs after each op): hist is part of the state, so each
    distinct history is a distinct state of the dump."""
    dump = os.path.join(ctx.scratch, "dump-%d" % random.getrandbits(30))
    res = ctx.tlc("Workbook", cfgtext, what=what, dump=dump, timeout=3000)
    if res.violated:
        raise Machinery("%s: property %s violated in the generator config" % (what, res.violated))
    text = open(dump + ".dump").read() if os.path.exists(dump + ".dump") else open(dump).read()
    states = list(tlaval.parse_dump(text))
    for f in glob.glob(dump + "*"):
        os.remove(f)
    by_hist = {}
    for st in states:
        by_hist[json.dumps(st["hist"], sort_keys=True)] = st
    out = []
    prefixes = set()
    for st in states:
        h = st["hist"]
        if h:
            prefixes.add(json.dumps(h[:-1], sort_keys=True))
    for key, st in by_hist.items():
        h = st["hist"]
        if not h or key in prefixes:
            continue      # not maximal: covered as a prefix of a longer history
        exp = []
        for i in range(1, len(h) + 1):
            pst = by_hist.get(json.dumps(h[:i], sort_keys=True))
            exp.append(_docs_list(pst["docs"]) if pst else None)
        out.append((h, exp))
    out.sort(key=lambda x: json.dumps(x[0], sort_keys=True))     # TLC's dump order depends on worker scheduling
    return out, len(states)


def _docs_list(docs):
    """TLC function value for docs (1 :> .. @@ 2 :> ..  or <<..>>) -> list indexed by handle-1"""
    if isinstance(docs, dict):
        return [docs[k] for k in sorted(docs)]
    return docs


def histories_from_simulation(ctx, cfgtext, what, num, depth, seed):
    d = os.path.join(ctx.scratch, "sim-%d" % random.getrandbits(30))
    os.makedirs(d)
    res = ctx.tlc("Workbook", cfgtext, what=what, simulate="file=%s/b,num=%d" % (d, num), depth=depth, seed=seed,
                  workers=1, timeout=1200)
    if res.violated:
        raise Machinery("%s: property %s violated in simulation" % (what, res.violated))
    out = []
    for fn in sorted(glob.glob(d + "/b_*")):
        sts = tlaval.parse_sim_file(open(fn).read())
        if not sts:
            continue
        last = sts[-1][1]
        h = last["hist"]
        exp = [None] * len(h)
        for _, st in sts:
            n = len(st["hist"])
            if 1 <= n <= len(h):
                exp[n - 1] = _docs_list(st["docs"])
        if h:
            out.append((h, exp))
    shutil.rmtree(d, ignore_errors=True)
    return out


# ------------------------------------------------------------------ replay (worker side)
def _replay_one(job):
    (idx, ops, exp, prof_kw, seed, scratch, nhandles) = job
    rng = random.Random(seed)
    profile = wb.Profile(rng, **prof_kw)
    trace, env = wb.run_history(scratch, profile, ops, nhandles=nhandles, tag="%d-%d" % (os.getpid(), idx))
    mism = []
    for i, e in enumerate(trace["ev"]):
        if e["out"] != ops[i].get("out", e["out"]):
            mism.append({"step": i + 1, "clause": "outcome", "want": ops[i].get("out"), "got": e.get("exc", e["out"])})
            break
        if exp and exp[i] is not None:
            got = wb.dense(e["post"])
            want = [d if d != [] else [] for d in exp[i]]
            if got != want:
                mism.append({"step": i + 1, "clause": "state", "want": want, "got": got})
                break
    for f in glob.glob(env.path("*")):
        os.remove(f)
    return idx, trace, mism


def replay(ctx, histories, prof_kw, nhandles=1, label="replay"):
    """Replay (ops, expected) pairs into the real library in parallel.  Returns the recorded traces.
    A direct mismatch against TLC's expected state is reported immediately (Level A, engine=replay)."""
    jobs = [(i, h, exp, prof_kw, ctx.seed * 1000003 + i, ctx.scratch, nhandles) for i, (h, exp) in enumerate(histories)]
    traces = [None] * len(jobs)
    with ProcessPoolExecutor(ctx.workers) as ex:
        for idx, trace, mism in ex.map(_replay_one, jobs, chunksize=8):
            traces[idx] = trace
            ctx.evaluations += 1
            for m in mism:
                ops = [{k: v for k, v in o.items()} for o in histories[idx][0]]
                ctx.fail({"engine": "replay", "clause": m["clause"], "label": label, "op": ops[m["step"] - 1]["op"],
                          "ops": "/".join(o["op"] for o in ops[:m["step"]])},
                         "history %s: step %d %s: spec %s, library %s" % (json.dumps(ops)[:400], m["step"], m["clause"],
                                                                          json.dumps(m["want"])[:300], json.dumps(m["got"])[:300]),
                         {"ops": ops, "profile": trace["profile"], "prof_kw": prof_kw, "nhandles": nhandles})
    return traces


# ------------------------------------------------------------------ trace validation
TRACE_CFG = """CONSTANTS Handles = %s
Files = %s
Vals = {"a"}
Names = {"T1"}
MaxR = 1
MaxC = 1
LimR = %d
LimC = %d
MaxT = 1
MaxS = 1
RowArgs = {1}
ColArgs = {1}
Counts = {1}
Defaults = {"e"}
OpsOn = {}
D = 1
SPECIFICATION TSpec
INVARIANT Done
CHECK_DEADLOCK FALSE
"""


def validate(ctx, traces, nhandles=1, files=("f",), limr=4, limc=4, label="traces", keyfn=None, batch=400):
    """Validate recorded traces with Trace_Workbook; every trace must end ACCEPT or REJECT (total verdicts)."""
    traces = [t for t in traces if t is not None]
    rejected = 0
    for b0 in range(0, len(traces), batch):
        part = traces[b0:b0 + batch]
        path = os.path.join(ctx.scratch, "wbtrace-%d.ndjson" % random.getrandbits(30))
        with open(path, "w") as fh:
            for t in part:
                fh.write(json.dumps({"init": t["init"], "ev": t["ev"]}) + "\n")
        res = ctx.tlc("Trace_Workbook", TRACE_CFG % (tla_set(range(1, nhandles + 1)), tla_set(files), limr, limc),
                      what="Trace_Workbook[%s,%d]" % (label, b0), env={"TRACE_FILE": path}, timeout=3000)
        os.remove(path)
        if res.violated:
            raise Machinery("Trace_Workbook: %s\n%s" % (res.violated, res.out[-1500:]))
        verdict = {}
        for ln in res.printed:
            m = re.match(r'^<<"(ACCEPT|REJECT)", (\d+), (\d+)(?:, "(\w+)", "([\w.\-]+)")?>>$', ln)
            if m:
                verdict[int(m.group(2))] = (m.group(1), int(m.group(3)), m.group(4), m.group(5))
        if len(verdict) != len(part):
            raise Machinery("Trace_Workbook[%s]: %d verdicts for %d traces\n%s" % (label, len(verdict), len(part), res.out[-1500:]))
        notes = [ln for ln in res.printed if ln.startswith('<<"NOTE"')]
        if notes:
            ctx.note("%s: %d events outside the documented domain (accepted unjudged), e.g. %s" % (label, len(notes), notes[0]))
        for tid, (v, l, op, clause) in verdict.items():
            t = part[tid - 1]
            ctx.traces += 1
            if v == "REJECT":
                rejected += 1
                ev = t["ev"][l - 1]
                key = {"engine": "trace", "clause": clause, "label": label, "op": op,
                       "ops": "/".join(e["op"] for e in t["ev"][:l])[-200:]}
                if keyfn:
                    key.update(keyfn(t, l))
                small = {k: v for k, v in ev.items() if k != "post"}
                ctx.fail(key, "trace rejected at event %d (%s): clause %s; event %s; post %s"
                         % (l, op, clause, json.dumps(small)[:300], json.dumps(ev.get("post"))[:400]),
                         {"ops": [{k: v for k, v in e.items() if k not in ("post",)} for e in t["ev"]],
                          "profile": t.get("profile"), "nhandles": nhandles, "meta": t.get("meta")})
    return rejected


def selftest(ctx):
    """Binding self-test: record a fixed real history, then corrupt one recorded field / drop one event;
    the intact trace must be accepted and both corrupted ones rejected."""
    import copy
    ops = [{"op": "write", "h": 1, "s": 1, "t": 1, "r": 1, "c": 1, "v": "a"},
           {"op": "write", "h": 1, "s": 1, "t": 1, "r": 2, "c": 2, "v": "b"},
           {"op": "addrow", "h": 1, "s": 1, "t": 1, "n": 1, "at": 1, "d": "e"},
           {"op": "save", "h": 1, "f": "f"}]
    trace, env = wb.run_history(ctx.scratch, wb.Profile(random.Random(1)), ops, tag="self")
    for f in glob.glob(env.path("*")):
        os.remove(f)
    t1 = copy.deepcopy(trace)
    t1["ev"][1]["post"][0][0]["tables"][0]["cells"][0][2] = "CORRUPT"
    t2 = copy.deepcopy(trace)
    del t2["ev"][0]
    saved = (ctx.failures, ctx.traces)
    ctx.failures = []
    validate(ctx, [trace], label="selftest-intact")
    n0 = len(ctx.failures)
    ctx.failures = []
    validate(ctx, [t1, t2], label="selftest-corrupt")
    n = len(ctx.failures)
    ctx.failures, ctx.traces = saved
    if n0 != 0 or n != 2:
        raise Machinery("binding self-test: intact trace rejected=%d, corrupted traces rejected=%d of 2" % (n0, n))
    ctx.extra["binding_selftest"] = "intact trace accepted; corrupted cell value and dropped event both rejected"
    return True

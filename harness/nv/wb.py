"""Driver for Workbook.tla: apply abstract ops to real Document objects, project the real objects
to the abstract state, record traces (used by C03, C11, C19 and the shape part of C01)."""
import os
import warnings
from datetime import datetime, timedelta

warnings.simplefilter("ignore")

TABLE_NAMES = {"T1": "Table 1", "t1": "TABLE 1", "T2": "Table 2", "t2": "table 2", "T3": "Table 3", "t3": "tAbLe 3",
               "T4": "Table 4", "T5": "Table 5", "T6": "Table 6", "T7": "Table 7", "X": "Größe é", "x": "GRÖßE É", "N0": ""}     # (ß: lower-casing keeps it, case folding makes it ss)
SHEET_NAMES = {"T1": "Sheet 1", "t1": "SHEET 1", "T2": "Sheet 2", "t2": "sheet 2", "T3": "Sheet 3", "t3": "sHeEt 3",
               "T4": "Sheet 4", "T5": "Sheet 5", "T6": "Sheet 6", "T7": "Sheet 7", "X": "Größe é", "x": "GRÖßE É", "N0": ""}
R_TABLE = {v: k for k, v in TABLE_NAMES.items()}
R_SHEET = {v: k for k, v in SHEET_NAMES.items()}
NONE_V = -99

VALUE_POOL = [
    "alpha", "béta\nline2", "😀 astral", "12", "", 7.5, 12, -3, 0.1, 1e-7, 123456789012345.0, 52, True, False,
    datetime(2020, 12, 25, 13, 45, 10), datetime(1999, 1, 1), timedelta(days=3, seconds=7, microseconds=250000),
    timedelta(seconds=-90), 0, "x" * 300,
]


def canon(v):
    """canonical token of a concrete cell value (equal tokens iff equal values of the same class)."""
    if v is None:
        return "e"
    if isinstance(v, bool):
        return "b:%d" % v
    if isinstance(v, (int, float)):
        return "n:" + repr(float(v))
    if isinstance(v, str):
        if v.isascii() and v.isalnum() and len(v) < 30:
            return "t:" + v
        import hashlib
        return "t#%d#%s" % (len(v), hashlib.sha1(v.encode("utf-8", "surrogatepass")).hexdigest()[:16])
    if isinstance(v, datetime):
        return "d:" + v.isoformat()
    if isinstance(v, timedelta):
        return "u:%d" % ((v.days * 86400 + v.seconds) * 1000000 + v.microseconds)
    return "?:" + type(v).__name__


def colname(c):
    s = ""
    c += 1
    while c > 0:
        c, r = divmod(c - 1, 26)
        s = chr(65 + r) + s
    return s


class Profile:
    """How abstract indices / tokens become concrete ones."""

    def __init__(self, rng, row_off=0, col_off=0, lim_r=4, lim_c=4, hdr=(0, 0), a1=False, tokens=("a", "b")):
        from numbers_parser.constants import MAX_COL_COUNT, MAX_ROW_COUNT
        self.row_off, self.col_off, self.lim_r, self.lim_c, self.hdr, self.a1 = row_off, col_off, lim_r, lim_c, hdr, a1
        self.max_r, self.max_c = MAX_ROW_COUNT, MAX_COL_COUNT
        vals = rng.sample(VALUE_POOL, len(tokens))
        # tokens must be pairwise distinct as cell values
        while len({canon(v) for v in vals}) < len(tokens):
            vals = rng.sample(VALUE_POOL, len(tokens))
        self.values = dict(zip(tokens, vals))
        self.values["e"] = None
        self.rev = {canon(v): k for k, v in self.values.items()}

    def crow(self, r):
        if r < 1:
            return r - 1
        if r > self.lim_r:
            return self.max_r + (r - self.lim_r - 1)
        return self.row_off + r - 1

    def ccol(self, c):
        if c < 1:
            return c - 1
        if c > self.lim_c:
            return self.max_c + (c - self.lim_c - 1)
        return self.col_off + c - 1

    def val(self, tok):
        return self.values[tok]

    def tok(self, v):
        c = canon(v)
        return self.rev.get(c, c)

    def describe(self):
        return {"row_off": self.row_off, "col_off": self.col_off, "hdr": list(self.hdr), "a1": self.a1,
                "values": {k: repr(v)[:40] for k, v in self.values.items()}}


class Env:
    def __init__(self, scratch, profile, nhandles=1, tag="x"):
        self.scratch, self.p, self.n = scratch, profile, nhandles
        self.docs = {h: None for h in range(1, nhandles + 1)}
        self.tag = tag
        self.saves = 0

    def path(self, f):
        return os.path.join(self.scratch, "wb-%s-%s.numbers" % (self.tag, f))

    # ---- construction
    def newdoc(self, h, nr, nc):
        from numbers_parser import Document
        p = self.p
        self.docs[h] = Document(num_rows=nr + p.row_off, num_cols=nc + p.col_off,
                                num_header_rows=min(p.hdr[0], nr + p.row_off), num_header_cols=min(p.hdr[1], nc + p.col_off))

    def table(self, h, s, t):
        return self.docs[h].sheets[s - 1].tables[t - 1]

    def pos_args(self, r, c):
        """position arguments in the profile's notation"""
        cr, cc = self.p.crow(r), self.p.ccol(c)
        if self.p.a1 and cc >= 0:
            if self.p.a1 == "dollar":
                k = (cr * 7 + cc * 3) % 4            # every '$' placement in turn
                return (("$" if k & 1 else "") + colname(cc) + ("$" if k & 2 else "") + str(cr + 1),)
            return (colname(cc) + str(cr + 1),)
        return (cr, cc)

    def pos_call(self, tb, r, c, fn):
        """call fn(*position).  In the lower-case notation the lower-case spelling is tried first: the library may refuse it
        (IndexError, nothing changed - then the call is repeated in upper case) or read it like the upper-case one; whatever it
        does is then judged like any other call"""
        args = self.pos_args(r, c)
        if self.p.a1 == "lower" and isinstance(args[0], str) and args[0].lower() != args[0]:
            dims = (tb.num_rows, tb.num_cols)
            try:
                return fn(args[0].lower())
            except IndexError:
                if (tb.num_rows, tb.num_cols) != dims:
                    raise RuntimeError("a refused lower-case reference changed the table from %s to %s" % (dims, (tb.num_rows, tb.num_cols))) from None
        return fn(*args)

    # ---- ops
    def apply(self, op):
        """apply one abstract op; returns (out, res)"""
        from numbers_parser import Document
        k = op["op"]
        p = self.p
        res = None
        try:
            if k == "write":
                tbw = self.table(op["h"], op["s"], op["t"])
                self.pos_call(tbw, op["r"], op["c"], lambda *pos: tbw.write(*pos, p.val(op["v"])))
            elif k == "touch":
                res = self.touch(op)
            elif k == "addrow":
                tb = self.table(op["h"], op["s"], op["t"])
                at = None if op["at"] == 0 else (p.row_off + op["at"] - 1 if op["at"] <= tb.num_rows - p.row_off else tb.num_rows + (op["at"] - (tb.num_rows - p.row_off) - 1))
                tb.add_row(op["n"], at, p.val(op["d"]))
            elif k == "addcol":
                tb = self.table(op["h"], op["s"], op["t"])
                at = None if op["at"] == 0 else (p.col_off + op["at"] - 1 if op["at"] <= tb.num_cols - p.col_off else tb.num_cols + (op["at"] - (tb.num_cols - p.col_off) - 1))
                tb.add_column(op["n"], at, p.val(op["d"]))
            elif k == "delrow":
                tb = self.table(op["h"], op["s"], op["t"])
                at = None if op["at"] == 0 else (p.row_off + op["at"] - 1 if op["at"] <= tb.num_rows - p.row_off else tb.num_rows + (op["at"] - (tb.num_rows - p.row_off) - 1))
                tb.delete_row(op["n"], at)
            elif k == "delcol":
                tb = self.table(op["h"], op["s"], op["t"])
                at = None if op["at"] == 0 else (p.col_off + op["at"] - 1 if op["at"] <= tb.num_cols - p.col_off else tb.num_cols + (op["at"] - (tb.num_cols - p.col_off) - 1))
                tb.delete_column(op["n"], at)
            elif k == "addtable":
                sh = self.docs[op["h"]].sheets[op["s"] - 1]
                nm = None if op["nm"] == "AUTO" else TABLE_NAMES[op["nm"]]
                nr, nc = op["nr"] + p.row_off, op["nc"] + p.col_off
                sh.add_table(nm, None, None, nr, nc, min(p.hdr[0], nr), min(p.hdr[1], nc))
            elif k == "addsheet":
                nm = None if op["nm"] == "AUTO" else SHEET_NAMES[op["nm"]]
                self.docs[op["h"]].add_sheet(nm, "Table 1", op["nr"] + p.row_off, op["nc"] + p.col_off)
            elif k == "renametable":
                self.table(op["h"], op["s"], op["t"]).name = TABLE_NAMES[op["nm"]]
            elif k == "renamesheet":
                self.docs[op["h"]].sheets[op["s"] - 1].name = SHEET_NAMES[op["nm"]]
            elif k == "save":
                self.docs[op["h"]].save(self.path(op["f"]))
                self.saves += 1
            elif k == "open":
                self.docs[op["h"]] = Document(self.path(op["f"]))
            elif k == "newdoc":
                self.newdoc(op["h"], op["nr"], op["nc"])
            elif k in ("iterrows", "itercols"):
                tb = self.table(op["h"], op["s"], op["t"])

                def b(x, off):
                    return None if x == NONE_V else (x + off if x >= 0 else x)
                kw = dict(min_row=b(op["minr"], p.row_off), max_row=b(op["maxr"], p.row_off),
                          min_col=b(op["minc"], p.col_off), max_col=b(op["maxc"], p.col_off))
                # every second probe passes the bounds positionally, in the documented order of each method
                # (iter_rows: rows first; iter_cols: columns first)
                self._iter_n = getattr(self, "_iter_n", 0) + 1
                if self._iter_n % 2 == 0:
                    it = (tb.iter_rows(kw["min_row"], kw["max_row"], kw["min_col"], kw["max_col"]) if k == "iterrows"
                          else tb.iter_cols(kw["min_col"], kw["max_col"], kw["min_row"], kw["max_row"]))
                else:
                    it = tb.iter_rows(**kw) if k == "iterrows" else tb.iter_cols(**kw)
                # every third probe asks for the values instead of the cells
                vo = self._iter_n % 3 == 0
                if vo:
                    it = (tb.iter_rows(kw["min_row"], kw["max_row"], kw["min_col"], kw["max_col"], True) if k == "iterrows" and self._iter_n % 2 == 0
                          else tb.iter_cols(kw["min_col"], kw["max_col"], kw["min_row"], kw["max_row"], True) if self._iter_n % 2 == 0
                          else tb.iter_rows(values_only=True, **kw) if k == "iterrows" else tb.iter_cols(values_only=True, **kw))
                try:
                    if (tb.num_rows - p.row_off) * (tb.num_cols - p.col_off) > 20000 and not getattr(p, "allow_huge", False):
                        res = [["HUGE", tb.num_rows, tb.num_cols]]       # (see project_table: nothing legitimate grows a table that far)
                    else:
                        res = [[p.tok(c if vo else c.value) for c in line] for line in it]     # consumed fully
                except IndexError:
                    res = [["IndexError"]]
            elif k == "cell":
                tb = self.table(op["h"], op["s"], op["t"])
                try:
                    res = p.tok(self.pos_call(tb, op["r"], op["c"], lambda *pos: tb.cell(*pos)).value)
                except IndexError:
                    res = "IndexError"
            elif k in ("byindex", "byname", "contains", "len"):
                d = self.docs[op["h"]]
                coll = d.sheets if op["s"] == 0 else d.sheets[op["s"] - 1].tables
                names, rnames = (SHEET_NAMES, R_SHEET) if op["s"] == 0 else (TABLE_NAMES, R_TABLE)
                if k == "len":
                    res = len(coll)
                elif k == "contains":
                    res = names[op["nm"]] in coll
                elif k == "byname":
                    try:
                        it = coll[names[op["nm"]]]
                        res = rnames.get(it.name, "N:" + it.name)
                    except KeyError:
                        res = "KeyError"
                else:
                    try:
                        it = coll[op["i"]]
                        res = rnames.get(it.name, "N:" + it.name)
                    except IndexError:
                        res = "IndexError"
            else:
                raise ValueError("unknown op " + k)
            return "ok", res
        except IndexError:
            return "IndexError", None
        except Exception as e:  # noqa: BLE001
            return "Other:%s:%s" % (type(e).__name__, str(e)[:80]), None

    # ---- set_cell_style / set_cell_border / set_cell_formatting with their local effect
    def _marks(self, tb, kind):
        out = {}
        for i, row in enumerate(tb.rows()):
            for j, c in enumerate(row):
                if kind == "style":
                    out[(i, j)] = c.style.name if c.style is not None else None
                elif kind == "border":
                    out[(i, j)] = repr(c.border.top) if c.border is not None else None
                else:
                    out[(i, j)] = c.formatted_value
        return out

    def touch(self, op):
        from numbers_parser import RGB, Border
        tb = self.table(op["h"], op["s"], op["t"])
        kind = op["kind"]
        self.saves += 0
        self.ntouch = getattr(self, "ntouch", 0) + 1
        n = self.ntouch
        pos = self.pos_args(op["r"], op["c"])
        before = self._marks(tb, kind)
        if kind == "style":
            doc = self.docs[op["h"]]
            name = "NV %s %d" % (self.tag, n)
            while name in doc.styles:
                n += 1000
                name = "NV %s %d" % (self.tag, n)
            st = doc.add_style(name=name, bold=True)
            self.pos_call(tb, op["r"], op["c"], lambda *pos: tb.set_cell_style(*pos, st))
            want = name
        elif kind == "border":
            b = Border(1.0 + 0.25 * (n % 20), RGB(10, 20, (30 + n) % 256), "solid")
            self.pos_call(tb, op["r"], op["c"], lambda *pos: tb.set_cell_border(*pos, "top", b))
            want = repr(b)
        else:
            places = n % 5 + 1
            self.pos_call(tb, op["r"], op["c"], lambda *pos: tb.set_cell_formatting(*pos, "number", decimal_places=places))
            want = None
        after = self._marks(tb, kind)
        tgt = (self.p.crow(op["r"]), self.p.ccol(op["c"]))
        if kind == "format":
            fv = after.get(tgt) or ""
            seen = "." in fv and len(fv.split(".")[1]) == places
        else:
            seen = after.get(tgt) == want
        others = any(after.get(k) != v for k, v in before.items() if k != tgt)
        return {"seen": bool(seen), "others": bool(others)}

    # ---- projection
    def project_table(self, tb):
        p = self.p
        nr, nc = tb.num_rows, tb.num_cols
        if (nr - p.row_off) * (nc - p.col_off) > 20000 and not getattr(p, "allow_huge", False):
            # no history of the bounded models grows a table that far: a changed library did.  The table is reported as damaged
            # (its dimensions say it all) instead of being walked - the recorded traces of a run must stay small
            return {"name": R_TABLE.get(tb.name, "N:" + tb.name), "nr": nr - p.row_off, "nc": nc - p.col_off, "cells": [], "bad": 1}
        rows = tb.rows()
        bad = 0
        cells = []
        if len(rows) != nr:
            bad += 1
        for i, row in enumerate(rows):
            if len(row) != nc:
                bad += 1
            for j, c in enumerate(row):
                if c.row != i or c.col != j:
                    bad += 1
                v = c.value
                if v is not None:
                    if i < p.row_off or j < p.col_off:
                        bad += 1          # the fixed leading region of a boundary profile must stay empty
                    else:
                        cells.append([i - p.row_off + 1, j - p.col_off + 1, p.tok(v)])
        return {"name": R_TABLE.get(tb.name, "N:" + tb.name), "nr": nr - p.row_off, "nc": nc - p.col_off,
                "cells": cells, "bad": bad}

    def project_doc(self, h):
        d = self.docs[h]
        if d is None:
            return []
        return [{"name": R_SHEET.get(sh.name, "N:" + sh.name), "tables": [self.project_table(tb) for tb in sh.tables]}
                for sh in d.sheets]

    def project(self):
        return [self.project_doc(h) for h in range(1, self.n + 1)]


def dense(post):
    """sparse projection -> the shape of Workbook!docs (for direct comparison with a TLC state)"""
    out = []
    for doc in post:
        sheets = []
        for sh in doc:
            tabs = []
            for tb in sh["tables"]:
                g = [["e"] * tb["nc"] for _ in range(tb["nr"])]
                ok = tb["bad"] == 0
                for r, c, v in tb["cells"]:
                    if 1 <= r <= tb["nr"] and 1 <= c <= tb["nc"]:
                        g[r - 1][c - 1] = v
                    else:
                        ok = False
                tabs.append({"name": tb["name"], "g": g if ok else "BAD"})
            sheets.append({"name": sh["name"], "tables": tabs})
        out.append(sheets)
    return out


def run_history(scratch, profile, ops, nhandles=1, tag="x", init_dims=(1, 1)):
    """Replay one history on fresh documents; returns the trace record {init, ev} and the env."""
    env = Env(scratch, profile, nhandles, tag)
    env.newdoc(1, *init_dims)
    trace = {"init": env.project(), "ev": [], "profile": profile.describe()}
    for op in ops:
        op = {k: v for k, v in op.items() if k not in ("out", "post", "res")}
        out, res = env.apply(op)
        e = dict(op)
        e["out"] = out.split(":")[0] if out.startswith("Other") else out
        if out.startswith("Other"):
            e["exc"] = out
        if isinstance(res, dict):
            e.update(res)
        elif res is not None:
            e["res"] = res
        e["post"] = env.project()
        trace["ev"].append(e)
    return trace, env

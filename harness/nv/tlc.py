"""Run TLC, parse its statistics, PrintT output, coverage and verdicts."""
import os
import re
import shutil
import subprocess
import time

JAR = "/opt/veriftools/tla/tla2tools.jar:/opt/veriftools/tla/CommunityModules-deps.jar"
SPEC_DIR = os.path.join(os.path.dirname(os.path.dirname(os.path.dirname(os.path.abspath(__file__)))), "spec")


class TLCMachineryError(Exception):
    pass


class TLCResult:
    def __init__(self):
        self.exit = None
        self.out = ""
        self.generated = 0
        self.distinct = 0
        self.diameter = 0
        self.violated = None  # name of violated invariant / property / "deadlock"
        self.error_text = ""
        self.printed = []  # raw PrintT lines (strings)
        self.coverage = {}  # action name -> (distinct, taken)
        self.wall = 0.0
        self.timed_out = False

    @property
    def ok(self):
        return self.exit == 0 and self.violated is None and not self.timed_out


_stats = re.compile(r"(\d+) states generated, (\d+) distinct states found, (\d+) states left on queue")
_depth = re.compile(r"The depth of the complete state graph search is (\d+)")
_cov = re.compile(r"^<(\w+) line \d+, col \d+ to line \d+, col \d+ of module (\w+)>: (\d+):(\d+)", re.M)


def run(module, cfg, scratch, workers=16, timeout=600, simulate=None, depth=None, seed=None,
        dump=None, coverage=False, env=None, extra=(), deque=False, heap="8g", spec_dir=None,
        stream_to=None):
    """Run TLC on spec/<module>.tla with spec/<cfg>. Specs are copied to a private dir in scratch."""
    spec_dir = spec_dir or SPEC_DIR
    work = os.path.join(scratch, "tlc-%d-%d" % (os.getpid(), int(time.time() * 1e6) % 10 ** 9))
    os.makedirs(work)
    for f in os.listdir(spec_dir):
        if f.endswith(".tla") or f.endswith(".cfg"):
            shutil.copy(os.path.join(spec_dir, f), work)
    # cfg may be given as text
    if "\n" in cfg:
        with open(os.path.join(work, "_inline.cfg"), "w") as fh:
            fh.write(cfg)
        cfg = "_inline.cfg"
    jopts = ["-XX:+UseParallelGC", "-Xmx" + heap, "-Xss64m"]   # deep values (long size vectors) need stack in TLC's worker threads
    if deque:
        jopts.append("-Dtlc2.tool.queue.IStateQueue=StateDeque")
    cmd = ["java"] + jopts + ["-cp", JAR, "tlc2.TLC", "-config", cfg, "-workers", str(workers),
                              "-metadir", os.path.join(work, "meta"), "-noGenerateSpecTE"]
    if simulate is not None:
        cmd += ["-simulate", simulate]
    if depth is not None:
        cmd += ["-depth", str(depth)]
    if seed is not None:
        cmd += ["-seed", str(seed)]
    if dump is not None:
        cmd += ["-dump", dump]
    if coverage:
        cmd += ["-coverage", "1"]
    cmd += list(extra)
    cmd.append(module + ".tla")
    e = dict(os.environ)
    e.pop("JAVA_TOOL_OPTIONS", None)
    if env:
        e.update(env)
    res = TLCResult()
    t0 = time.time()
    try:
        if stream_to is not None:
            p = subprocess.Popen(cmd, cwd=work, env=e, stdout=subprocess.PIPE, stderr=subprocess.STDOUT, text=True)
            keep = []
            try:
                for line in p.stdout:
                    if not stream_to(line):
                        keep.append(line)
                p.wait(timeout=timeout)
            finally:
                if p.poll() is None:
                    p.kill()
            res.out = "".join(keep)
            res.exit = p.returncode
        else:
            cp = subprocess.run(cmd, cwd=work, env=e, stdout=subprocess.PIPE, stderr=subprocess.STDOUT,
                                text=True, timeout=timeout)
            res.out = cp.stdout
            res.exit = cp.returncode
    except subprocess.TimeoutExpired as ex:
        res.timed_out = True
        res.out = (ex.stdout or b"").decode() if isinstance(ex.stdout, bytes) else (ex.stdout or "")
        res.exit = -1
    res.wall = time.time() - t0
    _parse(res)
    res.work = work
    return res


def _parse(res):
    out = res.out
    ms = _stats.findall(out)
    if ms:
        g, d, _ = ms[-1]
        res.generated, res.distinct = int(g), int(d)
    m = _depth.search(out)
    if m:
        res.diameter = int(m.group(1))
    m = re.search(r"Error: Invariant (\w+) is violated", out)
    if m:
        res.violated = m.group(1)
    m = re.search(r"Error: Action property (\w+) is violated", out)
    if m:
        res.violated = m.group(1)
    if "Error: Deadlock reached" in out:
        res.violated = "deadlock"
    if "Temporal properties were violated" in out:
        res.violated = res.violated or "temporal"
    m = re.search(r"Error: (.*)", out)
    if m and res.violated is None and res.exit not in (0, None):
        res.error_text = out[m.start():m.start() + 1500]
    for mm in _cov.finditer(out):
        name = mm.group(1)
        d, t = int(mm.group(3)), int(mm.group(4))
        old = res.coverage.get(name, (0, 0))
        res.coverage[name] = (old[0] + d, old[1] + t)
    # PrintT lines: anything that is not TLC chatter; collect lines starting with << or [ or "
    res.printed = [ln for ln in out.splitlines() if ln.startswith("<<") or ln.startswith("[")]


def require_ok(res, what):
    if res.timed_out:
        raise TLCMachineryError("%s: TLC timed out after %.0fs" % (what, res.wall))
    if res.violated is not None:
        return res
    if res.exit != 0:
        raise TLCMachineryError("%s: TLC failed (exit %s): %s" % (what, res.exit, (res.error_text or res.out[-1500:])))
    return res


def sany(module, scratch, spec_dir=None):
    spec_dir = spec_dir or SPEC_DIR
    cp = subprocess.run(["java", "-cp", JAR, "tla2sany.SANY", module + ".tla"], cwd=spec_dir,
                        stdout=subprocess.PIPE, stderr=subprocess.STDOUT, text=True, timeout=120)
    return cp.returncode == 0 and "error" not in cp.stdout.lower().replace("0 error", ""), cp.stdout

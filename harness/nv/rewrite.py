"""Meaning-preserving rewrites of a Numbers document's storage layout (property C06).

The harness's own zip / IWA framing code and the generated protobuf classes are used; none of the
library's readers.  Every rewrite keeps the set of objects and their content (validated by `objects_of`)."""
import io
import os
import random
import shutil
import struct
import zipfile

from . import iwa


class Pkg:
    """A document as an ordered list of (member name, bytes); IWA members are names ending in .iwa"""

    def __init__(self, members):
        self.members = list(members)

    @classmethod
    def load(cls, path):
        out = []

        def from_zip(zf):
            for n in zf.namelist():
                if n.endswith("/"):
                    continue
                data = zf.read(n)
                if n.lower().endswith("index.zip"):
                    from_zip(zipfile.ZipFile(io.BytesIO(data)))
                else:
                    out.append((n, data))
        if os.path.isdir(path):
            for root, _, files in os.walk(path):
                for f in sorted(files):
                    p = os.path.join(root, f)
                    rel = os.path.relpath(p, path)
                    if f.lower() == "index.zip":
                        from_zip(zipfile.ZipFile(p))
                    else:
                        with open(p, "rb") as fh:
                            out.append((rel, fh.read()))
        else:
            from_zip(zipfile.ZipFile(path))
        return cls(out)

    def save_single(self, path, order=None, method=zipfile.ZIP_DEFLATED):
        names = [n for n, _ in self.members]
        idx = order if order is not None else list(range(len(names)))
        with zipfile.ZipFile(path, "w", method) as zf:
            for i in idx:
                zf.writestr(self.members[i][0], self.members[i][1])

    def save_package(self, path):
        """folder form: archives in Index.zip, everything else as loose files"""
        import re
        if os.path.exists(path):
            shutil.rmtree(path)
        os.makedirs(path)

        def strip(n):     # a single-file document may wrap everything in one "<name>.numbers/" folder
            return re.sub(r"^[^/]*\.numbers/", "", n)
        with zipfile.ZipFile(os.path.join(path, "Index.zip"), "w") as zf:
            for n, d in self.members:
                if n.endswith(".iwa"):
                    zf.writestr(strip(n), d)
        for n, d in self.members:
            if not n.endswith(".iwa"):
                p = os.path.join(path, strip(n))
                os.makedirs(os.path.dirname(p), exist_ok=True)
                with open(p, "wb") as fh:
                    fh.write(d)


# ------------------------------------------------------------------ object level access
def decode_member(data):
    """-> list of [ArchiveInfo, [message bytes...]]"""
    from numbers_parser.generated.TSPArchiveMessages_pb2 import ArchiveInfo
    segs = []
    for hdr, msgs, _ in iwa.walk_segments(iwa.stream_of(data)):
        segs.append([ArchiveInfo.FromString(hdr), list(msgs)])
    return segs


def encode_member(segs, rng=None, cuts="default"):
    stream = b""
    for info, msgs in segs:
        for mi, m in zip(info.message_infos, msgs):
            mi.length = len(m)
        hdr = info.SerializeToString()
        stream += iwa.varint(len(hdr)) + hdr + b"".join(msgs)
    return frame_stream(stream, rng, cuts)


def frame_stream(stream, rng=None, cuts="default"):
    T = len(stream)
    if cuts == "default" or rng is None:
        sizes = [min(65536, T - i) for i in range(0, T, 65536)]
    else:
        sizes = []
        left = T
        if T < 2 ** 24 and rng.random() < 0.2:
            sizes, left = [T], 0                      # the whole member as ONE chunk (readers accept chunks beyond 64 KiB)
        while left:
            k = rng.choice([1, 2, 3, 7, 64, 1000, 4096, 65535, 65536, 200000]) if rng.random() < 0.7 else rng.randint(1, 65536)
            k = min(k, left)
            sizes.append(k)
            left -= k
    return iwa.frame(stream, sizes)


def objects_of(pkg):
    """identity of the document's objects: {object id: [digest of each message]} plus the non-IWA members"""
    objs = {}
    for n, d in pkg.members:
        if n.endswith(".iwa") and iwa.is_wellformed(d):
            for info, msgs in decode_member(d):
                objs[info.identifier] = [(mi.type, iwa.dg(m)) for mi, m in zip(info.message_infos, msgs)]
    return objs


def _class_of(type_id):
    from numbers_parser.generated.mapping import ID_NAME_MAP
    return ID_NAME_MAP.get(type_id)


def _map_messages(pkg, type_name, fn, rng):
    """apply fn(message, all_objects) -> bool(changed) to every message of the given type; returns number changed"""
    from numbers_parser.generated.mapping import NAME_ID_MAP
    tid = NAME_ID_MAP[type_name]
    changed = 0
    new = []
    for n, d in pkg.members:
        if not n.endswith(".iwa") or not iwa.is_wellformed(d):
            new.append((n, d))
            continue
        segs = decode_member(d)
        touched = False
        for info, msgs in segs:
            for j, mi in enumerate(info.message_infos):
                if mi.type == tid and j == 0:
                    msg = _class_of(tid).FromString(msgs[j])
                    if fn(msg, info.identifier):
                        msgs[j] = msg.SerializeToString()
                        touched = True
                        changed += 1
        new.append((n, encode_member(segs) if touched else d))
    pkg.members = new
    return changed


# ------------------------------------------------------------------ the rewrites
def permute_lists(pkg, rng):
    """the order of entries inside every table data list (strings, formats, styles, formulas, rich text ...)"""
    def fn(msg, _id):
        n = len(msg.entries)
        if n < 2:
            return False
        es = [type(msg.entries[0]).FromString(e.SerializeToString()) for e in msg.entries]
        mode = rng.choice(["reverse", "shuffle", "rotate"])
        if mode == "reverse":
            es.reverse()
        elif mode == "rotate":
            es = es[1:] + es[:1]
        else:
            rng.shuffle(es)
        del msg.entries[:]
        for e in es:
            msg.entries.add().CopyFrom(e)
        return True
    return _map_messages(pkg, "TST.TableDataList", fn, rng)


def rechunk(pkg, rng):
    n = 0
    new = []
    for name, d in pkg.members:
        if name.endswith(".iwa"):
            try:
                new.append((name, frame_stream(iwa.stream_of(d), rng, "random")))
                n += 1
                continue
            except Exception:  # noqa: BLE001
                pass
        new.append((name, d))
    pkg.members = new
    return n


def one_chunk(pkg, rng):
    """every archive member as a single chunk, however long (a reader accepts what the three-byte length field can express)"""
    n = 0
    new = []
    for name, d in pkg.members:
        if name.endswith(".iwa"):
            try:
                st = iwa.stream_of(d)
                if 0 < len(st) < 2 ** 24:
                    new.append((name, iwa.frame(st, [len(st)])))
                    n += 1
                    continue
            except Exception:  # noqa: BLE001
                pass
        new.append((name, d))
    pkg.members = new
    return n


def offsets(pkg, rng, to_wide):
    """byte offsets <-> 4-byte-unit offsets for every stored row where the other encoding can represent them"""
    def fn(tile, _id):
        ch = False
        for ri in tile.rowInfos:
            offs = list(struct.unpack("<%dh" % (len(ri.cell_offsets) // 2), ri.cell_offsets))
            if to_wide and not ri.has_wide_offsets:
                if all(o < 0 or o % 4 == 0 for o in offs):
                    ri.cell_offsets = struct.pack("<%dh" % len(offs), *[o if o < 0 else o // 4 for o in offs])
                    ri.has_wide_offsets = True
                    ch = True
            elif not to_wide and ri.has_wide_offsets:
                if all(o < 0 or o * 4 <= 32767 for o in offs):
                    ri.cell_offsets = struct.pack("<%dh" % len(offs), *[o if o < 0 else o * 4 for o in offs])
                    ri.has_wide_offsets = False
                    ch = True
        return ch
    return _map_messages(pkg, "TST.Tile", fn, rng)


def empty_row_headers(pkg, rng, add):
    """add (or drop) explicit header records for empty rows"""
    from numbers_parser.generated.mapping import NAME_ID_MAP
    from numbers_parser.generated import TSTArchives_pb2 as TST
    # collect per table: row header bucket id, non-empty rows, number of rows
    objs = {}
    for n, d in pkg.members:
        if n.endswith(".iwa") and iwa.is_wellformed(d):
            for info, msgs in decode_member(d):
                if info.message_infos:
                    objs[info.identifier] = (info.message_infos[0].type, msgs[0])
    tm_id, tile_id = NAME_ID_MAP["TST.TableModelArchive"], NAME_ID_MAP["TST.Tile"]
    plans = {}
    for oid, (t, raw) in objs.items():
        if t != tm_id:
            continue
        tm = TST.TableModelArchive.FromString(raw)
        bds = tm.base_data_store
        if not bds.rowHeaders.buckets:
            continue
        bucket = bds.rowHeaders.buckets[0].identifier
        nonempty = set()
        for tr in bds.tiles.tiles:
            if tr.tile.identifier in objs:
                tile = TST.Tile.FromString(objs[tr.tile.identifier][1])
                for ri in tile.rowInfos:
                    nonempty.add(tr.tileid * (bds.tiles.tile_size or 256) + ri.tile_row_index)
        plans[bucket] = (nonempty, tm.number_of_rows, len(tm.base_data_store.tiles.tiles), tm.number_of_columns)

    def fn(b, oid):
        if oid not in plans:
            return False
        nonempty, nrows, _, ncols = plans[oid]
        have = {h.index for h in b.headers}
        if add:
            cand = [r for r in range(nrows) if r not in nonempty and r not in have]
            if not cand:
                return False
            pick = [r for r in cand if rng.random() < 0.7] or cand[:1]
            hs = [TST.HeaderStorageBucket.Header.FromString(h.SerializeToString()) for h in b.headers]
            for r in pick:
                hs.append(TST.HeaderStorageBucket.Header(index=r, numberOfCells=0, size=0.0, hidingState=0))
            hs.sort(key=lambda h: h.index)
        else:
            hs = [TST.HeaderStorageBucket.Header.FromString(h.SerializeToString()) for h in b.headers if h.index in nonempty or h.size != 0.0]
            if len(hs) == len(b.headers):
                return False
        del b.headers[:]
        for h in hs:
            b.headers.add().CopyFrom(h)
        return True
    return _map_messages(pkg, "TST.HeaderStorageBucket", fn, rng)


def tile_spans(pkg):
    """{tile object id: (tile number, tile size, number of table rows that fall into this tile)} from the table models"""
    from numbers_parser.generated.mapping import NAME_ID_MAP
    from numbers_parser.generated import TSTArchives_pb2 as TST
    tm_id = NAME_ID_MAP["TST.TableModelArchive"]
    span = {}
    for n, d in pkg.members:
        if n.endswith(".iwa") and iwa.is_wellformed(d):
            for info, msgs in decode_member(d):
                if info.message_infos and info.message_infos[0].type == tm_id:
                    tm = TST.TableModelArchive.FromString(msgs[0])
                    ts = tm.base_data_store.tiles
                    size = ts.tile_size or 256
                    for tr in ts.tiles:
                        span[tr.tile.identifier] = (tr.tileid, size, max(0, min(size, tm.number_of_rows - tr.tileid * size)))
    return span


def empty_record(like, index):
    """a row record that stores no cell: count 0, empty buffer, every offset slot unused"""
    from numbers_parser.generated import TSTArchives_pb2 as TST
    nslots = len(like.cell_offsets) // 2
    ri = TST.TileRowInfo(tile_row_index=index, cell_count=0, cell_storage_buffer=b"",
                         cell_offsets=struct.pack("<%dh" % nslots, *([-1] * nslots)))
    if like.HasField("has_wide_offsets"):
        ri.has_wide_offsets = like.has_wide_offsets
    if like.HasField("cell_storage_buffer_pre_bnc"):
        ri.cell_storage_buffer_pre_bnc = b""
        ri.cell_offsets_pre_bnc = ri.cell_offsets
    return ri


def empty_row_records(pkg, rng, add):
    """add (or drop) explicit tile row records that hold no cells (cell_count 0, every offset -1).  Numbers omits them,
    but a record for an empty row is a legal way of storing 'nothing in this row'"""
    from numbers_parser.generated import TSTArchives_pb2 as TST
    span = {k: v[2] for k, v in tile_spans(pkg).items()}

    def fn(tile, oid):
        if oid not in span:
            return False
        infos = [TST.TileRowInfo.FromString(r.SerializeToString()) for r in tile.rowInfos]
        if add:
            have = {r.tile_row_index for r in infos}
            cand = [i for i in range(span[oid]) if i not in have]
            if not cand or not infos:
                return False
            pick = [i for i in cand if rng.random() < 0.6] or cand[:1]
            like = max(infos, key=lambda r: len(r.cell_offsets))
            for i in pick:
                infos.append(empty_record(like, i))
            # records are kept in row order, the way both Numbers and the library write them
            infos.sort(key=lambda r: r.tile_row_index)
        else:
            keep = [r for r in infos if r.cell_count != 0]
            if len(keep) == len(infos) or not keep:
                return False
            infos = keep
        del tile.rowInfos[:]
        for r in infos:
            tile.rowInfos.add().CopyFrom(r)
        tile.numrows = len(infos)
        tile.maxRow = max(r.tile_row_index for r in infos)
        return True
    return _map_messages(pkg, "TST.Tile", fn, rng)


REWRITES = ["permute-lists", "rechunk", "reorder-zip", "recompress-stored", "recompress-deflated", "to-package", "to-single",
            "narrow-offsets", "widen-offsets", "add-empty-row-headers", "drop-empty-row-headers",
            "add-empty-row-records", "drop-empty-row-records", "one-chunk"]
CONTENT = {"permute-lists", "narrow-offsets", "widen-offsets", "add-empty-row-headers", "drop-empty-row-headers",
           "add-empty-row-records", "drop-empty-row-records"}


def apply(pkg, names, rng, out_base):
    """apply a composition of rewrites; returns (path written, number of effective object-level changes)"""
    order, method, form = None, zipfile.ZIP_DEFLATED, "single"
    effect = 0
    before = objects_of(pkg)
    for w in names:
        if w == "permute-lists":
            effect += permute_lists(pkg, rng)
        elif w == "rechunk":
            effect += rechunk(pkg, rng)
        elif w == "one-chunk":
            effect += one_chunk(pkg, rng)
        elif w == "reorder-zip":
            order = list(range(len(pkg.members)))
            rng.shuffle(order)
            effect += 1
        elif w == "recompress-stored":
            method = zipfile.ZIP_STORED
            effect += 1
        elif w == "recompress-deflated":
            method = zipfile.ZIP_DEFLATED
            effect += 1
        elif w == "to-package":
            form = "package"
            effect += 1
        elif w == "to-single":
            form = "single"
            effect += 1
        elif w == "narrow-offsets":
            effect += offsets(pkg, rng, False)
        elif w == "widen-offsets":
            effect += offsets(pkg, rng, True)
        elif w == "add-empty-row-headers":
            effect += empty_row_headers(pkg, rng, True)
        elif w == "drop-empty-row-headers":
            effect += empty_row_headers(pkg, rng, False)
        elif w == "add-empty-row-records":
            effect += empty_row_records(pkg, rng, True)
        elif w == "drop-empty-row-records":
            effect += empty_row_records(pkg, rng, False)
    after = objects_of(pkg)
    # validation by the harness's own reader: same object ids; only the rewritten kinds of objects may differ in bytes
    if set(before) != set(after):
        raise AssertionError("rewrite changed the set of objects")
    path = out_base + ".numbers"
    if form == "package":
        pkg.save_package(path)
    else:
        if os.path.isdir(path):
            shutil.rmtree(path)
        pkg.save_single(path, order, method)
    return path, effect

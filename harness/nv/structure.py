"""Independent structural validator of a Numbers package (property C07): turns a package into the abstract
state of spec/Trace_Package.tla.  Own zip + IWA framing code (rewrite.Pkg, iwa), protobuf classes only for
field access, own generic walk for TSP.Reference fields (not the library's find_references)."""
import struct

from . import iwa, rewrite


def refs_of(msg, out):
    """collect identifiers of every TSP.Reference reachable in msg"""
    for fd, val in msg.ListFields():
        if fd.type != fd.TYPE_MESSAGE:
            continue
        is_ref = fd.message_type.full_name == "TSP.Reference"
        vals = [val] if hasattr(val, "ListFields") else list(val)
        for v in vals:
            if is_ref:
                if v.identifier:
                    out.add(v.identifier)
            else:
                refs_of(v, out)


def data_refs_of(msg, out):
    """collect identifiers of every TSP.DataReference reachable in msg (references to the package's data files: images ...)"""
    for fd, val in msg.ListFields():
        if fd.type != fd.TYPE_MESSAGE:
            continue
        is_ref = fd.message_type.full_name == "TSP.DataReference"
        vals = [val] if hasattr(val, "ListFields") else list(val)
        for v in vals:
            if is_ref:
                if v.identifier:
                    out.add(v.identifier)
            else:
                data_refs_of(v, out)


def layout_end(flags):
    n = 12
    for b in range(21):
        if flags >> b & 1:
            n += 16 if b == 0 else 8 if b in (1, 2) else 4
    return n


def abstract(path):
    from numbers_parser.generated import TSTArchives_pb2 as TST
    from numbers_parser.generated.mapping import ID_NAME_MAP, NAME_ID_MAP
    pkg = rewrite.Pkg.load(path)
    ids = []
    objs = {}
    files = []
    raw = {}
    for name, data in pkg.members:
        if not name.endswith(".iwa"):
            continue
        files.append(name)
        if not iwa.is_wellformed(data):
            continue
        for info, msgs in rewrite.decode_member(data):
            ids.append(info.identifier)
            if not info.message_infos:
                continue
            t = info.message_infos[0].type
            cls = ID_NAME_MAP.get(t)
            refs = set()
            drefs = set()
            if cls is not None:
                m = cls.FromString(msgs[0])
                refs_of(m, refs)
                data_refs_of(m, drefs)
                raw[info.identifier] = m
            objs[info.identifier] = {"type": t, "digest": iwa.dg(msgs[0]), "refs": sorted(refs), "drefs": sorted(drefs), "file": name}
    out = {"ids": ids, "objs": objs, "files": files, "lastId": 0, "componentFiles": [], "tables": [], "datas": {}, "dataFiles": []}
    import re
    # the members that are not archives (Data/..., Metadata/..., previews), without a wrapper folder
    out["dataFiles"] = sorted({re.sub(r"^[^/]*\.numbers/", "", name) for name, _ in pkg.members if not name.endswith(".iwa")})
    meta_t = NAME_ID_MAP["TSP.PackageMetadata"]
    for oid, o in objs.items():
        if o["type"] == meta_t and oid in raw:
            pm = raw[oid]
            out["lastId"] = pm.last_object_identifier
            for di in pm.datas:
                out["datas"][di.identifier] = di.file_name or di.preferred_file_name
            for c in pm.components:
                loc = c.locator or c.preferred_locator
                out["componentFiles"].append("Index/" + loc + ".iwa")
    tm_t = NAME_ID_MAP["TST.TableModelArchive"]
    for oid, o in objs.items():
        if o["type"] != tm_t or oid not in raw:
            continue
        tm = raw[oid]
        tiles = []
        for tr in tm.base_data_store.tiles.tiles:
            tile = raw.get(tr.tile.identifier)
            if tile is None:
                tiles.append([-1, []])
                continue
            rows = []
            for ri in tile.rowInfos:
                offs = list(struct.unpack("<%dh" % (len(ri.cell_offsets) // 2), ri.cell_offsets))
                unit = 4 if ri.has_wide_offsets else 1
                buf = ri.cell_storage_buffer
                present = [o * unit for o in offs if o >= 0]
                inb = all(p + 12 <= len(buf) for p in present)
                ali = all(p % 4 == 0 for p in present)
                inc = all(a < b for a, b in zip(present, present[1:]))
                non = inb
                if inb:
                    ends = present[1:] + [len(buf)]
                    for p, e in zip(present, ends):
                        fl = struct.unpack("<i", buf[p + 8:p + 12])[0]
                        if p + layout_end(fl) > e:
                            non = False
                # columns accounted for: one offset slot per column (tiles written by Numbers carry 255 slots: the surplus must be unused)
                nc = tm.number_of_columns
                cols_ok = len(offs) >= nc and all(o < 0 for o in offs[nc:])
                rows.append([ri.tile_row_index, ri.cell_count, len(present), nc if cols_ok else -1, int(inb), int(ali), int(inc), int(non)])
            tiles.append([tile.numrows, rows])
        out["tables"].append([tm.number_of_rows, tm.number_of_columns, tiles])
    return out


def save_event(src_abs, saved_path, exc=""):
    """-> event for Trace_Package (source abstract state may be None for a failed case)"""
    import warnings
    ev = {"exc": exc, "reopen": "", "srcIds": sorted(set(src_abs["ids"])), "savedIds": [], "rewritten": [], "refs": [], "srcDangling": [],
          "lastId": 0, "addedFiles": [], "componentFiles": [], "dupIds": [], "tables": [], "dataIds": [], "dataRefs": [], "srcDataDangling": [],
          "dataFilesMissing": []}
    if exc:
        return ev
    sv = abstract(saved_path)
    src_ids = set(src_abs["ids"])
    src_dang = set()
    for o in src_abs["objs"].values():
        for t in o["refs"]:
            if t not in src_ids:
                src_dang.add(t)
    ev["srcDangling"] = sorted(src_dang)
    ev["savedIds"] = sorted(set(sv["ids"]))
    seen = set()
    dup = set()
    for i in sv["ids"]:
        if i in seen:
            dup.add(i)
        seen.add(i)
    ev["dupIds"] = sorted(dup)
    rew = [i for i, o in sv["objs"].items() if i in src_abs["objs"] and src_abs["objs"][i]["digest"] != o["digest"]]
    ev["rewritten"] = sorted(rew)
    touched = set(rew) | (set(sv["objs"]) - src_ids)
    ev["refs"] = [[i, sv["objs"][i]["refs"]] for i in sorted(touched)]
    ev["lastId"] = sv["lastId"]
    import re
    strip = lambda n: re.sub(r"^[^/]*\.numbers/", "", n)      # noqa: E731
    ev["addedFiles"] = sorted({strip(f) for f in sv["files"]} - {strip(f) for f in src_abs["files"]})
    ev["componentFiles"] = sorted(set(sv["componentFiles"]))
    ev["tables"] = sv["tables"]
    # data files: the registry of the package metadata (datas: id -> file name under Data/), the references to it, the files themselves
    def missing(ab):
        return {i for i, fn in ab["datas"].items() if "Data/" + fn not in ab["dataFiles"]}
    ev["dataIds"] = sorted(sv["datas"])
    ev["dataRefs"] = [[i, sv["objs"][i]["drefs"]] for i in sorted(touched) if sv["objs"][i]["drefs"]]
    src_dref_dangling = {d for o in src_abs["objs"].values() for d in o["drefs"] if d not in src_abs["datas"]}
    ev["srcDataDangling"] = sorted(src_dref_dangling)
    ev["dataFilesMissing"] = sorted(missing(sv) - missing(src_abs))
    try:
        with warnings.catch_warnings():
            warnings.simplefilter("ignore")
            from numbers_parser import Document
            d = Document(saved_path)
            for sh in d.sheets:
                for tb in sh.tables:
                    _ = tb.num_rows
    except Exception as e:  # noqa: BLE001
        ev["reopen"] = "%s:%s" % (type(e).__name__, str(e)[:80])
    return ev

"""Documents produced through the editing API (part of the quantifiers of C02, C05, C06, C07)."""
import os
import random
import warnings
from datetime import datetime, timedelta


def build(kind, seed):
    """-> Document built through the public API; kind selects the feature mix"""
    warnings.simplefilter("ignore")
    from numbers_parser import RGB, Alignment, Border, Document
    rng = random.Random(seed)
    doc = Document(num_rows=rng.randint(3, 14), num_cols=rng.randint(3, 9))
    tb = doc.sheets[0].tables[0]

    def fill(t, n):
        for _ in range(n):
            v = rng.choice([round(rng.random() * 1000, 3), "text %d" % rng.randint(0, 30), True, False, rng.randint(-999, 999),
                            datetime(2015, 1, 1) + timedelta(minutes=rng.randint(0, 5000000)), timedelta(seconds=rng.randint(0, 999999)), "multi\nline", "ünï"])
            t.write(rng.randint(0, t.num_rows - 1), rng.randint(0, t.num_cols - 1), v)
    fill(tb, 40)
    if kind in ("multi", "all"):
        doc.add_sheet("Second sheet")
        t2 = doc.sheets[1].tables[0]
        fill(t2, 15)
        t3 = doc.sheets[0].add_table("Extra", num_rows=5, num_cols=4)
        fill(t3, 10)
        doc.sheets[1].add_table()
    if kind in ("styles", "all"):
        st = doc.add_style(name="Red %d" % seed, font_color=RGB(230, 25, 25), font_size=14.0, bold=True, italic=True, font_name="Helvetica",
                           alignment=Alignment("right", "top"), bg_color=RGB(10, 200, 30))
        st2 = doc.add_style(underline=True, strikethrough=True, first_indent=2.0, left_indent=3.0, right_indent=1.0, text_inset=5.0, text_wrap=False)
        for _ in range(6):
            tb.write(rng.randint(0, tb.num_rows - 1), rng.randint(0, tb.num_cols - 1), "styled", style=rng.choice([st, st2]))
        tb.set_cell_border(1, 1, ["top", "left"], Border(2.0, RGB(0, 0, 255), "solid"))
        tb.set_cell_border(2, 0, "bottom", Border(1.0, RGB(0, 0, 0), "dashes"), 2)
    if kind in ("images", "all"):
        from numbers_parser import BackgroundImage
        from .props.c15 import tiny_png
        im1 = doc.add_style(name="Image %d" % seed, bg_image=BackgroundImage(tiny_png(4, 3, (200, 30, 30)), "bg-%d-a.png" % seed))
        im2 = doc.add_style(bg_image=BackgroundImage(tiny_png(2, 5, (30, 30, 200)), "bg-%d-b.png" % seed), bold=True)
        tb.write(0, 1, "on image", style=im1)
        tb.write(tb.num_rows - 1, tb.num_cols - 1, 12.5, style=im2)
        tb.write(1, 2, "again", style=im1)
    if kind in ("merges", "all") and tb.num_rows >= 4 and tb.num_cols >= 4:
        tb.merge_cells("B2:C3")
        tb.merge_cells(["A4:B4"])
    if kind in ("formats", "all"):
        for (r, fmt, kw) in ((0, "number", dict(decimal_places=2, show_thousands_separator=True)), (1, "currency", dict(currency_code="EUR", decimal_places=2)),
                             (2, "percentage", dict(decimal_places=1)), (0, "scientific", dict(decimal_places=3)), (1, "base", dict(base=16, base_places=4)),
                             (2, "fraction", dict(fraction_accuracy=None))):
            c = rng.randint(0, tb.num_cols - 1)
            tb.write(r, c, round(rng.random() * 5000, 2))
            try:
                if fmt == "fraction":
                    from numbers_parser import FractionAccuracy
                    tb.set_cell_formatting(r, c, "fraction", fraction_accuracy=FractionAccuracy.THREE)
                else:
                    tb.set_cell_formatting(r, c, fmt, **kw)
            except Exception:  # noqa: BLE001
                pass
        tb.write(0, 0, datetime(2023, 4, 1, 13, 25, 42))
        tb.set_cell_formatting(0, 0, "datetime", date_time_format="EEEE, d MMMM yyyy")
        cf = doc.add_custom_format(name="Custom %d" % seed, type="number", num_decimals=2, show_thousands_separator=True)
        tb.write(1, 0, 1234.5)
        tb.set_cell_formatting(1, 0, "custom", format=cf)
        # (cells outside the rectangles that the "merges" feature merges: a hidden cell of a merged range takes no value)
        tb.write(2, 0, "item 2")
        tb.set_cell_formatting(2, 0, "popup", popup_values=["item 1", "item 2"], allow_none=False)
        tb.write(0, 1, 5.0)
        tb.set_cell_formatting(0, 1, "stepper", minimum=0, maximum=10, increment=1)
        tb.write(0, 2, True)
        tb.set_cell_formatting(0, 2, "tickbox")
    if kind in ("geometry", "all"):
        tb.caption = "A caption %d" % seed
        tb.caption_enabled = True
        tb.table_name_enabled = rng.random() < 0.5
        tb.row_height(1, 50)
        tb.col_width(1, 150)
        tb.num_header_rows = min(2, tb.num_rows)
    if kind == "large":
        for r in range(300):
            tb.write(r, rng.randint(0, 2), r * 1.5)
        tb.write(5, 300, "wide")
    return doc


KINDS = ["plain", "multi", "styles", "merges", "formats", "geometry", "all", "large", "images"]


def save_generated(scratch, n, seed, kinds=None):
    paths = []
    kinds = kinds or KINDS
    for i in range(n):
        k = kinds[i % len(kinds)]
        doc = build(k, seed * 100 + i)
        p = os.path.join(scratch, "gen-%s-%d.numbers" % (k, i))
        doc.save(p)
        paths.append(p)
    return paths

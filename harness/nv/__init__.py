"""numbers-parser verification harness (TLA+ model-based)."""

"""C04 - cell storage records decode to exactly what was encoded, field by field.

spec/CellRecord.tla (published layout; encoder emission order; decoder offset walk), spec/Trace_CellRecord.tla (judge)."""
import json
import os
import random
import re
import struct
import warnings
from datetime import datetime, timedelta
from decimal import Decimal

from .. import fixtures
from ..core import Machinery

ATTR = {3: "_string_id", 4: "_rich_id", 5: "_cell_style_id", 6: "_text_style_id", 9: "_formula_id", 10: "_control_id",
        12: "_suggest_id", 13: "_num_format_id", 14: "_currency_format_id", 15: "_date_format_id", 16: "_duration_format_id",
        17: "_text_format_id", 18: "_bool_format_id"}
INTERP_IDS = sorted(ATTR)
NUMS = [0.0, 12.0, 52.0, 0.12, -7.5, 1e-290, 1e290, 999999999999999.0, 123456.789, -0.001, 846400000000.0, 3.0]
DATES = [datetime(2001, 1, 1), datetime(1999, 12, 31, 23, 59, 59), datetime(2020, 2, 29, 12, 0, 1), datetime(1, 1, 1), datetime(9999, 12, 31)]
DURS = [timedelta(0), timedelta(seconds=1.5), timedelta(days=-3, seconds=7), timedelta(days=36500), timedelta(microseconds=1)]
TEXTS = ["", "alpha", "béta\nline", "😀", "12"]


class StubLists:
    def lookup_key(self, table_id, ref):
        return 1

    def id(self, table_id):
        return 1


class StubModel:
    """What Cell._to_buffer / Cell._from_storage need from a model, and nothing else."""

    def __init__(self):
        from numbers_parser.model import MergeCells
        self._merge = MergeCells()
        self._table_styles = StubLists()
        self.strings = {}
        self.rstrings = {}

    def merge_cells(self, table_id):
        return self._merge

    def table_string_key(self, table_id, value):
        if value not in self.rstrings:
            k = 700 + len(self.rstrings)
            self.rstrings[value] = k
            self.strings[k] = value
        return self.rstrings[value]

    def table_string(self, table_id, key):
        return self.strings.get(key, "s%d" % key)

    def table_rich_text(self, table_id, key):
        return {"text": "rich%d" % key, "bullets": [], "hyperlinks": None, "bulleted": False, "bullet_chars": []}

    def table_name(self, table_id):
        return "T"

    def add_component_reference(self, *a, **k):
        pass


def d128_bytes(x):
    """independent decimal128 encoder written from the format description (sign bit, 14-bit biased exponent, coefficient)"""
    d = Decimal(repr(float(x)))
    sign, digits, exp = d.as_tuple()
    coeff = int("".join(map(str, digits)))
    b = bytearray(16)
    e = exp + 0x1820
    for i in range(14):
        b[i] = (coeff >> (8 * i)) & 0xFF
    b[14] = ((coeff >> 112) & 1) | ((e & 0x7F) << 1)
    b[15] = (e >> 7) | (0x80 if sign else 0)
    return bytes(b)


def bits_of(mask):
    return [b for b in range(21) if mask >> b & 1]


def make_cell(kind, rng, model):
    from numbers_parser.cell import BoolCell, CellType, DateCell, DurationCell, EmptyCell, ErrorCell, NumberCell, RichTextCell, TextCell
    if kind == "number":
        v = rng.choice(NUMS)
        c = NumberCell(0, 0, v)
    elif kind == "currency":
        v = rng.choice(NUMS)
        c = NumberCell(0, 0, v, cell_type=CellType.CURRENCY)
    elif kind == "text":
        v = rng.choice(TEXTS)
        c = TextCell(0, 0, v)
    elif kind == "date":
        v = rng.choice(DATES)
        c = DateCell(0, 0, v)
    elif kind == "bool":
        v = rng.random() < 0.5
        c = BoolCell(0, 0, v)
    elif kind == "duration":
        v = rng.choice(DURS)
        c = DurationCell(0, 0, v)
    elif kind == "empty":
        v = None
        c = EmptyCell(0, 0)
    elif kind == "rich":
        v = "rich1004"
        c = RichTextCell(0, 0, model.table_rich_text(1, 1004))
    else:
        v = None
        c = ErrorCell(0, 0)
    c._model = model
    c._table_id = 1
    return c, v


def run(ctx):
    warnings.simplefilter("ignore")
    from numbers_parser.cell import Cell
    from numbers_parser.generated import TSTArchives_pb2 as TST
    q = ctx.quick
    ctx.rule = ("encode: every (kind, subset of the 12 optional reference fields) is a TLC state replayed into Cell._to_buffer and "
                "back through Cell._from_storage; decode: every subset of the enumerated flag bits is a TLC state materialised as a "
                "record by the harness's own encoder and fed to Cell._from_storage; plus every cell record of the fixtures judged by "
                "Trace_CellRecord; distinct_nontrivial = distinct (kind, subset) + distinct flag words + distinct fixture records (flags, length)")
    ctx.assumptions = ["a stub model supplies string keys / style keys / rich text so that single records can be encoded and decoded in isolation",
                       "payload values are drawn from C01's domains (sampled); flag subsets are exhaustive"]
    rng = random.Random(ctx.seed + 4)
    model = StubModel()
    dec_bits = list(range(15)) if q else list(range(21))
    stats = {"E": 0, "D": 0}
    LINE_E = re.compile(r'^"E (\w+) (\d+) (\d+) (\d+) <<([\d, ]*)>>"$')
    LINE_D = re.compile(r'^"D (\d+) (\d+) <<([\d, ]*)>>"$')
    celltype = {"number": TST.numberCellType, "text": TST.textCellType, "date": TST.dateCellType, "bool": TST.boolCellType,
                "empty": TST.genericCellType, "rich": TST.automaticCellType, "duration": TST.durationCellType}

    def handle(line):
        m = LINE_E.match(line)
        if m:
            stats["E"] += 1
            kind, optmask, flagmask, end = m.group(1), int(m.group(2)), int(m.group(3)), int(m.group(4))
            sl = [int(x) for x in m.group(5).split(",")] if m.group(5).strip() else []
            slots = dict(zip(sl[0::2], sl[1::2]))
            check_encode(kind, optmask, flagmask, end, slots)
            return True
        m = LINE_D.match(line)
        if m:
            stats["D"] += 1
            mask, end = int(m.group(1)), int(m.group(2))
            sl = [int(x) for x in m.group(3).split(",")] if m.group(3).strip() else []
            check_decode(mask, end, dict(zip(sl[0::2], sl[1::2])))
            return True
        return False

    def check_encode(kind, optmask, flagmask, end, slots):
        cell, v = make_cell(kind, rng, model)
        # ids are distinct sentinels; in every fifth case one of the fields present holds the id 0 (an id like any other)
        present = [b for b in bits_of(optmask) if b in ATTR]
        zb = present[stats["E"] % len(present)] if present and stats["E"] % 5 == 0 else None

        def idv(b):
            return 0 if b == zb else 1000 + b
        if stats["E"] % 3 == 2:
            # EncodeLayout is a function of the cell's fields as they are NOW: the same cell object is first encoded with other
            # fields present (a document is saved, the cell re-formatted, the document saved again), then changed in place
            other = [b for b in ATTR if b not in bits_of(optmask)][: 1 + stats["E"] % 4] + [b for b in bits_of(optmask) if b in ATTR][:1]
            for b in other:
                setattr(cell, ATTR[b], 5000 + b)
            cell._to_buffer()
            for b in other:
                setattr(cell, ATTR[b], None)
        for b in bits_of(optmask):
            setattr(cell, ATTR[b], idv(b))
        buf = cell._to_buffer()
        ctx.evaluations += 1
        key = {"engine": "replay-encode", "kind": kind}
        rp = {"kind": kind, "opt": optmask}
        if buf is None:
            ctx.fail(dict(key, clause="encode.none"), "%s opt=%#x: _to_buffer returned None" % (kind, optmask), rp)
            return
        flags = struct.unpack("<i", buf[8:12])[0]
        if flags != flagmask:
            ctx.fail(dict(key, clause="encode.flags"), "%s opt=%#x: flag word %#x, layout %#x" % (kind, optmask, flags, flagmask), rp)
            return
        if len(buf) != end:
            ctx.fail(dict(key, clause="encode.length"), "%s opt=%#x: record length %d, layout %d" % (kind, optmask, len(buf), end), rp)
            return
        for b, off in slots.items():
            if b in ATTR and b in bits_of(optmask):
                got = struct.unpack("<i", buf[off:off + 4])[0]
                if got != idv(b):
                    ctx.fail(dict(key, clause="encode.slot", bit=b), "%s opt=%#x: field of bit %d at offset %d holds %d" % (kind, optmask, b, off, got), rp)
                    return
        # decode what was encoded
        try:
            c2 = Cell._from_storage(1, 0, 0, bytearray(buf), model)
        except Exception as e:  # noqa: BLE001
            ctx.fail(dict(key, clause="roundtrip.exception"), "%s opt=%#x: %s" % (kind, optmask, type(e).__name__), rp)
            return
        if type(c2).__name__ != type(cell).__name__ or (kind == "currency") != (getattr(c2, "_type", None) == getattr(cell, "_type", None) and kind == "currency"):
            if type(c2).__name__ != type(cell).__name__:
                ctx.fail(dict(key, clause="roundtrip.kind"), "%s opt=%#x decoded as %s" % (kind, optmask, type(c2).__name__), rp)
                return
        if kind == "currency" and c2._type != cell._type:
            ctx.fail(dict(key, clause="roundtrip.kind"), "currency decoded with type %s" % c2._type, rp)
            return
        if kind not in ("empty", "rich") and not same_value(c2.value, v):
            ctx.fail(dict(key, clause="roundtrip.value"), "%s opt=%#x: payload %r decoded as %r" % (kind, optmask, v, c2.value), rp)
            return
        for b in INTERP_IDS:
            if b == 3:
                continue
            want = idv(b) if b in bits_of(optmask) else None
            if getattr(c2, ATTR[b]) != want:
                ctx.fail(dict(key, clause="roundtrip.attr", bit=b), "%s opt=%#x: %s decoded as %r, encoded %r" % (kind, optmask, ATTR[b], getattr(c2, ATTR[b]), want), rp)
                return
        if stats["E"] % 6007 == 1:
            ctx.sample({"encode": kind, "optional_fields": [ATTR[b] for b in bits_of(optmask)], "record_hex": bytes(buf).hex()})

    def check_decode(mask, end, slots):
        bits = bits_of(mask)
        if 0 in bits:
            kind = "number"
        elif 2 in bits:
            kind = "date"
        elif 1 in bits:
            kind = "bool"
        elif 3 in bits:
            kind = "text"
        elif 4 in bits:
            kind = "rich"
        else:
            kind = "empty"
        present = [b for b in slots if b > 2]
        zb = present[stats["D"] % len(present)] if present and stats["D"] % 5 == 0 else None

        def idv(b):
            return 0 if b == zb else 1000 + b
        buf = bytearray(end)
        buf[0] = 5
        buf[1] = celltype[kind]
        buf[8:12] = struct.pack("<i", mask)
        num, dbl, sec = rng.choice(NUMS), 1.0, 86400.0 * rng.randint(-1000, 1000)
        for b, off in slots.items():
            if b == 0:
                buf[off:off + 16] = d128_bytes(num)
            elif b == 1:
                buf[off:off + 8] = struct.pack("<d", dbl)
            elif b == 2:
                buf[off:off + 8] = struct.pack("<d", sec)
            else:
                buf[off:off + 4] = struct.pack("<i", idv(b))
        ctx.evaluations += 1
        key = {"engine": "replay-decode"}
        rp = {"flags": mask}
        try:
            c = Cell._from_storage(1, 0, 0, buf, model)
        except Exception as e:  # noqa: BLE001
            ctx.fail(dict(key, clause="decode.exception", exc=type(e).__name__), "flags %#x: %s: %s" % (mask, type(e).__name__, str(e)[:80]), rp)
            return
        for b in INTERP_IDS:
            want = idv(b) if b in bits else None
            if getattr(c, ATTR[b]) != want:
                ctx.fail(dict(key, clause="decode.slot", bit=b, with_0x100=bool(mask & 0x100), with_0x800=bool(mask & 0x800)),
                         "flags %#x: %s decoded as %r, the layout's slot holds %r" % (mask, ATTR[b], getattr(c, ATTR[b]), want), rp)
                return
        if 0 in bits and c._d128 != num:
            ctx.fail(dict(key, clause="decode.payload"), "flags %#x: decimal payload %r decoded as %r" % (mask, num, c._d128), rp)
        if 1 in bits and c._double != dbl:
            ctx.fail(dict(key, clause="decode.payload"), "flags %#x: double payload decoded as %r" % (mask, c._double), rp)
        if 2 in bits and c._seconds != sec:
            ctx.fail(dict(key, clause="decode.payload"), "flags %#x: seconds payload decoded as %r" % (mask, c._seconds), rp)
        if stats["D"] % 9001 == 1:
            ctx.sample({"decode_flags": hex(mask), "layout_slots": slots})

    def same_value(a, b):
        if isinstance(b, bool) or isinstance(a, bool):
            return a is b or a == b and type(a) is type(b)
        return a == b

    ctx.stage("model-check+replay")
    cfg = ("CONSTANTS DecBits = {%s}\nBug = \"none\"\nSPECIFICATION Spec\nINVARIANT DecodeSlots\nINVARIANT EncodeLayout\n"
           "INVARIANT EncodeComplete\nINVARIANT EmitDec\nINVARIANT EmitEnc\nCHECK_DEADLOCK FALSE\n" % ", ".join(map(str, dec_bits)))
    res = ctx.tlc("CellRecord", cfg, what="MC_CellRecord[9 kinds x 2^12, 2^%d flag words]" % len(dec_bits), stream_to=handle, timeout=7200)
    if res.violated:
        raise Machinery("CellRecord.tla violates %s" % res.violated)
    want_e = 8 * 4096 - 2048   # rich requires its own id: half of its subsets
    if stats["D"] != 2 ** len(dec_bits) or stats["E"] != want_e:
        raise Machinery("emitted %s states, expected D=%d E=%d" % (stats, 2 ** len(dec_bits), want_e))
    ctx.count_distinct(stats["D"] + stats["E"])
    ctx.traces += stats["D"] + stats["E"]
    ctx.exhaustive = True
    # the ninth kind: formula-error cells are not storable - the encoder must say so, not emit a record
    cell, _ = make_cell("error", rng, model)
    with warnings.catch_warnings(record=True) as w:
        warnings.simplefilter("always")
        out = cell._to_buffer()
    if out is not None or not w:
        ctx.fail({"engine": "replay-encode", "clause": "encode.error-cell", "kind": "error"}, "ErrorCell encoded as %r with %d warnings" % (out, len(w)), {"kind": "error"})
    ctx.stage("spec-mutants")
    small = "CONSTANTS DecBits = {0,3,7,8,9,10,11,12,13}\nBug = \"%s\"\nSPECIFICATION Spec\nINVARIANT DecodeSlots\nINVARIANT EncodeLayout\nINVARIANT EncodeComplete\nCHECK_DEADLOCK FALSE\n"
    ctx.tlc("CellRecord", small % "SkipLate", what="Bug_SkipLate", expect_violation="DecodeSlots", count=False)
    ctx.tlc("CellRecord", small % "RichTwice", what="Bug_RichTwice", expect_violation="EncodeLayout", count=False)
    # code -> spec: the records of real documents
    ctx.stage("fixture-records")
    fx = fixtures.readable_fixtures(ctx.workers)
    if q:
        fx = fx[::5]
    res = fixtures.pmap(fixture_records, fx, ctx.workers)
    events = [e for lst in res for e in lst]
    seen = set()
    uniq = []
    for e in events:
        k = (tuple(e["buf"]), tuple(e["ids"]), e["formula_ok"])
        if k not in seen:
            seen.add(k)
            uniq.append(e)
    ctx.extra["fixture_records"] = {"total": len(events), "distinct": len(uniq), "fixtures": len(fx)}
    ctx.evaluations += len(events)
    for e in uniq:
        ctx.distinct.add(("fx", tuple(e["bits"]), len(e["buf"])))
    judge(ctx, uniq)
    ctx.stage("selftest")
    if uniq:
        import copy
        bad = copy.deepcopy(next(e for e in uniq if any(b >= 3 for b in e["bits"])))
        b = next(b for b in bad["bits"] if b >= 3 and b in ATTR)
        bad["ids"][b] = bad["ids"][b] + 1
        saved = ctx.failures
        ctx.failures = []
        judge(ctx, [bad], count=False)
        n = len(ctx.failures)
        ctx.failures = saved
        if n != 1:
            raise Machinery("binding self-test: corrupted record accepted")
        ctx.extra["binding_selftest"] = "a fixture record with one decoded id altered is rejected (slot)"


def judge(ctx, events, count=True):
    B = 30000
    for b0 in range(0, len(events), B):
        part = events[b0:b0 + B]
        path = os.path.join(ctx.scratch, "cr-%d.ndjson" % b0)
        with open(path, "w") as fh:
            for e in part:
                fh.write(json.dumps({k: v for k, v in e.items() if k != "where"}) + "\n")
        res = ctx.tlc("Trace_CellRecord", "Trace_CellRecord.cfg", what="Trace_CellRecord[%d]" % b0, env={"TRACE_FILE": path}, timeout=3000, count=count)
        os.remove(path)
        seen = {}
        for ln in res.printed:
            m = re.match(r'^<<"V", (\d+), "([\w-]+)">>$', ln)
            if m:
                seen[int(m.group(1))] = m.group(2)
        if len(seen) != len(part):
            raise Machinery("Trace_CellRecord: %d verdicts for %d events\n%s" % (len(seen), len(part), res.out[-1500:]))
        if count:
            ctx.traces += len(part)
        for tid, v in seen.items():
            if v == "ok-formula-unresolved":
                ctx.note("formula id of %s does not resolve through Cell.formula (informational)" % part[tid - 1].get("where"))
                continue
            if v != "ok":
                e = part[tid - 1]
                ctx.fail({"engine": "trace", "clause": "fixture." + v, "with_0x100": 8 in e["bits"], "with_0x800": 11 in e["bits"]},
                         "%s: record %s flags bits %s decoded ids %s" % (e.get("where"), bytes(e["buf"]).hex(), e["bits"], e["ids"]), {"event": e})


def fixture_records(path):
    warnings.simplefilter("ignore")
    from numbers_parser import Document
    out = []
    try:
        doc = Document(path)
    except Exception:  # noqa: BLE001
        return out
    for sh in doc.sheets:
        for tb in sh.tables:
            for row in tb.rows():
                for c in row:
                    buf = getattr(c, "_buffer", None)
                    if buf is None or len(buf) < 12 or len(buf) > 200:
                        continue
                    flags = getattr(c, "_flags", None)
                    if flags is None:
                        continue
                    ids = [-1] * 21
                    for b, a in ATTR.items():
                        v = getattr(c, a, None)
                        if v is not None:
                            ids[b] = v
                    ok = True
                    if c._formula_id is not None:
                        try:
                            ok = c.formula is not None
                        except Exception:  # noqa: BLE001
                            ok = False
                    out.append({"buf": list(buf), "bits": [b for b in range(21) if flags >> b & 1], "ids": ids, "formula_ok": ok,
                                "where": "%s/%s/%s[%d,%d]" % (os.path.basename(path), sh.name, tb.name, c.row, c.col)})
    return out


def replay(ctx, data):
    print(json.dumps(data["replay"])[:2000])
    return 0

"""C01 - values written to cells are read back exactly after save and reopen.

spec/Decimal.tla (digit-sequence values, decimal128 denotation), spec/Trace_Decimal.tla (judge),
spec/Workbook.tla (+ wbcheck) for the position / growth / table-shape part."""
import hashlib
import json
import os
import random
import re
import warnings
from datetime import datetime, timedelta
from decimal import Decimal

from .. import fixtures, wb, wbcheck
from ..core import Machinery

D0 = datetime(1, 1, 1)


def num_form(x):
    t = Decimal(repr(float(x))).as_tuple() if isinstance(x, float) else Decimal(x).as_tuple()
    return [int(t.sign), [int(d) for d in t.digits], int(t.exponent)]


def text_form(s):
    if len(s) <= 200:
        return [ord(c) for c in s]
    return [len(s), int(hashlib.sha256(s.encode("utf-8", "surrogatepass")).hexdigest()[:7], 16)]


def canon_event(written, cell):
    """-> event dict for Trace_Decimal"""
    r = cell.value
    rk = type(cell).__name__
    if isinstance(written, bool):
        kind, w = "bool", int(written)
        rr = int(r) if isinstance(r, bool) else -1
    elif isinstance(written, (int, float)):
        kind, w = "num", num_form(written)
        rr = num_form(r) if isinstance(r, (int, float)) and not isinstance(r, bool) else [0, [9, 9, 9], 99]
    elif isinstance(written, str):
        kind, w = "text", text_form(written)
        rr = text_form(r) if isinstance(r, str) else [-1]
    elif isinstance(written, datetime):
        kind = "date"
        d = written - D0
        w = [d.days, d.seconds, d.microseconds]
        if isinstance(r, datetime):
            d2 = r - D0
            rr = [d2.days, d2.seconds, d2.microseconds]
        else:
            rr = [-1, -1, -1]
    else:
        kind = "dur"
        w = [written.days, written.seconds, written.microseconds]
        rr = [r.days, r.seconds, r.microseconds] if isinstance(r, timedelta) else [-1, -1, -1]
    st = []
    if kind == "num":
        buf = getattr(cell, "_buffer", None)
        if buf is not None and len(buf) >= 28 and (buf[8] & 1):
            p = bytes(buf[12:28])
            coeff = int.from_bytes(p[:14], "little") | ((p[14] & 1) << 112)
            exp = (((p[15] & 0x7F) << 7) | (p[14] >> 1)) - 0x1820
            st = [1 if p[15] & 0x80 else 0, [int(c) for c in str(coeff)], exp]
    return {"kind": kind, "w": w, "r": rr, "rk": rk, "st": st}


# ------------------------------------------------------------------ value domains (C01's quantifier)
def gen_values(rng, n, tier_quick):
    out = []
    # integers
    k = n // 6
    out += list(range(0, min(k // 2, 100001)))
    out += [-x for x in range(1, min(k // 4, 100001))]
    out += [rng.randrange(-10 ** 15 + 1, 10 ** 15) for _ in range(k // 4)]
    out += [10 ** 15 - 1, -(10 ** 15 - 1), 999999999999999, 100000000000000, 12, 50, 52]
    # 2-decimal prices
    out += [round(rng.randrange(0, 1000000) / 100, 2) for _ in range(k)]
    out += [0.12, 0.01, 0.07, 9999.99, 1.1, 2.2, 3.3, 0.1, 0.2, 0.3]
    # 1..3 significant digit mantissas x exponents -290..290
    for _ in range(k):
        m = rng.randrange(1, 1000)
        e = rng.randrange(-290, 288)
        out.append(float("%de%d" % (m, e)) * rng.choice([1, -1]))
    # up to 15 significant digits, any exponent in range
    for _ in range(k):
        d = rng.randint(1, 15)
        m = rng.randrange(10 ** (d - 1), 10 ** d)
        e = rng.randrange(-290, 290 - d)
        x = float("%de%d" % (m, e))
        if 1e-290 <= abs(x) <= 1e290:
            out.append(x * rng.choice([1, -1]))
    out += [0.0, 1e-290, 1e290, -1e290, 846400000000.0, 1.5e300 if False else 1e289, 123456789012345.0, 0.000123456789012345]
    # text
    texts = ["", " ", "multi\nline\ntext", "tab\tsep", "😀 astral 𝔘𝔫𝔦", "12", "1e5", "nan", "TRUE", "=SUM(A1)", "'quoted'", '"dq"', "ß→ü", "​",
             "x" * 1000, "y" * 100000 if not tier_quick else "y" * 20000, "a,b;c", "  lead and trail  ", "\r\n", "\x01ctl",
             # every kind of line end, alone and mixed, inside and at the ends of the text
             "win\r\ndows", "two\r\n\r\nlines", "old\rmac", "mixed\r\n\n\rends", "\r\nlead", "trail\r\n", "nel\x85sep", "ls\u2028ps\u2029", "\n", "\r", "vt\x0bff\x0c"]
    cats = [0x41, 0x61, 0x30, 0x20, 0x5F, 0x2D, 0x28, 0x29, 0xAB, 0xBB, 0x2B, 0x24, 0x5E, 0xA9, 0x300, 0x903, 0x488, 0x2160, 0xB2,
            0x1C5, 0x2B0, 0x5D0, 0x4E00, 0xE000, 0x2028, 0x2029, 0xAD, 0x10FFFF, 0x1F600, 0xFFFD, 0x7F, 0x85]
    for cp in cats:
        texts.append("c" + chr(cp) + "d")
    for _ in range(k // 3):
        ln = rng.randint(1, 12)
        texts.append("".join(chr(rng.choice([rng.randrange(32, 127), rng.randrange(0xA0, 0x800), rng.randrange(0x4E00, 0x9FFF), rng.randrange(0x1F300, 0x1FAFF)]))
                             for _ in range(ln)))
    out += texts
    out += [True, False] * 5
    # datetimes: whole seconds for years 1..9999 (every year at a random instant), microseconds within 1900..2100
    years = range(1, 10000) if not tier_quick else list(range(1, 10000, 7)) + [1, 2, 1899, 1900, 2000, 2001, 2100, 2101, 9998, 9999]
    for y in years:
        try:
            out.append(datetime(y, rng.randint(1, 12), rng.randint(1, 28), rng.randint(0, 23), rng.randint(0, 59), rng.randint(0, 59)))
        except ValueError:
            pass
    out += [datetime(1, 1, 1), datetime(9999, 12, 31, 23, 59, 59), datetime(2001, 1, 1), datetime(2000, 12, 31, 23, 59, 59), datetime(1970, 1, 1)]
    for _ in range(k // 2):
        out.append(datetime(rng.randint(1900, 2100), rng.randint(1, 12), rng.randint(1, 28), rng.randint(0, 23), rng.randint(0, 59),
                            rng.randint(0, 59), rng.randrange(0, 1000000)))
    # durations within +-100 years at microsecond resolution
    for _ in range(k // 2):
        out.append(timedelta(microseconds=rng.randrange(-36525 * 86400 * 10 ** 6, 36525 * 86400 * 10 ** 6)))
    out += [timedelta(0), timedelta(microseconds=1), timedelta(microseconds=-1), timedelta(seconds=0.5), timedelta(days=36525), timedelta(days=-36525),
            timedelta(seconds=-90), timedelta(milliseconds=999), timedelta(hours=1, microseconds=500000)]
    rng.shuffle(out)
    return out


def file_job(job):
    (idx, values, shape, scratch) = job
    warnings.simplefilter("ignore")
    from numbers_parser import Document
    nr, nc = shape
    doc = Document(num_rows=1, num_cols=1, num_header_rows=0, num_header_cols=0)
    tb = doc.sheets[0].tables[0]
    pos = []
    # row-major fill of an nr x nc area; the first write outside the 1x1 table makes it grow
    for i, v in enumerate(values):
        r, c = divmod(i, nc)
        pos.append((r, c))
    events = []
    errors = []
    for (r, c), v in zip(pos, values):
        try:
            tb.write(r, c, v)
        except Exception as e:  # noqa: BLE001
            errors.append(("write", repr(v)[:60], type(e).__name__ + ":" + str(e)[:60]))
    path = os.path.join(scratch, "c01-%d-%d.numbers" % (os.getpid(), idx))
    # every fourth file is saved in the package form (a folder: archives in Index.zip, other members loose) - also when saved twice
    pkg = dict(package=True) if idx % 4 == 3 else {}
    try:
        if idx % 3 == 1 and len(values) > 20:
            # the same Document object saved more than once with further writes in between (documents are saved repeatedly in
            # practice): everything written so far must read back from the LAST file
            half = len(values) // 2
            doc.save(path, **pkg)
            for (r, c), v in list(zip(pos, values))[half:]:
                tb.write(r, c, v)
            for (r, c), v in list(zip(pos, values))[:half:7]:
                tb.write(r, c, v)
        doc.save(path, **pkg)
        if idx % 3 == 2 and len(values) > 20:
            # a saved document is opened, edited further and saved again: values read from the file and values written now
            # must both be in the second file
            docr = Document(path)
            tbr = docr.sheets[0].tables[0]
            for (r, c), v in list(zip(pos, values))[::5]:
                tbr.write(r, c, v)
            docr.save(path, **pkg)
        doc2 = Document(path)
        tb2 = doc2.sheets[0].tables[0]
        for (r, c), v in zip(pos, values):
            try:
                cell = tb2.cell(r, c)
                e = canon_event(v, cell)
                e["where"] = "file %d [%d,%d] value %s" % (idx, r, c, repr(v)[:50])
                events.append(e)
            except Exception as ex:  # noqa: BLE001
                errors.append(("read", repr(v)[:60], type(ex).__name__ + ":" + str(ex)[:60]))
    except Exception as ex:  # noqa: BLE001
        errors.append(("save", "file %d shape %s" % (idx, shape), type(ex).__name__ + ":" + str(ex)[:80]))
    finally:
        if os.path.isdir(path):
            import shutil
            shutil.rmtree(path)
        elif os.path.exists(path):
            os.remove(path)
    return events, errors


def judge(ctx, events, label, count=True):
    B = 25000
    bad = 0
    for b0 in range(0, len(events), B):
        part = events[b0:b0 + B]
        path = os.path.join(ctx.scratch, "dec-%d.ndjson" % b0)
        with open(path, "w") as fh:
            for e in part:
                fh.write(json.dumps({k: v for k, v in e.items() if k != "where"}) + "\n")
        res = ctx.tlc("Trace_Decimal", "Trace_Decimal.cfg", what="Trace_Decimal[%s,%d]" % (label, b0), env={"TRACE_FILE": path}, timeout=3000, count=count)
        os.remove(path)
        seen = {}
        for m in re.finditer(r'^"V (\d+) ([\w-]+) ([\w-]+)"$', res.out, re.M):
            seen[int(m.group(1))] = (m.group(2), m.group(3))
        if len(seen) != len(part):
            raise Machinery("Trace_Decimal: %d verdicts for %d events\n%s" % (len(seen), len(part), res.out[-1500:]))
        if count:
            ctx.traces += len(part)
        for tid, (a, b) in seen.items():
            e = part[tid - 1]
            if a != "ok":
                bad += 1
                ctx.fail({"engine": "trace", "clause": a, "kind": {"num": "number"}.get(e["kind"], e["kind"])},
                         "%s: written %s read %s (%s)" % (e.get("where"), json.dumps(e["w"])[:120], json.dumps(e["r"])[:120], e["rk"]), {"event": e})
            elif b != "ok":
                ctx.drifted("%s: stored decimal128 payload %s does not denote the written value %s" % (e.get("where"), e["st"], e["w"]))
    return bad


def run(ctx):
    q = ctx.quick
    ctx.rule = ("one event per cell written, saved, reopened and read; values are drawn from every class of the quantifier (all integers "
                "0..N and negatives, 2-decimal prices, 1-3 digit mantissas x exponents -290..290, up to 15 significant digits, texts of every "
                "kind, both bools, datetimes of every (sampled) year, microsecond instants, durations +-100 years); distinct_nontrivial = "
                "distinct (kind, canonical value) pairs")
    ctx.assumptions = ["repr(float) is the shortest round-trip spelling; Decimal/int.from_bytes are exact (trusted base for turning floats into digit sequences)",
                       "texts longer than 200 characters are compared by length and SHA-256"]
    ctx.stage("model-check")
    mc = "CONSTANTS MaxDigits = %d\nMaxExp = %d\nBug = \"%s\"\nSPECIFICATION Spec\nINVARIANT NormIdempotent\nINVARIANT NormCanonical\nINVARIANT RoundTrip\nINVARIANT EncShape\nCHECK_DEADLOCK FALSE\n"
    ctx.tlc("Decimal", mc % (3, 6, "none") if q else mc % (4, 8, "none"), what="MC_Decimal", timeout=3000)
    ctx.tlc("Decimal", mc % (3, 3, "FloatScale"), what="Bug_FloatScale", expect_violation="RoundTrip", count=False)
    ctx.stage("sweep")
    rng = random.Random(ctx.seed + 1)
    n = 30000 if q else 400000
    values = gen_values(rng, n, q)
    shapes = [(None, 1), (None, 40), (None, 300), (None, 8)]
    per = 4000 if q else 20000
    jobs = []
    i = 0
    k = 0
    while i < len(values):
        chunk = values[i:i + per]
        nc = shapes[k % len(shapes)][1]
        jobs.append((k, chunk, (None, nc), ctx.scratch))
        i += per
        k += 1
    res = fixtures.pmap(file_job, jobs, ctx.workers)
    events = [e for ev, _ in res for e in ev]
    errors = [x for _, er in res for x in er]
    for (stage, what, exc) in errors[:50]:
        ctx.fail({"engine": "sweep", "clause": stage + ".exception", "exc": exc.split(":")[0]}, "%s of %s raised %s" % (stage, what, exc), {"value": what})
    ctx.evaluations += len(events)
    for e in events:
        ctx.distinct.add((e["kind"], json.dumps(e["w"])))
    for e in events[:3]:
        ctx.sample({k: v for k, v in e.items()})
    ctx.extra["files"] = len(jobs)
    ctx.stage("judge")
    judge(ctx, events, "sweep")
    # position / growth / shape part: Workbook behaviours (writes outside the bounds, save, reopen) under boundary profiles
    ctx.stage("shapes")
    gen = wbcheck.cfg(depth=4, maxr=3, maxc=3, maxt=1, view=False, props=False, names=("T2",), defaults=("e",), counts=(1,),
                      ops=["write", "save", "open"], rowargs=[1, 2, 3], colargs=[1, 3])
    hist, _ = wbcheck.histories_from_dump(ctx, gen, "Gen_Workbook[writes only]")
    hist = [h for h in hist if any(o["op"] == "open" for o in h[0])]
    sel = rng.sample(hist, min(len(hist), 40 if q else 300))
    traces = []
    profiles = ((0, 0), (254, 0), (0, 254)) if q else ((0, 0), (254, 0), (255, 0), (510, 0), (0, 254), (0, 255), (300, 300), (598, 258))
    for (ro, co) in profiles:
        traces += wbcheck.replay(ctx, sel, dict(row_off=ro, col_off=co, hdr=(1, 1) if ro else (0, 0)), label="shape-%d-%d" % (ro, co))
    wbcheck.validate(ctx, traces, nhandles=1, label="shapes", batch=100)
    if not q:
        big_table(ctx)
    ctx.stage("selftest")
    good = [e for e in events if e["kind"] == "num" and e["w"][1]][:1]
    if good:
        import copy
        b1 = copy.deepcopy(good[0])
        b1["r"][1] = b1["r"][1][:-1] + [(b1["r"][1][-1] + 1) % 10 or 1] if b1["r"][1] else [1]
        b2 = copy.deepcopy(good[0])
        b2["rk"] = "TextCell"
        saved = ctx.failures
        ctx.failures = []
        judge(ctx, [b1, b2], "selftest", count=False)
        got = sorted(f[0]["clause"] for f in ctx.failures)
        ctx.failures = saved
        if got != ["type", "value"]:
            raise Machinery("binding self-test: corrupted events judged %s" % got)
        ctx.extra["binding_selftest"] = "a read value altered in its last digit and a wrong cell class are both rejected"


def big_table(ctx):
    """one write at the last allowed row of a single-column table: growth to MAX_ROW_COUNT rows, save, reopen"""
    from numbers_parser import Document
    from numbers_parser.constants import MAX_COL_COUNT, MAX_ROW_COUNT
    warnings.simplefilter("ignore")
    for (r, c) in ((MAX_ROW_COUNT - 1, 0), (0, MAX_COL_COUNT - 1)):
        doc = Document(num_rows=1, num_cols=1, num_header_rows=0, num_header_cols=0)
        tb = doc.sheets[0].tables[0]
        try:
            tb.write(r, c, 12.5)
            tb.write(0, 0, "first")
            path = os.path.join(ctx.scratch, "c01-big.numbers")
            doc.save(path)
            d2 = Document(path)
            t2 = d2.sheets[0].tables[0]
            ok = (t2.num_rows, t2.num_cols) == (r + 1, c + 1) and t2.cell(r, c).value == 12.5 and t2.cell(0, 0).value == "first"
            os.remove(path)
        except Exception as e:  # noqa: BLE001
            ok = False
            ctx.note("limit table %s raised %s" % ((r, c), type(e).__name__))
        ctx.evaluations += 1
        if not ok:
            ctx.fail({"engine": "limits", "clause": "limit-shape"}, "write at (%d,%d) then save/reopen did not give a %dx%d table with the value" % (r, c, r + 1, c + 1), {"pos": [r, c]})


def replay(ctx, data):
    print(json.dumps(data["replay"])[:2000])
    return 0

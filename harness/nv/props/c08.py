"""C08 - formula text is a faithful infix rendering of the stored expression.

spec/FormulaStack.tla (program builder, Render, Parse, the code's stack machine)."""
import json
import os
import random
import re
import warnings
from datetime import datetime, timedelta
from decimal import Decimal

from .. import fixtures, wb
from ..core import Machinery

OPS = {"add": "ADDITION_NODE", "sub": "SUBTRACTION_NODE", "mul": "MULTIPLICATION_NODE", "div": "DIVISION_NODE", "pow": "POWER_NODE",
       "cat": "CONCATENATION_NODE", "eq": "EQUAL_TO_NODE", "ne": "NOT_EQUAL_TO_NODE", "lt": "LESS_THAN_NODE", "gt": "GREATER_THAN_NODE",
       "le": "LESS_THAN_OR_EQUAL_TO_NODE", "ge": "GREATER_THAN_OR_EQUAL_TO_NODE"}
GLYPH = {"add": "+", "sub": "-", "mul": "×", "div": "÷", "pow": "^", "cat": "&", "eq": "=", "ne": "≠", "lt": "<", "gt": ">", "le": "≤", "ge": "≥"}
CLASS_MEMBERS = {"eq": ["eq", "ne", "lt", "gt", "le", "ge"], "cat": ["cat"], "add": ["add", "sub"], "sub": ["sub", "add"], "mul": ["mul", "div"],
                 "div": ["div", "mul"], "pow": ["pow"]}
NUMBERS = [0, 1, 12, 7, 1000000, 0.5, 1234.5678, 0.001, 1e-7, 2.5e-7, 123456789012345, 99.99, 1.25e20, 1e22, 3.0e16]
# integer literals beyond 2^53: Numbers keeps them exactly in the decimal128 coefficient next to a double that is only close
BIGINTS = [2 ** 53 + 1, 9999999999999999, 2 ** 63 - 1, 2 ** 60 + 1, 10 ** 18 + 1, 123456789012345678]
STRINGS = ["abc", 'with "quote"', "comma, paren ) (", "", "ünï", "it's", "semi;colon", "{brace}", "a&b=c",
           # runs of quotes: every quote of the stored text is doubled in the formula text, wherever it stands
           'a""b', '""', 'x"""', '"', '"lead', 'trail"', '""""']
BAD_FUNCS = {"DATE"}


def cfg(leaf, ops, nodes, arity, feats, bug="none", emit=False):
    return ("CONSTANTS LeafKinds = {%s}\nBinOps = {%s}\nMaxNodes = %d\nMaxArity = %d\nFeatures = {%s}\nBug = \"%s\"\nSPECIFICATION Spec\n"
            "INVARIANT Faithful\nINVARIANT MachineAgrees\n%sCHECK_DEADLOCK FALSE\n"
            % (", ".join('"%s"' % x for x in leaf), ", ".join('"%s"' % x for x in ops), nodes, arity, ", ".join('"%s"' % x for x in feats), bug,
               "INVARIANT EmitProg\n" if emit else ""))


# ------------------------------------------------------------------ the projection function: formula text -> tokens -> tree
TOKEN_RE = re.compile(r'\s*(?:(?P<str>"(?:[^"]|"")*")|(?P<date>DATE\(\d+,\d+,\d+\))|(?P<func>[A-Z][A-Z0-9_.]*)\(|(?P<bool>TRUE|FALSE)'
                      r'|(?P<ref>\$?[A-Z]{1,3}\$?\d+)|(?P<num>\d+(?:\.\d+)?(?:E[+-]?\d+)?)|(?P<op>[-+×÷^&=≠<>≤≥%(),;{}]))')


def tokenize(text):
    """-> (class tokens in the spec's alphabet, literal list) or raises ValueError"""
    pos = 0
    toks, lits = [], []
    while pos < len(text):
        m = TOKEN_RE.match(text, pos)
        if not m or m.end() == pos:
            raise ValueError("cannot tokenize %r at %d" % (text, pos))
        pos = m.end()
        if m.group("str") is not None:
            toks.append("s")
            lits.append(("s", m.group("str")[1:-1].replace('""', '"')))
        elif m.group("date"):
            toks.append("d")
            lits.append(("d", tuple(int(x) for x in re.findall(r"\d+", m.group("date")))))
        elif m.group("func"):
            toks += ["f", "("]
            lits.append(("f", m.group("func")))
        elif m.group("bool"):
            toks.append("b")
            lits.append(("b", m.group("bool") == "TRUE"))
        elif m.group("ref"):
            toks.append("r")
            lits.append(("r", m.group("ref")))
        elif m.group("num"):
            toks.append("n")
            lits.append(("n", Decimal(m.group("num"))))
        else:
            g = m.group("op")
            toks.append({"×": "*", "÷": "/", "=": "eq", "≠": "ne", "<": "lt", ">": "gt", "≤": "le", "≥": "ge", "{": "[", "}": "]"}.get(g, g))
    return toks, lits


PREC = {"eq": 1, "ne": 1, "lt": 1, "gt": 1, "le": 1, "ge": 1, "&": 2, "+": 3, "-": 3, "*": 4, "/": 4, "^": 5}


def parse(ts):
    """the same grammar as FormulaStack!Parse (precedence climbing); trees as nested tuples"""
    def tok(p):
        return ts[p] if p < len(ts) else "EOF"

    def expr(p, minp):
        lhs, p = unary(p)
        while tok(p) in PREC and PREC[tok(p)] >= minp:
            g = tok(p)
            rhs, p = expr(p + 1, PREC[g] + 1)
            lhs = ("bin", g, lhs, rhs)
        return lhs, p

    def unary(p):
        if tok(p) == "-":
            x, p = unary(p + 1)
            return ("neg", x), p
        t, p = primary(p)
        while tok(p) == "%":
            t = ("pct", t)
            p += 1
        return t, p

    def args(p, close):
        out = []
        if tok(p) == close:
            return out, p + 1
        while True:
            if tok(p) in (",", close):
                out.append(("empty",))
            else:
                a, p = expr(p, 1)
                out.append(a)
            if tok(p) == ",":
                p += 1
                if tok(p) == close:
                    out.append(("empty",))
                    return out, p + 1
                continue
            if tok(p) == close:
                return out, p + 1
            raise ValueError("bad argument list at %d" % p)

    def primary(p):
        g = tok(p)
        if g == "(":
            a, p = args(p + 1, ")")
            return ("list", tuple(a)), p
        if g == "f":
            a, p = args(p + 2, ")")
            return ("call", tuple(a)), p
        if g == "[":
            rows, row = [], []
            p += 1
            while True:
                e, p = primary(p)
                row.append(e)
                if tok(p) == ",":
                    p += 1
                elif tok(p) == ";":
                    rows.append(row)
                    row = []
                    p += 1
                elif tok(p) == "]":
                    rows.append(row)
                    return ("arr", tuple(tuple(r) for r in rows)), p + 1
                else:
                    raise ValueError("bad array at %d" % p)
        if g in ("n", "s", "b", "d", "r"):
            return ("leaf", g), p + 1
        raise ValueError("unexpected token %r at %d" % (g, p))
    t, p = expr(0, 1)
    if p != len(ts):
        raise ValueError("trailing tokens at %d" % p)
    return t


# ------------------------------------------------------------------ program -> real AST nodes
def build_nodes(prog, rng, host):
    """prog: list of node names from TLC; returns (AST node dicts, expected literal list in text order is computed by render order)"""
    from numbers_parser.generated.functionmap import FUNCTION_MAP
    fids = [k for k, v in FUNCTION_MAP.items() if v not in BAD_FUNCS and re.match(r"^[A-Z][A-Z0-9_.]*$", v)]
    nodes = []
    stack = []      # per stack entry: list of literals in text order
    for nd in prog:
        if nd == "n":
            v = rng.choice(NUMBERS) if rng.random() < 0.9 else rng.choice(BIGINTS)
            if v in BIGINTS:
                nodes.append({"AST_node_type": "NUMBER_NODE", "AST_number_node_number": float(v), "AST_number_node_decimal_low": v,
                              "AST_number_node_decimal_high": 0x3040000000000000})
                stack.append([("n", Decimal(v))])
                continue
            if float(v).is_integer() and abs(v) < 1e15:
                nodes.append({"AST_node_type": "NUMBER_NODE", "AST_number_node_number": int(v), "AST_number_node_decimal_low": int(v),
                              "AST_number_node_decimal_high": 0x3040000000000000})
            else:
                nodes.append({"AST_node_type": "NUMBER_NODE", "AST_number_node_number": float(v), "AST_number_node_decimal_low": 1,
                              "AST_number_node_decimal_high": 0x3000000000000000})
            stack.append([("n", Decimal(repr(float(v))) if not float(v).is_integer() or abs(v) >= 1e15 else Decimal(int(v)))])
        elif nd == "s":
            v = rng.choice(STRINGS)
            nodes.append({"AST_node_type": "STRING_NODE", "AST_string_node_string": v})
            stack.append([("s", v)])
        elif nd == "b":
            v = rng.random() < 0.5
            nodes.append({"AST_node_type": "BOOLEAN_NODE", "AST_boolean_node_boolean": v})
            stack.append([("b", v)])
        elif nd == "d":
            if rng.random() < 0.5:
                dt = datetime(2001, 1, 1) + timedelta(days=rng.randint(-30000, 30000))
            else:
                # calendar boundaries: the days around a new year (ISO week years differ from calendar years there), month ends, leap days
                y = rng.choice([1900, 1999, 2000, 2001, 2004, 2016, 2020, 2021, 2024, 2025, 2026, 2027, 2032, 2100])
                dt = rng.choice([datetime(y, 12, 29), datetime(y, 12, 30), datetime(y, 12, 31), datetime(y, 1, 1), datetime(y, 1, 2), datetime(y, 1, 3),
                                 datetime(y, 2, 28), datetime(y, 3, 1) - timedelta(days=1), datetime(y, 3, 1), datetime(y, 6, 30), datetime(y, 10, 31)])
            nodes.append({"AST_node_type": "DATE_NODE", "AST_date_node_dateNum": float((dt - datetime(2001, 1, 1)).total_seconds())})
            stack.append([("d", (dt.year, dt.month, dt.day))])
        elif nd == "r":
            r_abs, c_abs = rng.random() < 0.4, rng.random() < 0.4
            tr, tc = rng.randint(0, 30), rng.randint(0, 6)
            nodes.append({"AST_node_type": "CELL_REFERENCE_NODE",
                          "AST_row": {"row": tr if r_abs else tr - host[0], "absolute": r_abs},
                          "AST_column": {"column": tc if c_abs else tc - host[1], "absolute": c_abs}})
            stack.append([("r", ("$" if c_abs else "") + wb.colname(tc) + ("$" if r_abs else "") + str(tr + 1))])
        elif nd == "empty":
            nodes.append({"AST_node_type": "EMPTY_ARGUMENT_NODE"})
            stack.append([])
        elif nd in OPS:
            op = rng.choice(CLASS_MEMBERS[nd])
            nodes.append({"AST_node_type": OPS[op]})
            r, l = stack.pop(), stack.pop()
            stack.append(l + [("op", op)] + r)
        elif nd == "ws":
            # the blanks the user typed are kept as nodes of their own; the library's text has none, the expression is unchanged
            nodes.append({"AST_node_type": rng.choice(["PREPEND_WHITESPACE_NODE", "APPEND_WHITESPACE_NODE"]), "AST_whitespace": rng.choice([" ", "  ", "\n "])})
        elif nd == "neg":
            nodes.append({"AST_node_type": "NEGATION_NODE"})
            stack.append([("op", "neg")] + stack.pop())
        elif nd == "pct":
            nodes.append({"AST_node_type": "PERCENT_NODE"})
            stack.append(stack.pop() + [("op", "pct")])
        elif nd.startswith("call"):
            n = int(nd[4:])
            fid = rng.choice(fids)
            nodes.append({"AST_node_type": "FUNCTION_NODE", "AST_function_node_index": fid, "AST_function_node_numArgs": n})
            a = [stack.pop() for _ in range(n)][::-1]
            stack.append([("f", FUNCTION_MAP[fid])] + [x for part in a for x in part])
        elif nd.startswith("list"):
            n = int(nd[4:])
            nodes.append({"AST_node_type": "LIST_NODE", "AST_list_node_numArgs": n})
            a = [stack.pop() for _ in range(n)][::-1]
            stack.append([x for part in a for x in part])
        elif nd.startswith("arr"):
            r, c = (int(x) for x in nd[3:].split("x"))
            nodes.append({"AST_node_type": "ARRAY_NODE", "AST_array_node_numRow": r, "AST_array_node_numCol": c})
            a = [stack.pop() for _ in range(r * c)][::-1]
            stack.append([x for part in a for x in part])
        else:
            raise ValueError("unknown node " + nd)
    return nodes, stack[0]


OPCLASS = {"add": "+", "sub": "-", "mul": "*", "div": "/", "pow": "^", "cat": "&"}


def expected_tokens(render, lits):
    """the spec's rendering with operator class representatives replaced by the members actually used"""
    ops = [x[1] for x in lits if x[0] == "op"]
    out = []
    k = 0
    depthless = list(render)
    # operator occurrences appear in the text in the same left-to-right order as in lits
    i = 0
    prev = None
    for t in depthless:
        is_bin = t in ("+", "-", "*", "/", "^", "&", "eq", "ne", "lt", "gt", "le", "ge") and not (t == "-" and prev in (None, "(", ",", ";", "+", "-", "*", "/", "^", "&", "eq", "ne", "lt", "gt", "le", "ge", "["))
        is_neg = t == "-" and not is_bin
        if is_bin or is_neg or t == "%":
            op = ops[i]
            i += 1
            out.append({"neg": "-", "pct": "%"}.get(op) or OPCLASS.get(op, op))
        else:
            out.append(t)
        prev = t
    return out


def batch_job(job):
    """inject a batch of programs as formulas of one table, save, reopen, read Cell.formula twice"""
    (idx, progs, seed, scratch) = job
    warnings.simplefilter("ignore")
    from numbers_parser import Document
    from numbers_parser.generated import TSCEArchives_pb2 as TSCE
    rng = random.Random(seed)
    n = len(progs)
    doc = Document(num_rows=n, num_cols=3, num_header_rows=0, num_header_cols=0)
    tb = doc.sheets[0].tables[0]
    model = doc._model
    table_id = tb._table_id
    model._formulas.add_table(table_id)
    expect = []
    for i, (prog, render) in enumerate(progs):
        host = (i, 1)
        nodes, lits = build_nodes(prog, rng, host)
        tb.write(i, 1, 1.0)
        arch = TSCE.FormulaArchive(**{"AST_node_array": {"AST_node": nodes}})
        key = model._formulas.lookup_key(table_id, arch)
        tb.rows()[i][1]._formula_id = key
        expect.append((prog, render, lits, 1))
        if "r" in prog and i % 2 == 0:
            # the same stored expression shared by the neighbouring cell of the row (what "fill right" produces): its relative
            # references resolve against the other host cell
            tb.write(i, 2, 1.0)
            tb.rows()[i][2]._formula_id = key
            refs = [nd for nd in nodes if nd["AST_node_type"] == "CELL_REFERENCE_NODE"]
            lits2, k = [], 0
            for lt in lits:
                if lt[0] == "r":
                    nd = refs[k]
                    k += 1
                    r_abs, c_abs = nd["AST_row"]["absolute"], nd["AST_column"]["absolute"]
                    tr = nd["AST_row"]["row"] if r_abs else i + nd["AST_row"]["row"]
                    tc = nd["AST_column"]["column"] if c_abs else 2 + nd["AST_column"]["column"]
                    lits2.append(("r", ("$" if c_abs else "") + wb.colname(tc) + ("$" if r_abs else "") + str(tr + 1)))
                else:
                    lits2.append(lt)
            expect.append((prog, render, lits2, 2))
    path = os.path.join(scratch, "c08-%d-%d.numbers" % (os.getpid(), idx))
    out = []
    try:
        doc.save(path)
        t2 = Document(path).sheets[0].tables[0]
        order = list(range(len(expect)))
        # rows with a shared expression are read right-to-left in half of the cases
        for j in range(len(order) - 1):
            if expect[j + 1][3] == 2 and (j // 2) % 2 == 1:
                order[j], order[j + 1] = order[j + 1], order[j]
        rowof, r = [], -1
        for e in expect:
            if e[3] == 1:
                r += 1
            rowof.append(r)
        res = {}
        for j in order:
            (prog, render, lits, col) = expect[j]
            i = rowof[j]
            c = t2.cell(i, col)
            try:
                a = c.formula
                b = c.formula
                res[j] = (prog, render, lits, a, b, "")
            except Exception as e:  # noqa: BLE001
                res[j] = (prog, render, lits, None, None, "%s:%s" % (type(e).__name__, str(e)[:80]))
        out = [res[j] for j in range(len(expect))]
    except Exception as e:  # noqa: BLE001
        out = [(p, r, l, None, None, "save/open %s:%s" % (type(e).__name__, str(e)[:80])) for p, r, l, _ in expect]
    if os.path.exists(path):
        os.remove(path)
    return out


def judge_case(ctx, prog, render, lits, text, text2, exc):
    key = {"engine": "replay"}
    rp = {"prog": prog, "text": text}
    if exc:
        ctx.fail(dict(key, clause="raised", exc=exc.split(":")[0]), "program %s: %s" % (" ".join(prog), exc), rp)
        return
    if text != text2:
        ctx.fail(dict(key, clause="nondeterministic"), "program %s read as %r then %r" % (" ".join(prog), text, text2), rp)
        return
    try:
        toks, got_lits = tokenize(text)
        tree = parse(toks)
    except ValueError as e:
        ctx.fail(dict(key, clause="unreadable"), "program %s rendered as %r: %s" % (" ".join(prog), text, e), rp)
        return
    want_toks = expected_tokens(render, lits)
    want_tree = parse(want_toks)
    if tree != want_tree:
        ctx.fail(dict(key, clause="tree", ops=",".join(sorted({x[1] for x in lits if x[0] == "op"}))),
                 "program %s rendered as %r: denotes %s, stored expression is %s" % (" ".join(prog), text, tree, want_tree), rp)
        return
    want_lits = [x for x in lits if x[0] != "op"]
    if got_lits != want_lits:
        diffs = [(g, w) for g, w in zip(got_lits + [None] * len(want_lits), want_lits + [None] * len(got_lits)) if g != w]

        def is_big(d):
            # (F20 is about literals printed from their double; the exact integer literals of BIGINTS are printed from the coefficient)
            return bool(d and d[1] and d[1][0] == "n" and "e+" in repr(float(d[1][1])) and int(d[1][1]) not in BIGINTS)
        # a literal of the kind recorded as F20 must not hide another wrong literal of the same formula
        diff = next((d for d in diffs if not is_big(d)), diffs[0] if diffs else None)
        big = is_big(diff)
        ctx.fail(dict(key, clause="literal", kind=(diff[1] or diff[0] or ("?",))[0] if diff else "?", float_repr="e+" if big else "plain"),
                 "program %s rendered as %r: literals %s, stored %s" % (" ".join(prog), text, str(diff[0])[:80], str(diff[1])[:80]), rp)
        return
    if toks != want_toks:
        ctx.drifted("program %s rendered as %r: same expression, different token text than the machine model" % (" ".join(prog), text))


def run(ctx):
    q = ctx.quick
    ctx.rule = ("every well-formed program (post-fix node array) the FormulaStack builder can reach within the node bound is one case: it is "
                "materialised as a real formula archive, saved, reopened and read; distinct_nontrivial = distinct programs with at least one operator, call, list or array node")
    ctx.assumptions = ["programs are well formed the way Numbers writes them: explicit LIST nodes wherever precedence alone would read the text differently "
                       "(conservatively also around powers/negations next to a power)",
                       "leaf tokens are instantiated from seeded pools of numbers, strings, booleans, dates and cell references; function ids from FUNCTION_MAP"]
    ctx.stage("model-check+generate")
    programs = []

    def handle(line):
        m = re.match(r'^"P (.*) \| (.*)"$', line)
        if m:
            programs.append((m.group(1).split(" "), m.group(2).split(" ") if m.group(2) else []))
            return True
        return False
    allops = ["eq", "cat", "add", "sub", "mul", "div", "pow"]
    ctx.tlc("FormulaStack", cfg(["n", "s", "r", "d"], allops, 5, 2, ["neg", "pct", "list"], emit=True), what="MC_FormulaStack[all operator classes, <=5 nodes]",
            stream_to=handle, timeout=3000)
    ctx.tlc("FormulaStack", cfg(["n", "b", "d"], ["add", "mul", "cat"], 6 if q else 7, 3, ["call", "empty", "list", "arr", "neg"], emit=True),
            what="MC_FormulaStack[calls, lists, arrays, <=%d nodes]" % (6 if q else 7), stream_to=handle, timeout=6000)
    ctx.tlc("FormulaStack", cfg(["n", "s"], ["add", "sub", "cat"], 6, 2, ["neg", "list", "call", "ws"], emit=True), what="MC_FormulaStack[whitespace nodes, <=6 nodes]",
            stream_to=handle, timeout=3000)
    ctx.tlc("FormulaStack", cfg(["n"], ["add", "sub"], 4, 1, ["neg", "ws"], bug="WhitespacePops"), what="Bug_WhitespacePops", expect_violation=True, count=False)
    if not q:
        ctx.tlc("FormulaStack", cfg(["n", "d"], ["eq", "add", "pow"], 7, 2, ["neg", "pct", "list", "call"], emit=True), what="MC_FormulaStack[deep, <=7 nodes]",
                stream_to=handle, timeout=6000)
    for bug, inv in (("SwapSub", "MachineAgrees"), ("ArgsReversed", "MachineAgrees"), ("NoParenRule", "Faithful")):
        ctx.tlc("FormulaStack", cfg(["n", "s"], ["cat", "add", "sub", "mul", "pow"], 5, 2, ["neg", "pct", "list", "call"], bug=bug), what="Bug_%s" % bug,
                expect_violation=inv, count=False)
    rng = random.Random(ctx.seed + 8)
    seen = set()
    uniq = []
    for p, r in programs:
        k = " ".join(p)
        if k not in seen:
            seen.add(k)
            uniq.append((p, r))
    uniq.sort(key=lambda x: " ".join(x[0]))
    ctx.extra["programs_generated"] = len(uniq)
    limit = 20000 if q else 400000
    if len(uniq) > limit:
        uniq = rng.sample(uniq, limit)
    # validation of the projection function against the spec: parse(spec rendering) must be a tree for every program
    for p, r in uniq[:2000]:
        parse(r)
    ctx.stage("replay")
    B = 1500
    jobs = [(i, uniq[i:i + B], ctx.seed * 31 + i, ctx.scratch) for i in range(0, len(uniq), B)]
    res = fixtures.pmap(batch_job, jobs, ctx.workers)
    n = 0
    for lst in res:
        for (prog, render, lits, a, b, exc) in lst:
            n += 1
            ctx.evaluations += 1
            if len(prog) > 1:
                ctx.distinct.add(" ".join(prog))
            judge_case(ctx, prog, render, lits, a, b, exc)
            if n % 4001 == 1:
                ctx.sample({"program": prog, "formula_text": a})
    ctx.traces += n
    # code -> spec: fixture formulas must be readable by the projection and re-render identically when read twice
    ctx.stage("fixture-formulas")
    fx = fixtures.readable_fixtures(ctx.workers)
    if q:
        fx = [p for p in fx if any(k in os.path.basename(p) for k in ("test-all-form", "test-new-form", "test-extra", "test-10", "simple-func"))] or fx[:6]
    texts, errors = fixtures.collect_formulas(fx, ctx.workers)
    unreadable = 0
    for t in sorted(set(texts)):
        ctx.evaluations += 1
        try:
            toks, _ = tokenize(t)
            parse(toks)
        except ValueError:
            unreadable += 1
    ctx.extra["fixture_formulas"] = {"distinct": len(set(texts)), "outside_the_projection_grammar": unreadable, "read_errors": len(errors)}
    ctx.note("fixture formulas outside the projection's grammar (named ranges, cross-table references, thunks) are counted, not judged: %d of %d" % (unreadable, len(set(texts))))


def replay(ctx, data):
    print(json.dumps(data["replay"])[:2000])
    return 0

"""C10 - A1-notation conversion functions are mutually inverse bijections.

spec/A1.tla (reference definition, checked by TLC on the whole domain), spec/Trace_A1.tla (judge).
"""
import json
import os
import random
import re

from ..core import Machinery

INV = ["ColRoundTrip", "ColShape", "RowRoundTrip", "CellRoundTrip", "RangeCollapse"]
LINE = re.compile(r'^<<"([CR])", (\d+), "([A-Z0-9]+)">>$')


def cfg(maxcol, maxrow, bug="none", emit=False):
    return ("CONSTANTS MaxCol = %d\nMaxRow = %d\nBug = \"%s\"\nSPECIFICATION Spec\n%sPROPERTY Monotone\n%sCHECK_DEADLOCK FALSE\n"
            % (maxcol, maxrow, bug, "".join("INVARIANT %s\n" % i for i in INV), "INVARIANT Emit\n" if emit else ""))


def cps(s):
    return [ord(c) for c in s]


def call(fn, *a):
    try:
        return "ok", fn(*a)
    except IndexError:
        return "IndexError", None
    except Exception as e:  # noqa: BLE001
        return "Other:" + type(e).__name__, None


def judge(ctx, events, origin):
    B = 50000
    for b0 in range(0, len(events), B):
        batch = events[b0:b0 + B]
        path = os.path.join(ctx.scratch, "a1-%d.ndjson" % b0)
        with open(path, "w") as fh:
            for e in batch:
                fh.write(json.dumps(e) + "\n")
        res = ctx.tlc("Trace_A1", "Trace_A1.cfg", what="Trace_A1[%s,%d]" % (origin, b0), env={"TRACE_FILE": path}, timeout=1800)
        seen = {}
        for ln in res.printed:
            m = re.match(r'^<<"V", (\d+), "([\w-]+)">>$', ln)
            if m:
                seen[int(m.group(1))] = m.group(2)
        if len(seen) != len(batch):
            raise Machinery("Trace_A1: %d verdicts for %d events\n%s" % (len(seen), len(batch), res.out[-1500:]))
        ctx.traces += len(batch)
        for tid, v in seen.items():
            if v != "ok":
                e = batch[tid - 1]
                ctx.fail({"engine": "trace", "clause": v, "fn": e["fn"]}, "event %s" % json.dumps(e)[:300], {"event": e})
        os.remove(path)


def run(ctx):
    from numbers_parser import Document
    from numbers_parser.tokenizer import parse_numbers_range
    from numbers_parser.xrefs import xl_cell_to_rowcol, xl_col_to_name, xl_col_to_offset, xl_range, xl_rowcol_to_cell

    ctx.rule = ("every column 0..18277(+) and every row 0..MaxRow is a TLC state whose reference rendering is compared with "
                "the library's functions in both directions; distinct = distinct (axis, index) positions plus distinct sampled "
                "corner pairs / cell events")
    ctx.assumptions = ["decimal rendering of Python ints (str/int) is trusted only as far as it agrees with A1!Dec/UnDec on every row checked"]
    maxcol = 18277 + 30
    maxrow = 20000 if ctx.quick else 1000001
    model = Document()._model
    table_id = model.table_ids(model.sheet_ids()[0])[0]
    ev = []
    stats = {"C": 0, "R": 0}

    def second_decoder_col(name):
        # the independent column decoder inside parse_numbers_range (closure col_to_index)
        try:
            r = parse_numbers_range(model, name + "1")
            return r.col_start
        except Exception as e:  # noqa: BLE001
            return "EXC:" + type(e).__name__

    def handle(line):
        m = LINE.match(line)
        if not m:
            return False
        kind, n, txt = m.group(1), int(m.group(2)), m.group(3)
        stats[kind] += 1
        ctx.evaluations += 1
        if kind == "C":
            o1 = call(xl_col_to_name, n)
            o2 = call(xl_col_to_offset, txt)
            o3 = call(xl_col_to_name, n, True)
            if o1 != ("ok", txt):
                ctx.fail({"engine": "replay", "clause": "col-name"}, "xl_col_to_name(%d) -> %r, spec %r" % (n, o1, txt), {"col": n})
            if o3 != ("ok", "$" + txt):
                ctx.fail({"engine": "replay", "clause": "col-name-abs"}, "xl_col_to_name(%d, True) -> %r" % (n, o3), {"col": n})
            if len(txt) <= 3 and o2 != ("ok", n):
                ctx.fail({"engine": "replay", "clause": "col-index"}, "xl_col_to_offset(%r) -> %r, spec %d" % (txt, o2, n), {"col": n})
            if len(txt) <= 3 and (ctx.tier == "thorough" or n % 7 == 0 or n < 800):
                d2 = second_decoder_col(txt)
                if d2 != n:
                    ctx.fail({"engine": "replay", "clause": "col-index-2"}, "parse_numbers_range col of %r -> %r, spec %d" % (txt, d2, n), {"col": n})
            if len(txt) <= 3:
                for ra in (False, True):
                    for ca in (False, True):
                        t = ("$" if ca else "") + txt + ("$" if ra else "") + "7"
                        o = call(xl_rowcol_to_cell, 6, n, ra, ca)
                        if o != ("ok", t):
                            ctx.fail({"engine": "replay", "clause": "cell-text"}, "xl_rowcol_to_cell(6,%d,%s,%s) -> %r" % (n, ra, ca, o), {"col": n})
                        o = call(xl_cell_to_rowcol, t)
                        if o != ("ok", (6, n)):
                            ctx.fail({"engine": "replay", "clause": "cell-parse"}, "xl_cell_to_rowcol(%r) -> %r" % (t, o), {"text": t})
        else:
            for ra in (False, True):
                t = "$B" + ("$" if ra else "") + txt
                o = call(xl_rowcol_to_cell, n, 1, ra, True)
                if o != ("ok", t):
                    ctx.fail({"engine": "replay", "clause": "cell-text"}, "xl_rowcol_to_cell(%d,1,%s,True) -> %r, spec %r" % (n, ra, o, t), {"row": n})
                o = call(xl_cell_to_rowcol, t)
                if o != ("ok", (n, 1)):
                    ctx.fail({"engine": "replay", "clause": "cell-parse"}, "xl_cell_to_rowcol(%r) -> %r" % (t, o), {"text": t})
        if (stats["C"] + stats["R"]) % 9973 == 1:
            ctx.sample({"kind": kind, "index": n, "spec_text": txt})
        return True

    ctx.stage("model-check+replay")
    res = ctx.tlc("A1", cfg(maxcol, maxrow, emit=True), what="MC_A1[cols<=%d,rows<=%d]" % (maxcol, maxrow), stream_to=handle, timeout=3600)
    if res.violated:
        raise Machinery("A1.tla violates its own property %s\n%s" % (res.violated, res.out[-1000:]))
    if stats["C"] != maxcol + 1 or stats["R"] != maxrow + 1:
        raise Machinery("emitted %s positions, expected %d cols %d rows" % (stats, maxcol + 1, maxrow + 1))
    ctx.count_distinct(stats["C"] + stats["R"])
    ctx.traces += stats["C"] + stats["R"]
    ctx.exhaustive = True
    ctx.extra["exhaustive_domain"] = "columns 0..%d, rows 0..%d (per axis), all four '$' combinations" % (maxcol, maxrow)

    ctx.stage("spec-mutant")
    ctx.tlc("A1", cfg(800, 10, bug="ZeroDigit"), what="Bug_ZeroDigit", expect_violation=True, count=False)

    ctx.stage("trace-validation")
    rng = random.Random(ctx.seed + 1010)
    nev = 20000 if ctx.quick else 200000
    rows_b = [0, 8, 9, 10, 98, 99, 100, 998, 999, 1000, 99998, 99999, 100000, 999998, 999999, 1000000]
    cols_b = [0, 1, 24, 25, 26, 27, 51, 52, 675, 676, 701, 702, 703, 727, 728, 18251, 18252, 18276, 18277]

    def rrow():
        return rng.choice(rows_b) if rng.random() < 0.3 else rng.randrange(0, 1000001)

    def rcol():
        return rng.choice(cols_b) if rng.random() < 0.3 else rng.randrange(0, 18278)

    for i in range(nev):
        k = i % 5
        if k == 0:
            r, c, ra, ca = rrow(), rcol(), rng.random() < 0.5, rng.random() < 0.5
            o = call(xl_rowcol_to_cell, r, c, ra, ca)
            ev.append({"fn": "rowcol_to_cell", "r": r, "c": c, "ra": ra, "ca": ca, "out": cps(o[1]) if o[0] == "ok" else [0]})
        elif k == 1:
            r, c, ra, ca = rrow(), rcol(), rng.random() < 0.5, rng.random() < 0.5
            t = ("$" if ca else "") + _name(c) + ("$" if ra else "") + str(r + 1)
            o = call(xl_cell_to_rowcol, t)
            rr, cc = o[1] if o[0] == "ok" else (-7, -7)
            ev.append({"fn": "cell_to_rowcol", "text": cps(t), "r": rr, "c": cc})
        elif k == 2:
            r1, c1 = rrow(), rcol()
            if rng.random() < 0.3:
                r2, c2 = r1, c1
            elif rng.random() < 0.5:
                r2, c2 = r1 + rng.randrange(0, 3), c1 + rng.randrange(0, 3)
            else:
                r2, c2 = rrow(), rcol()
            o = call(xl_range, r1, c1, r2, c2)
            ev.append({"fn": "range", "r1": r1, "c1": c1, "r2": r2, "c2": c2, "out": cps(o[1]) if o[0] == "ok" else [0]})
        elif k == 3:
            c, ca = rcol(), rng.random() < 0.5
            o = call(xl_col_to_name, c, ca)
            ev.append({"fn": "col_to_name", "c": c, "ca": ca, "out": cps(o[1]) if o[0] == "ok" else [0]})
        else:
            neg = rng.randrange(-3, 0)
            which = rng.randrange(4)
            if which == 0:
                o = call(xl_rowcol_to_cell, neg, rcol())
            elif which == 1:
                o = call(xl_rowcol_to_cell, rrow(), neg)
            elif which == 2:
                o = call(xl_col_to_name, neg)
            else:
                o = call(xl_range, rrow(), rcol(), neg, rcol())
            ev.append({"fn": "negative", "which": which, "arg": neg, "outcome": o[0] if o[0] != "ok" else "returned:" + str(o[1])})
        ctx.count(1, json.dumps(ev[-1], sort_keys=True))
    ctx.sample(ev[0])
    ctx.sample(ev[2])
    judge(ctx, ev, "sampled")

    ctx.stage("selftest")
    bad = [{"fn": "rowcol_to_cell", "r": 9, "c": 26, "ra": False, "ca": True, "out": cps("$AB10")},
           {"fn": "range", "r1": 1, "c1": 1, "r2": 1, "c2": 1, "out": cps("B2:B2")},
           {"fn": "negative", "which": 2, "arg": -1, "outcome": "returned:@"}]
    path = os.path.join(ctx.scratch, "a1-self.ndjson")
    with open(path, "w") as fh:
        for e in bad:
            fh.write(json.dumps(e) + "\n")
    res = ctx.tlc("Trace_A1", "Trace_A1.cfg", what="binding-selftest", env={"TRACE_FILE": path}, count=False)
    got = sorted(re.findall(r'^<<"V", (\d+), "([\w-]+)"', res.out, re.M))
    if got != [("1", "cell-text"), ("2", "range"), ("3", "negative-accepted")]:
        raise Machinery("binding self-test: corrupted events judged %s" % got)
    ctx.extra["binding_selftest"] = "3 corrupted events rejected"


def _name(c):
    # harness-side bijective base-26 (used only to *generate* texts to parse; judged by the spec)
    s = ""
    c += 1
    while c:
        c, r = divmod(c - 1, 26)
        s = chr(65 + r) + s
    return s


def replay(ctx, data):
    print(json.dumps(data["replay"]))
    return 0

"""C09 - references in formulas name exactly the stored target cells and table.

spec/Refs.tla (namespace, qualifier reading rules, the prefix chooser), spec/Trace_Refs.tla (judge)."""
import json
import os
import random
import re
import warnings

from .. import fixtures, wb
from ..core import Machinery

TABLE = {"A": "Alpha", "B": "Beta", "C": "Data 1"}
SHEET = {1: "First", 2: "Second sheet", 3: "Third"}


def rf_cfg(bug="none", emit=False, sheets=3, tables=2):
    return ('CONSTANTS MaxSheets = %d\nMaxTables = %d\nTableNames = {"A", "B", "C"}\nBug = "%s"\nSPECIFICATION Spec\nINVARIANT ExactlyTheTarget\n%sCHECK_DEADLOCK FALSE\n'
            % (sheets, tables, bug, "INVARIANT EmitCase\n" if emit else ""))


def build_doc(ns):
    """ns: list of sheets, each a list of table name tokens -> Document with those sheets/tables (4x4, no headers)"""
    from numbers_parser import Document
    doc = Document(sheet_name=SHEET[1], table_name=TABLE[ns[0][0]], num_rows=4, num_cols=4, num_header_rows=0, num_header_cols=0)
    for t in ns[0][1:]:
        doc.sheets[0].add_table(TABLE[t], num_rows=4, num_cols=4, num_header_rows=0, num_header_cols=0)
    for si, tabs in enumerate(ns[1:], start=2):
        doc.add_sheet(SHEET[si], TABLE[tabs[0]], 4, 4)
        sh = doc.sheets[si - 1]
        sh.tables[0].num_header_rows = 0
        sh.tables[0].num_header_cols = 0
        for t in tabs[1:]:
            sh.add_table(TABLE[t], num_rows=4, num_cols=4, num_header_rows=0, num_header_cols=0)
    return doc


def make_node(model, target_tb, kind, ends, cross):
    from numbers_parser.generated import TSCEArchives_pb2 as TSCE
    from numbers_parser.numbers_uuid import NumbersUUID
    (rb, cb, re_, ce) = ends
    if kind == "cell":
        node = {"AST_node_type": "CELL_REFERENCE_NODE", "AST_row": {"row": rb[0], "absolute": rb[1]}, "AST_column": {"column": cb[0], "absolute": cb[1]}}
    else:
        def axis(b, e):
            rel, ab = {}, {}
            if b[1] and e[1]:
                ab = {"range_begin": b[0], "range_end": e[0]}
            elif b[1]:
                ab = {"range_begin": b[0]}
                rel = {"range_begin": e[0]}
            elif e[1]:
                rel = {"range_begin": b[0]}
                ab = {"range_begin": e[0]}
            else:
                rel = {"range_begin": b[0], "range_end": e[0]}
            return rel, ab
        tract = {"preserve_rectangular": True}
        if kind in ("rect", "rows"):
            rel, ab = axis(rb, re_)
            if rel:
                tract["relative_row"] = [rel]
            if ab:
                tract["absolute_row"] = [ab]
        else:
            tract["absolute_row"] = [{"range_begin": 0x7FFFFFFF}]
        if kind in ("rect", "cols"):
            rel, ab = axis(cb, ce)
            if rel:
                tract["relative_column"] = [rel]
            if ab:
                tract["absolute_column"] = [ab]
        else:
            tract["absolute_column"] = [{"range_begin": 0x7FFF}]
        node = {"AST_node_type": "COLON_TRACT_NODE", "AST_colon_tract": tract,
                "AST_sticky_bits": {"begin_row_is_absolute": rb[1], "begin_column_is_absolute": cb[1], "end_row_is_absolute": re_[1], "end_column_is_absolute": ce[1]}}
    if cross:
        node["AST_cross_table_reference_extra_info"] = TSCE.ASTNodeArrayArchive.ASTCrossTableReferenceExtraInfoArchive(
            table_id=NumbersUUID(model.table_base_id(target_tb._table_id)).protobuf4)
    return node


CELL = r"(\$?)([A-Z]+)(\$?)(\d+)"


def parse_body(kind, body):
    """-> [[row begin, abs], [col begin, abs], [row end, abs], [col end, abs]] with 0-based resolved coordinates, or None"""
    def col(s):
        n = 0
        for ch in s:
            n = n * 26 + ord(ch) - 64
        return n - 1
    z = [0, False]
    if kind == "cell":
        m = re.fullmatch(CELL, body)
        if not m:
            return None
        return [[int(m.group(4)) - 1, m.group(3) == "$"], [col(m.group(2)), m.group(1) == "$"], z, z]
    if kind == "rect":
        m = re.fullmatch(CELL + ":" + CELL, body)
        if not m:
            return None
        return [[int(m.group(4)) - 1, m.group(3) == "$"], [col(m.group(2)), m.group(1) == "$"], [int(m.group(8)) - 1, m.group(7) == "$"], [col(m.group(6)), m.group(5) == "$"]]
    if kind == "rows":
        m = re.fullmatch(r"(\$?)(\d+):(\$?)(\d+)", body)
        if not m:
            return None
        return [[int(m.group(2)) - 1, m.group(1) == "$"], z, [int(m.group(4)) - 1, m.group(3) == "$"], z]
    m = re.fullmatch(r"(\$?)([A-Z]+)(?::(\$?)([A-Z]+))?", body)
    if not m:
        return None
    if m.group(4) is None:
        return [z, [col(m.group(2)), m.group(1) == "$"], z, [col(m.group(2)), m.group(1) == "$"]]
    return [z, [col(m.group(2)), m.group(1) == "$"], z, [col(m.group(4)), m.group(3) == "$"]]


def case_job(job):
    (idx, ns, pairs, seed, scratch, rename) = job
    warnings.simplefilter("ignore")
    from numbers_parser import Document
    from numbers_parser.generated import TSCEArchives_pb2 as TSCE
    rng = random.Random(seed)
    doc = build_doc(ns)
    model = doc._model
    plan = []
    used = {}
    for (host, target) in pairs:
        htb = doc.sheets[host[0] - 1].tables[host[1] - 1]
        ttb = doc.sheets[target[0] - 1].tables[target[1] - 1]
        model._formulas.add_table(htb._table_id)
        for kind in ("cell", "rect", "rows", "cols"):
            for _ in range(2):
                k = used.get(host, 0)
                if k >= 16:
                    continue
                used[host] = k + 1
                hr, hc = divmod(k, 4)
                r1, r2 = sorted([rng.randint(0, 3), rng.randint(0, 3)])
                c1, c2 = sorted([rng.randint(0, 3), rng.randint(0, 3)])
                if kind == "rect" and (r1, c1) == (r2, c2):
                    r2 = min(3, r1 + 1) if r1 < 3 else r1
                    c2 = c1 + 1 if c1 < 3 else c1
                    if (r1, c1) == (r2, c2):
                        r1 = 2
                ab = [rng.random() < 0.5 for _ in range(4)]
                if kind == "cell":
                    r2, c2 = r1, c1
                if kind == "cols" and c1 == c2:
                    ab[3] = ab[1]
                stored = [[r1 if ab[0] else r1 - hr, ab[0]], [c1 if ab[1] else c1 - hc, ab[1]], [r2 if ab[2] else r2 - hr, ab[2]], [c2 if ab[3] else c2 - hc, ab[3]]]
                if kind == "cell":
                    stored[2] = stored[3] = [0, False]
                elif kind == "rows":
                    stored[1] = stored[3] = [0, False]
                elif kind == "cols":
                    stored[0] = stored[2] = [0, False]
                node = make_node(model, ttb, kind, stored, host != target)
                htb.write(hr, hc, 1.0)
                key = model._formulas.lookup_key(htb._table_id, TSCE.FormulaArchive(**{"AST_node_array": {"AST_node": [node]}}))
                htb.rows()[hr][hc]._formula_id = key
                plan.append({"host": list(host), "target": list(target), "hr": hr, "hc": hc, "kind": kind, "ends": stored})
    events = []
    path = os.path.join(scratch, "c09-%d-%d.numbers" % (os.getpid(), idx))

    def observe(d, phase):
        names = [[t.name for t in sh.tables] for sh in d.sheets]
        snames = [sh.name for sh in d.sheets]
        for p in plan:
            tb = d.sheets[p["host"][0] - 1].tables[p["host"][1] - 1]
            e = dict(p)
            e["phase"] = phase
            e["ns"] = names
            try:
                text = tb.cell(p["hr"], p["hc"]).formula
            except Exception as ex:  # noqa: BLE001
                text = None
                e["exc"] = "%s:%s" % (type(ex).__name__, str(ex)[:60])
            e["text"] = text
            e["wellformed"] = False
            e["sq"], e["tq"], e["body"] = 0, "", [[0, False]] * 4
            if text is not None:
                parts = text.split("::")
                body = parse_body(p["kind"], parts[-1])
                if body is not None and len(parts) <= 3:
                    e["wellformed"] = True
                    e["body"] = body
                    if len(parts) >= 2:
                        e["tq"] = parts[-2]
                    if len(parts) == 3:
                        e["sq"] = snames.index(parts[0]) + 1 if parts[0] in snames else -1
            events.append(e)
    observe(doc, "open")
    if rename:
        # Refs.tla Rename(x, nm): the names a reference is printed with are the names as they are NOW
        (x, nm) = rename
        doc.sheets[x[0] - 1].tables[x[1] - 1].name = TABLE[nm]
        observe(doc, "renamed")
    try:
        doc.save(path)
        observe(Document(path), "reopened")
    finally:
        if os.path.exists(path):
            os.remove(path)
    return events


def judge(ctx, events, count=True):
    B = 20000
    for b0 in range(0, len(events), B):
        part = events[b0:b0 + B]
        path = os.path.join(ctx.scratch, "rf-%d.ndjson" % b0)
        with open(path, "w") as fh:
            for e in part:
                fh.write(json.dumps({k: e[k] for k in ("ns", "host", "target", "hr", "hc", "kind", "ends", "sq", "tq", "body", "wellformed")}) + "\n")
        res = ctx.tlc("Trace_Refs", "Trace_Refs.cfg", what="Trace_Refs[%d]" % b0, env={"TRACE_FILE": path}, timeout=1800, count=count)
        os.remove(path)
        seen = {int(m.group(1)): m.group(2) for m in re.finditer(r'^"V (\d+) ([\w.\-]+)"$', res.out, re.M)}
        if len(seen) != len(part):
            raise Machinery("Trace_Refs: %d verdicts for %d events\n%s" % (len(seen), len(part), res.out[-1500:]))
        if count:
            ctx.traces += len(part)
        for tid, v in seen.items():
            if v != "ok":
                e = part[tid - 1]
                ctx.fail({"engine": "trace", "clause": v, "kind": e["kind"], "phase": e["phase"], "cross": e["host"] != e["target"], "exc": (e.get("exc") or "").split(":")[0]},
                         "namespace %s host %s cell (%d,%d) -> target %s stored %s %s prints %r (%s)" % (json.dumps(e["ns"]), e["host"], e["hr"], e["hc"], e["target"], e["kind"],
                                                                                                     json.dumps(e["ends"]), e["text"], e["phase"]),
                         {k: e[k] for k in ("ns", "host", "target", "hr", "hc", "kind", "ends")})


def run(ctx):
    q = ctx.quick
    ctx.rule = ("a case is (namespace, host table, target table, stored reference): namespaces = every assignment of table names (unique within a sheet, repeated across "
                "sheets or not) to 1..3 sheets x 1..2 tables enumerated by TLC, plus seeded 4x4 ones; references = cells, rectangles, row spans, column spans with "
                "every absolute/relative combination and offsets inside a 4x4 table at varying host cells; read on the open document and after save/reopen; "
                "distinct_nontrivial = distinct (namespace, host, target, stored reference) cases that cross tables or mix absolute and relative ends")
    ctx.assumptions = ["tables have no header rows/columns, so bodies are printed in A1 form (header-label bodies: see DESIGN.md, not judged)",
                       "mixed absolute/relative range ends are stored the way the library's own reader and writer agree on"]
    ctx.stage("model-check")
    cases, renames = [], {}

    def handle(line):
        m = re.match(r'^"([NM]) (<<.*>>) <<(\d+), (\d+)>> <<(\d+), (\d+)>>(?: <<(\d+), (\d+)>> (\w))?"$', line)
        if m:
            sheets = re.findall(r"<<((?:\\?\"\w\\?\"(?:, )?)+)>>", m.group(2))
            ns = [re.findall(r"(\w)", s) for s in sheets]
            if m.group(1) == "N":
                cases.append((ns, (int(m.group(3)), int(m.group(4))), (int(m.group(5)), int(m.group(6)))))
            else:
                renames.setdefault(json.dumps(ns), set()).add(((int(m.group(7)), int(m.group(8))), m.group(9)))
            return True
        return False
    ctx.tlc("Refs", rf_cfg(emit=True), what="MC_Refs[1..3 sheets x 1..2 tables, names A B C]", stream_to=handle, timeout=1800)
    ctx.tlc("Refs", rf_cfg("PrefixDropped"), what="Bug_PrefixDropped", expect_violation="ExactlyTheTarget", count=False)
    ctx.tlc("Refs", rf_cfg("StaleUniqueCache"), what="Bug_StaleUniqueCache", expect_violation="ExactlyTheTarget", count=False)
    if len(cases) < 1000:
        raise Machinery("only %d namespace cases parsed" % len(cases))
    byns = {}
    for ns, h, t in cases:
        byns.setdefault(json.dumps(ns), []).append((h, t))
    keys = sorted(byns)
    rng = random.Random(ctx.seed + 9)
    ctx.extra["namespaces_from_tlc"] = len(keys)
    use = keys if not q else rng.sample(keys, 60)
    jobs = []
    nren = 0
    for i, k in enumerate(use):
        pairs = byns[k]
        rn = sorted(renames.get(k, ()))
        # every namespace once as built, and with one (quick) or every (thorough) rename TLC found for it
        jobs.append((i, json.loads(k), pairs, ctx.seed * 19 + i, ctx.scratch, None))
        for j, r in enumerate(rn if not q else rng.sample(rn, min(1, len(rn)))):
            jobs.append((100000 + i * 100 + j, json.loads(k), pairs, ctx.seed * 19 + i, ctx.scratch, r))
            nren += 1
    ctx.extra["rename_cases"] = nren
    # larger namespaces: up to 4 sheets x 4 tables, names drawn with repetition across sheets
    for i in range(6 if q else 120):
        ns = []
        for s in range(rng.randint(2, 3)):
            ns.append(rng.sample(["A", "B", "C"], rng.randint(1, 3)))
        tabs = [(s + 1, t + 1) for s in range(len(ns)) for t in range(len(ns[s]))]
        pairs = [(h, t) for h in tabs for t in tabs]
        ren = None
        if i % 2:
            x = rng.choice(tabs)
            free = [n for n in ["A", "B", "C"] if n not in ns[x[0] - 1]]
            ren = (x, rng.choice(free)) if free else None
        jobs.append((10000 + i, ns, rng.sample(pairs, min(len(pairs), 12)), ctx.seed * 23 + i, ctx.scratch, ren))
    ctx.stage("replay")
    res = fixtures.pmap(case_job, jobs, ctx.workers, chunksize=2)
    events = [e for lst in res for e in lst]
    ctx.evaluations += len(events)
    for e in events:
        if e["host"] != e["target"] or len({x[1] for x in e["ends"]}) > 1:
            ctx.distinct.add((json.dumps(e["ns"]), tuple(e["host"]), tuple(e["target"]), e["kind"], json.dumps(e["ends"]), e["hr"], e["hc"]))
    x = next(e for e in events if e["host"] != e["target"])
    ctx.sample({"namespace": x["ns"], "host": x["host"], "host_cell": [x["hr"], x["hc"]], "target": x["target"], "stored": [x["kind"], x["ends"]], "printed": x["text"]})
    ctx.stage("judge")
    judge(ctx, events)
    ctx.stage("selftest")
    import copy
    b1 = copy.deepcopy(x)
    b1["tq"] = ""
    b2 = copy.deepcopy(x)
    b2["body"][0][0] += 1
    saved = ctx.failures
    ctx.failures = []
    judge(ctx, [b1, b2], count=False)
    got = sorted(f[0]["clause"] for f in ctx.failures)
    ctx.failures = saved
    if got != ["coordinates", "qualifier-wrong-table"]:
        raise Machinery("binding self-test: corrupted events judged %s" % got)
    ctx.extra["binding_selftest"] = "a cross-table reference printed without qualifier and a body with a shifted row are both rejected"


def replay(ctx, data):
    print(json.dumps(data["replay"])[:2000])
    return 0

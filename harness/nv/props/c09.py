"""C09 - references in formulas name exactly the stored target cells and table.

spec/Refs.tla (namespace, qualifier reading rules, the prefix chooser), spec/Trace_Refs.tla (judge)."""
import json
import os
import random
import re
import warnings

from .. import fixtures, wb
from ..core import Machinery

TABLE = {"A": "Alpha", "B": "Beta", "C": "Data 1"}
SHEET = {1: "First", 2: "Second sheet", 3: "Third"}


def rf_cfg(bug="none", emit=False, sheets=3, tables=2):
    return ('CONSTANTS MaxSheets = %d\nMaxTables = %d\nTableNames = {"A", "B", "C"}\nBug = "%s"\nSPECIFICATION Spec\nINVARIANT ExactlyTheTarget\n%sCHECK_DEADLOCK FALSE\n'
            % (sheets, tables, bug, "INVARIANT EmitCase\n" if emit else ""))


PLAIN_NAMES = (dict(TABLE), dict(SHEET))
# names that cannot stand bare in a formula (an apostrophe, a double quote, '#', braces): the library prints them quoted
EXOTIC_NAMES = ({"A": "Bob's", "B": 'Say "hi"', "C": "Tab #1 {x}"}, {1: "It's first", 2: "Sheet #2", 3: 'The "third"'})


def use_names(idx):
    """every fifth case uses the exotic table / sheet names (set at the start of each job: jobs run one at a time per worker)"""
    t, s = EXOTIC_NAMES if idx % 5 == 4 else PLAIN_NAMES
    TABLE.clear()
    TABLE.update(t)
    SHEET.clear()
    SHEET.update(s)


def split_outside_quotes(t, sep):
    """split at sep where it is not inside a '...' name (a doubled apostrophe inside quotes is an escaped one)"""
    res, cur, i, inq = [], "", 0, False
    while i < len(t):
        if t[i] == "'":
            if inq and t[i:i + 2] == "''":
                cur += "''"
                i += 2
                continue
            inq = not inq
        if not inq and t.startswith(sep, i):
            res.append(cur)
            cur = ""
            i += len(sep)
            continue
        cur += t[i]
        i += 1
    return res + [cur]


def qualifiers(text, known=()):
    """'Sheet'::'Table'::body -> ([qualifier names, unquoted], body).  A name may be printed quoted ('Bob''s') or bare; C09 asks which
    table is named, not how the name is spelt (C18 asks that the tokenizer accepts the spelling): the quote-aware reading is taken when
    its qualifiers are names of the document, else the plain reading (split at every '::', nothing unquoted) when those are."""
    def unq(p):
        return p[1:-1].replace("''", "'") if len(p) >= 2 and p[0] == "'" and p[-1] == "'" else p
    parts = split_outside_quotes(text, "::")
    aware = ([unq(p) for p in parts[:-1]], parts[-1])
    plain = (text.split("::")[:-1], text.split("::")[-1])
    for quals, last in (aware, plain):
        if all(x in known for x in quals) and "::" not in last:
            return quals, last
    return aware


def build_doc(ns, ncols=4):
    """ns: list of sheets, each a list of table name tokens -> Document with those sheets/tables (4 rows x ncols, no headers)"""
    from numbers_parser import Document
    doc = Document(sheet_name=SHEET[1], table_name=TABLE[ns[0][0]], num_rows=4, num_cols=ncols, num_header_rows=0, num_header_cols=0)
    for t in ns[0][1:]:
        doc.sheets[0].add_table(TABLE[t], num_rows=4, num_cols=ncols, num_header_rows=0, num_header_cols=0)
    for si, tabs in enumerate(ns[1:], start=2):
        doc.add_sheet(SHEET[si], TABLE[tabs[0]], 4, ncols)
        sh = doc.sheets[si - 1]
        sh.tables[0].num_header_rows = 0
        sh.tables[0].num_header_cols = 0
        for t in tabs[1:]:
            sh.add_table(TABLE[t], num_rows=4, num_cols=ncols, num_header_rows=0, num_header_cols=0)
    return doc


def make_node(model, target_tb, kind, ends, cross):
    from numbers_parser.generated import TSCEArchives_pb2 as TSCE
    from numbers_parser.numbers_uuid import NumbersUUID
    (rb, cb, re_, ce) = ends
    if kind == "cell":
        node = {"AST_node_type": "CELL_REFERENCE_NODE", "AST_row": {"row": rb[0], "absolute": rb[1]}, "AST_column": {"column": cb[0], "absolute": cb[1]}}
    else:
        def axis(b, e):
            rel, ab = {}, {}
            if b[1] and e[1]:
                ab = {"range_begin": b[0], "range_end": e[0]}
            elif b[1]:
                ab = {"range_begin": b[0]}
                rel = {"range_begin": e[0]}
            elif e[1]:
                rel = {"range_begin": b[0]}
                ab = {"range_begin": e[0]}
            else:
                rel = {"range_begin": b[0], "range_end": e[0]}
            return rel, ab
        tract = {"preserve_rectangular": True}
        if kind in ("rect", "rows"):
            rel, ab = axis(rb, re_)
            if rel:
                tract["relative_row"] = [rel]
            if ab:
                tract["absolute_row"] = [ab]
        else:
            tract["absolute_row"] = [{"range_begin": 0x7FFFFFFF}]
        if kind in ("rect", "cols"):
            rel, ab = axis(cb, ce)
            if rel:
                tract["relative_column"] = [rel]
            if ab:
                tract["absolute_column"] = [ab]
        else:
            tract["absolute_column"] = [{"range_begin": 0x7FFF}]
        node = {"AST_node_type": "COLON_TRACT_NODE", "AST_colon_tract": tract,
                "AST_sticky_bits": {"begin_row_is_absolute": rb[1], "begin_column_is_absolute": cb[1], "end_row_is_absolute": re_[1], "end_column_is_absolute": ce[1]}}
    if cross:
        node["AST_cross_table_reference_extra_info"] = TSCE.ASTNodeArrayArchive.ASTCrossTableReferenceExtraInfoArchive(
            table_id=NumbersUUID(model.table_base_id(target_tb._table_id)).protobuf4)
    return node


CELL = r"(\$?)([A-Z]+)(\$?)(\d+)"


def parse_body(kind, body):
    """-> [[row begin, abs], [col begin, abs], [row end, abs], [col end, abs]] with 0-based resolved coordinates, or None"""
    def col(s):
        n = 0
        for ch in s:
            n = n * 26 + ord(ch) - 64
        return n - 1
    z = [0, False]
    if kind == "cell":
        m = re.fullmatch(CELL, body)
        if not m:
            return None
        return [[int(m.group(4)) - 1, m.group(3) == "$"], [col(m.group(2)), m.group(1) == "$"], z, z]
    if kind == "rect":
        m = re.fullmatch(CELL + ":" + CELL, body)
        if not m:
            return None
        return [[int(m.group(4)) - 1, m.group(3) == "$"], [col(m.group(2)), m.group(1) == "$"], [int(m.group(8)) - 1, m.group(7) == "$"], [col(m.group(6)), m.group(5) == "$"]]
    if kind == "rows":
        m = re.fullmatch(r"(\$?)(\d+):(\$?)(\d+)", body)
        if not m:
            return None
        return [[int(m.group(2)) - 1, m.group(1) == "$"], z, [int(m.group(4)) - 1, m.group(3) == "$"], z]
    m = re.fullmatch(r"(\$?)([A-Z]+)(?::(\$?)([A-Z]+))?", body)
    if not m:
        return None
    if m.group(4) is None:
        return [z, [col(m.group(2)), m.group(1) == "$"], z, [col(m.group(2)), m.group(1) == "$"]]
    return [z, [col(m.group(2)), m.group(1) == "$"], z, [col(m.group(4)), m.group(3) == "$"]]


def case_job(job):
    (idx, ns, pairs, seed, scratch, rename) = job
    use_names(idx)
    warnings.simplefilter("ignore")
    from numbers_parser import Document
    from numbers_parser.generated import TSCEArchives_pb2 as TSCE
    rng = random.Random(seed)
    # every fourth case lives in the columns AA.. of wide tables (column names of two letters)
    cbase = 26 if idx % 4 == 3 else 0
    doc = build_doc(ns, 4 + cbase)
    model = doc._model
    plan = []
    used = {}
    for (host, target) in pairs:
        htb = doc.sheets[host[0] - 1].tables[host[1] - 1]
        ttb = doc.sheets[target[0] - 1].tables[target[1] - 1]
        model._formulas.add_table(htb._table_id)
        for kind in ("cell", "rect", "rows", "cols"):
            for _ in range(2):
                k = used.get(host, 0)
                if k >= 16:
                    continue
                used[host] = k + 1
                hr, hc = divmod(k, 4)
                hc += cbase
                r1, r2 = sorted([rng.randint(0, 3), rng.randint(0, 3)])
                c1, c2 = sorted([rng.randint(0, 3), rng.randint(0, 3)])
                if kind == "rect" and (r1, c1) == (r2, c2):
                    r2 = min(3, r1 + 1) if r1 < 3 else r1
                    c2 = c1 + 1 if c1 < 3 else c1
                    if (r1, c1) == (r2, c2):
                        r1 = 2
                c1, c2 = c1 + cbase, c2 + cbase
                ab = [rng.random() < 0.5 for _ in range(4)]
                if kind == "cell":
                    r2, c2 = r1, c1
                if kind == "cols" and c1 == c2:
                    ab[3] = ab[1]
                stored = [[r1 if ab[0] else r1 - hr, ab[0]], [c1 if ab[1] else c1 - hc, ab[1]], [r2 if ab[2] else r2 - hr, ab[2]], [c2 if ab[3] else c2 - hc, ab[3]]]
                if kind == "cell":
                    stored[2] = stored[3] = [0, False]
                elif kind == "rows":
                    stored[1] = stored[3] = [0, False]
                elif kind == "cols":
                    stored[0] = stored[2] = [0, False]
                z = [0, False]
                if kind == "rect" and (len(plan) + idx) % 2:
                    # the other stored form of a rectangle (129 of the fixtures' 315 ranges): two cell references joined by a COLON_NODE,
                    # each carrying the target table when it is not the host's
                    nodes = [make_node(model, ttb, "cell", [stored[0], stored[1], z, z], host != target),
                             make_node(model, ttb, "cell", [stored[2], stored[3], z, z], host != target), {"AST_node_type": "COLON_NODE"}]
                    form = "colon"
                else:
                    nodes = [make_node(model, ttb, kind, stored, host != target)]
                    form = "tract"
                htb.write(hr, hc, 1.0)
                key = model._formulas.lookup_key(htb._table_id, TSCE.FormulaArchive(**{"AST_node_array": {"AST_node": nodes}}))
                htb.rows()[hr][hc]._formula_id = key
                plan.append({"host": list(host), "target": list(target), "hr": hr, "hc": hc, "kind": kind, "ends": stored, "form": form})
    events = []
    path = os.path.join(scratch, "c09-%d-%d.numbers" % (os.getpid(), idx))

    def observe(d, phase):
        names = [[t.name for t in sh.tables] for sh in d.sheets]
        snames = [sh.name for sh in d.sheets]
        for p in plan:
            tb = d.sheets[p["host"][0] - 1].tables[p["host"][1] - 1]
            e = dict(p)
            e["phase"] = phase
            e["ns"] = names
            try:
                text = tb.cell(p["hr"], p["hc"]).formula
            except Exception as ex:  # noqa: BLE001
                text = None
                e["exc"] = "%s:%s" % (type(ex).__name__, str(ex)[:60])
            e["text"] = text
            e["wellformed"] = False
            e["sq"], e["tq"], e["body"] = 0, "", [[0, False]] * 4
            if text is not None:
                quals, last = qualifiers(text, set(snames) | {x for row in names for x in row})
                body = parse_body(p["kind"], last)
                if body is not None and len(quals) <= 2:
                    e["wellformed"] = True
                    e["body"] = body
                    if len(quals) >= 1:
                        e["tq"] = quals[-1]
                    if len(quals) == 2:
                        e["sq"] = snames.index(quals[0]) + 1 if quals[0] in snames else -1
            events.append(e)
    observe(doc, "open")
    if idx % 4 == 1:
        # a relative reference resolves from where its host cell is NOW: the first row of every host table is deleted, the surviving
        # host cells move up by one (stored offsets unchanged); references whose host went away or whose target would leave the
        # table are dropped from the plan
        hosts = {tuple(p["host"]) for p in plan}
        for h in hosts:
            doc.sheets[h[0] - 1].tables[h[1] - 1].delete_row(1, start_row=0)
        shifted = []
        for p in plan:
            if p["hr"] == 0:
                continue
            q2 = dict(p)
            q2["hr"] = p["hr"] - 1
            nrows = 3 if tuple(p["target"]) in hosts else 4
            rows_ = []
            if p["kind"] in ("cell",):
                rows_ = [p["ends"][0]]
            elif p["kind"] in ("rect", "rows"):
                rows_ = [p["ends"][0], p["ends"][2]]
            res = [off if ab_ else q2["hr"] + off for (off, ab_) in rows_]
            if all(0 <= r < nrows for r in res) and res == sorted(res):
                shifted.append(q2)
        plan[:] = shifted
        observe(doc, "host-moved")
    if rename:
        # Refs.tla Rename(x, nm): the names a reference is printed with are the names as they are NOW
        (x, nm) = rename
        doc.sheets[x[0] - 1].tables[x[1] - 1].name = TABLE[nm]
        observe(doc, "renamed")
    try:
        doc.save(path)
        observe(Document(path), "reopened")
    finally:
        if os.path.exists(path):
            os.remove(path)
    return events


# ------------------------------------------------------------------ header-label references (RefLabels.tla)
NL = 3
LABEL = {"x": "north east", "y": "south", "z": "mid", "": None,
         # labels that cannot be printed bare: operators, an apostrophe, the span separator
         "w": "a-b", "v": "it's", "u": "up:down", "q": "no #1", "r": 'say "x"', "p": "{b}", "o": "x)y", "n": "Total (net)"}


def rl_cfg(bug="none", emit=False, nl=3, maxtotal=2, inv=True, cross=False):
    return ('CONSTANTS MaxSheets = 2\nMaxTables = 2\nTableNames = {"A", "B"}\nBug = "%s"\nLabels = {"x", "y"}\nNL = %d\nMaxTotal = %d\nCrossOn = %s\nSPECIFICATION LSpec\n%s%sCHECK_DEADLOCK FALSE\n'
            % (bug, nl, maxtotal, "TRUE" if cross else "FALSE", "INVARIANT SpanDenotesTarget\nINVARIANT SingleDenotesTarget\nINVARIANT NoHalfLabels\n" if inv else "", "INVARIANT EmitLabelCase\n" if emit else ""))


def build_label_doc(ns, labs, axis, xlabs=None):
    """tables whose labelled axis has NL lines: axis 'cols' -> one header row holding the labels, 'rows' -> one header column.
    xlabs (per table a list of labels): the tables ALSO have a header on the other axis, holding these labels (RefLabels.tla xlab);
    the lines of the labelled axis then start behind that header (line i = column / row index i, not i - 1)"""
    from numbers_parser import Document
    c = 1 if xlabs is not None else 0
    shape = (dict(num_rows=5, num_cols=NL + c, num_header_rows=1, num_header_cols=c) if axis == "cols"
             else dict(num_rows=NL + c, num_cols=5, num_header_rows=c, num_header_cols=1))
    doc = Document(sheet_name=SHEET[1], table_name=TABLE[ns[0][0]], **shape)
    for t in ns[0][1:]:
        doc.sheets[0].add_table(TABLE[t], **shape)
    for si, tabs in enumerate(ns[1:], start=2):
        doc.add_sheet(SHEET[si], TABLE[tabs[0]], shape["num_rows"], shape["num_cols"])
        sh = doc.sheets[si - 1]
        sh.tables[0].num_header_rows = shape["num_header_rows"]
        sh.tables[0].num_header_cols = shape["num_header_cols"]
        for t in tabs[1:]:
            sh.add_table(TABLE[t], **shape)
    for si, tabs in enumerate(ns):
        for ti, _ in enumerate(tabs):
            tb = doc.sheets[si].tables[ti]
            for k, l in enumerate(labs[si][ti]):
                if LABEL[l] is not None:
                    if axis == "cols":
                        tb.write(0, k + c, LABEL[l])
                    else:
                        tb.write(k + c, 0, LABEL[l])
            for k, l in enumerate(xlabs[si][ti] if xlabs is not None else []):
                if LABEL[l] is not None:
                    if axis == "cols":
                        tb.write(k + 1, 0, LABEL[l])
                    else:
                        tb.write(0, k + 1, LABEL[l])
    return doc


def line_node(model, target_tb, axis, i, j, ab, single, hr, hc, cross):
    """the stored node for lines i..j (0-based) of the target's labelled axis, as seen from host cell (hr, hc)"""
    from numbers_parser.generated import TSCEArchives_pb2 as TSCE
    from numbers_parser.numbers_uuid import NumbersUUID
    off = hr if axis == "rows" else hc
    if single:
        v = {"absolute": ab}
        v["row" if axis == "rows" else "column"] = i if ab else i - off
        node = {"AST_node_type": "CELL_REFERENCE_NODE", "AST_row" if axis == "rows" else "AST_column": v}
        if cross:
            node["AST_cross_table_reference_extra_info"] = TSCE.ASTNodeArrayArchive.ASTCrossTableReferenceExtraInfoArchive(
                table_id=NumbersUUID(model.table_base_id(target_tb._table_id)).protobuf4)
        return node
    b, e = ([i, True], [j, True]) if ab else ([i - off, False], [j - off, False])
    z = [0, False]
    ends = [b, z, e, z] if axis == "rows" else [z, b, z, e]
    return make_node(model, target_tb, axis, ends, cross)


def parse_line_text(text, axis, snames, single, tnames=(), coff=0):
    """the printed reference -> qualifiers and a body of one or two ends, each a label or a line number"""
    out = {"wellformed": False, "num": False, "sq": 0, "tq": "", "l1": "", "l2": "", "n1": 0, "n2": 0, "a1": False, "a2": False}
    if text is None:
        return out

    quals, last = qualifiers(text, set(snames) | set(tnames))
    if len(quals) > 2:
        return out
    ends = split_outside_quotes(last, ":")
    if len(ends) > 2:
        return out
    if len(quals) >= 1:
        out["tq"] = quals[-1]
    if len(quals) == 2:
        out["sq"] = snames.index(quals[0]) + 1 if quals[0] in snames else -1
    kinds = []
    for k, e in enumerate(ends):
        quoted = len(e) >= 2 and e[0] == "'" and e[-1] == "'"
        if quoted:
            e = e[1:-1].replace("''", "'")          # a quoted name; the '$' of an absolute end is inside the quotes
        a = e.startswith("$")
        tok = e[1:] if a else e
        if quoted:
            kinds.append(("l", tok, a))
            continue
        if axis == "rows" and re.fullmatch(r"\d+", tok):
            kinds.append(("n", int(tok) - coff, a))         # row k (0-based) prints as k+1 = its 1-based line index (behind coff header rows)
        elif axis == "cols" and re.fullmatch(r"[A-Z]+", tok):
            n = 0
            for ch in tok:
                n = n * 26 + ord(ch) - 64
            kinds.append(("n", n - coff, a))
        else:
            kinds.append(("l", tok, a))
    if len(kinds) == 1:
        kinds = kinds * 2
    if kinds[0][0] != kinds[1][0]:
        return out                                            # half label, half number
    out["wellformed"] = True
    out["num"] = kinds[0][0] == "n"
    out["a1"], out["a2"] = kinds[0][2], kinds[1][2]
    if out["num"]:
        out["n1"], out["n2"] = kinds[0][1], kinds[1][1]
    else:
        out["l1"], out["l2"] = kinds[0][1], kinds[1][1]
    return out


def label_job(job):
    (idx, ns, labs, axis, refs, scratch, reopen) = job
    use_names(idx)
    warnings.simplefilter("ignore")
    from numbers_parser import Document
    from numbers_parser.generated import TSCEArchives_pb2 as TSCE
    # every fifth job (when its tables are not edited later): the tables have labels on their other axis too, some of them equal to
    # labels of the referenced axis (RefLabels.tla xlab)
    xlabs, coff = None, 0
    if idx % 5 == 2 and idx % 3 != 1:
        xr = random.Random(idx * 7919 + 13)
        xlabs = [[xr.sample(["x", "y", "z", "w", "v"], xr.randint(0, 2)) for _ in sh] for sh in ns]
        coff = 1
    doc = build_label_doc(ns, labs, axis, xlabs)
    model = doc._model
    plan, used = [], {}
    tabs_all = [(si + 1, ti + 1) for si in range(len(ns)) for ti in range(len(ns[si]))]
    if idx % 3 == 1 and len(tabs_all) >= 2:
        # the last table hosts nothing in these jobs: it is the one edited between the observations (see below)
        refs = [r for r in refs if tuple(r[0]) != tabs_all[-1]]
    for (host, target, i, j, ab, single) in refs:
        host, target = tuple(host), tuple(target)
        htb = doc.sheets[host[0] - 1].tables[host[1] - 1]
        ttb = doc.sheets[target[0] - 1].tables[target[1] - 1]
        k = used.get(host, 0)
        if k >= 12:
            continue
        if k == 0:
            model._formulas.add_table(htb._table_id)
        used[host] = k + 1
        # body cells only: below the header row / right of the header column
        (hr, hc) = (1 + k // NL, k % NL + coff) if axis == "cols" else (k % NL + coff, 1 + k // NL)
        node = line_node(model, ttb, axis, i - 1 + coff, j - 1 + coff, ab, single, hr, hc, host != target)
        htb.write(hr, hc, 1.0)
        key = model._formulas.lookup_key(htb._table_id, TSCE.FormulaArchive(**{"AST_node_array": {"AST_node": [node]}}))
        htb.rows()[hr][hc]._formula_id = key
        plan.append({"host": list(host), "target": list(target), "i": i, "j": j, "ab": ab, "single": single, "hr": hr, "hc": hc, "axis": axis})
    events = []

    def observe(d, phase):
        names = [[t.name for t in sh.tables] for sh in d.sheets]
        snames = [sh.name for sh in d.sheets]
        seen = []
        for sh in d.sheets:
            seen.append([])
            for tb in sh.tables:
                seen[-1].append([(tb.cell(0, k + coff) if axis == "cols" else tb.cell(k + coff, 0)).formatted_value or "" for k in range(NL)])
        # the labels on the other axis that name a line there: non-empty and not repeated on that axis
        xseen = []
        for sh in d.sheets:
            xseen.append([])
            for tb in sh.tables:
                other = []
                if coff:
                    other = [(tb.cell(r, 0) if axis == "cols" else tb.cell(0, r)).formatted_value or "" for r in range(1, tb.num_rows if axis == "cols" else tb.num_cols)]
                xseen[-1].append(sorted({x for x in other if x and other.count(x) == 1}))
        for p in plan:
            tb = d.sheets[p["host"][0] - 1].tables[p["host"][1] - 1]
            e = dict(p)
            e.update(phase=phase, ns=names, labs=seen, xlabs=xseen)
            try:
                text = tb.cell(p["hr"], p["hc"]).formula
            except Exception as ex:  # noqa: BLE001
                text = None
                e["exc"] = "%s:%s" % (type(ex).__name__, str(ex)[:60])
            e["text"] = text
            e.update(parse_line_text(text, axis, snames, p["single"], {x for row in names for x in row}, coff))
            events.append(e)
    observe(doc, "open")
    if idx % 3 == 1:
        # the labels a reference is printed with are the labels as they are NOW: on every table that hosts no reference the first
        # line is deleted and an (unlabelled) one appended, so every label moves by one line while the stored targets keep their index
        hosts = {tuple(p["host"]) for p in plan}
        for si, sh in enumerate(doc.sheets):
            for ti, tb in enumerate(sh.tables):
                if (si + 1, ti + 1) in hosts:
                    continue
                if axis == "cols":
                    tb.delete_column(1, start_col=0)
                    tb.add_column(1)
                else:
                    tb.delete_row(1, start_row=0)
                    tb.add_row(1)
        observe(doc, "edited")
    if reopen:
        path = os.path.join(scratch, "c09l-%d-%d.numbers" % (os.getpid(), idx))
        try:
            doc.save(path)
            observe(Document(path), "reopened")
        finally:
            if os.path.exists(path):
                os.remove(path)
    return events


LKEYS = ("ns", "labs", "xlabs", "host", "target", "i", "j", "ab", "single", "wellformed", "num", "sq", "tq", "l1", "l2", "n1", "n2", "a1", "a2")


def judge_labels(ctx, events, count=True):
    B = 20000
    for b0 in range(0, len(events), B):
        part = events[b0:b0 + B]
        path = os.path.join(ctx.scratch, "rl-%d.ndjson" % b0)
        with open(path, "w") as fh:
            for e in part:
                fh.write(json.dumps({k: e[k] for k in LKEYS}) + "\n")
        res = ctx.tlc("Trace_RefLabels", "Trace_RefLabels.cfg", what="Trace_RefLabels[%d]" % b0, env={"TRACE_FILE": path}, timeout=1800, count=count)
        os.remove(path)
        seen = {int(m.group(1)): (m.group(2), m.group(3)) for m in re.finditer(r'^"V (\d+) ([\w.\-]+) (\w+)"$', res.out, re.M)}
        if len(seen) != len(part):
            raise Machinery("Trace_RefLabels: %d verdicts for %d events\n%s" % (len(seen), len(part), res.out[-1500:]))
        if count:
            ctx.traces += len(part)
        for tid, (v, d) in seen.items():
            e = part[tid - 1]
            where = "namespace %s labels %s%s (%s) host %s cell (%d,%d) -> target %s lines %d..%d %s%s prints %r (%s)" % (
                json.dumps(e["ns"]), json.dumps(e["labs"]), (" other-axis labels " + json.dumps(e["xlabs"])) if any(x for sh in e["xlabs"] for x in sh) else "",
                e["axis"], e["host"], e["hr"], e["hc"], e["target"], e["i"], e["j"],
                "absolute" if e["ab"] else "relative", " single" if e["single"] else "", e["text"], e["phase"])
            if v != "ok":
                ctx.fail({"engine": "trace-labels", "clause": v, "axis": e["axis"], "phase": e["phase"], "single": e["single"], "cross": e["host"] != e["target"],
                          "exc": (e.get("exc") or "").split(":")[0]}, where,
                         {k: e[k] for k in ("ns", "labs", "axis", "host", "target", "i", "j", "ab", "single")})
            elif d != "same":
                ctx.drifted("label reference: printed text differs from RefLabels.tla Printed2: " + where)


def judge(ctx, events, count=True):
    B = 20000
    for b0 in range(0, len(events), B):
        part = events[b0:b0 + B]
        path = os.path.join(ctx.scratch, "rf-%d.ndjson" % b0)
        with open(path, "w") as fh:
            for e in part:
                fh.write(json.dumps({k: e[k] for k in ("ns", "host", "target", "hr", "hc", "kind", "ends", "sq", "tq", "body", "wellformed")}) + "\n")
        res = ctx.tlc("Trace_Refs", "Trace_Refs.cfg", what="Trace_Refs[%d]" % b0, env={"TRACE_FILE": path}, timeout=1800, count=count)
        os.remove(path)
        seen = {int(m.group(1)): m.group(2) for m in re.finditer(r'^"V (\d+) ([\w.\-]+)"$', res.out, re.M)}
        if len(seen) != len(part):
            raise Machinery("Trace_Refs: %d verdicts for %d events\n%s" % (len(seen), len(part), res.out[-1500:]))
        if count:
            ctx.traces += len(part)
        for tid, v in seen.items():
            if v != "ok":
                e = part[tid - 1]
                ctx.fail({"engine": "trace", "clause": v, "kind": e["kind"], "form": e.get("form", "tract"), "phase": e["phase"], "cross": e["host"] != e["target"],
                          "exc": (e.get("exc") or "").split(":")[0]},
                         "namespace %s host %s cell (%d,%d) -> target %s stored %s%s %s prints %r (%s)" % (json.dumps(e["ns"]), e["host"], e["hr"], e["hc"], e["target"], e["kind"],
                                                                                                       " (two cell references joined by a COLON_NODE)" if e.get("form") == "colon" else "",
                                                                                                     json.dumps(e["ends"]), e["text"], e["phase"]),
                         {k: e[k] for k in ("ns", "host", "target", "hr", "hc", "kind", "ends")})


def run(ctx):
    q = ctx.quick
    ctx.rule = ("a case is (namespace, host table, target table, stored reference): namespaces = every assignment of table names (unique within a sheet, repeated across "
                "sheets or not) to 1..3 sheets x 1..2 tables enumerated by TLC, plus seeded 4x4 ones; references = cells, rectangles, row spans, column spans with "
                "every absolute/relative combination and offsets inside a 4x4 table at varying host cells; read on the open document and after save/reopen; "
                "distinct_nontrivial = distinct (namespace, host, target, stored reference) cases that cross tables or mix absolute and relative ends")
    ctx.assumptions = ["label references: one labelled axis per document (all tables label their columns, or all their rows), text labels; a label repeated on the "
                       "axis of its table names nothing (Numbers' own convention), a span names lines of one table that carries both labels",
                       "mixed absolute/relative range ends are stored the way the library's own reader and writer agree on"]
    ctx.stage("model-check")
    cases, renames = [], {}

    def handle(line):
        m = re.match(r'^"([NM]) (<<.*>>) <<(\d+), (\d+)>> <<(\d+), (\d+)>>(?: <<(\d+), (\d+)>> (\w))?"$', line)
        if m:
            sheets = re.findall(r"<<((?:\\?\"\w\\?\"(?:, )?)+)>>", m.group(2))
            ns = [re.findall(r"(\w)", s) for s in sheets]
            if m.group(1) == "N":
                cases.append((ns, (int(m.group(3)), int(m.group(4))), (int(m.group(5)), int(m.group(6)))))
            else:
                renames.setdefault(json.dumps(ns), set()).add(((int(m.group(7)), int(m.group(8))), m.group(9)))
            return True
        return False
    ctx.tlc("Refs", rf_cfg(emit=True), what="MC_Refs[1..3 sheets x 1..2 tables, names A B C]", stream_to=handle, timeout=1800)
    ctx.tlc("Refs", rf_cfg("PrefixDropped"), what="Bug_PrefixDropped", expect_violation="ExactlyTheTarget", count=False)
    ctx.tlc("Refs", rf_cfg("StaleUniqueCache"), what="Bug_StaleUniqueCache", expect_violation="ExactlyTheTarget", count=False)
    if len(cases) < 1000:
        raise Machinery("only %d namespace cases parsed" % len(cases))
    byns = {}
    for ns, h, t in cases:
        byns.setdefault(json.dumps(ns), []).append((h, t))
    keys = sorted(byns)
    rng = random.Random(ctx.seed + 9)
    ctx.extra["namespaces_from_tlc"] = len(keys)
    use = keys if not q else rng.sample(keys, 60)
    jobs = []
    nren = 0
    for i, k in enumerate(use):
        pairs = byns[k]
        rn = sorted(renames.get(k, ()))
        # every namespace once as built, and with one (quick) or every (thorough) rename TLC found for it
        jobs.append((i, json.loads(k), pairs, ctx.seed * 19 + i, ctx.scratch, None))
        for j, r in enumerate(rn if not q else rng.sample(rn, min(1, len(rn)))):
            jobs.append((100000 + i * 100 + j, json.loads(k), pairs, ctx.seed * 19 + i, ctx.scratch, r))
            nren += 1
    ctx.extra["rename_cases"] = nren
    # larger namespaces: up to 4 sheets x 4 tables, names drawn with repetition across sheets
    for i in range(6 if q else 120):
        ns = []
        for s in range(rng.randint(2, 3)):
            ns.append(rng.sample(["A", "B", "C"], rng.randint(1, 3)))
        tabs = [(s + 1, t + 1) for s in range(len(ns)) for t in range(len(ns[s]))]
        pairs = [(h, t) for h in tabs for t in tabs]
        ren = None
        if i % 2:
            x = rng.choice(tabs)
            free = [n for n in ["A", "B", "C"] if n not in ns[x[0] - 1]]
            ren = (x, rng.choice(free)) if free else None
        jobs.append((10000 + i, ns, rng.sample(pairs, min(len(pairs), 12)), ctx.seed * 23 + i, ctx.scratch, ren))
    ctx.stage("replay")
    res = fixtures.pmap(case_job, jobs, ctx.workers, chunksize=2)
    events = [e for lst in res for e in lst]
    ctx.evaluations += len(events)
    for e in events:
        if e["host"] != e["target"] or len({x[1] for x in e["ends"]}) > 1:
            ctx.distinct.add((json.dumps(e["ns"]), tuple(e["host"]), tuple(e["target"]), e["kind"], json.dumps(e["ends"]), e["hr"], e["hc"]))
    x = next(e for e in events if e["host"] != e["target"])
    ctx.sample({"namespace": x["ns"], "host": x["host"], "host_cell": [x["hr"], x["hc"]], "target": x["target"], "stored": [x["kind"], x["ends"]], "printed": x["text"]})
    ctx.stage("judge")
    judge(ctx, events)
    # ---- header-label references (RefLabels.tla)
    ctx.stage("labels-model-check")
    lcases = []

    def lhandle(line):
        m = re.match(r'^"L (<<.*>>) <<(\d+), (\d+)>> <<(\d+), (\d+)>> (<<.*>>) <<(\d+), (\d+)>> (TRUE|FALSE)"$', line)
        if m:
            ns = [re.findall(r"(\w)", s) for s in re.findall(r"<<((?:\\?\"\w\\?\"(?:, )?)+)>>", m.group(1))]
            flat = re.findall(r"<<((?:\\?\"\w?\\?\"(?:, )?)+)>>", m.group(6))
            rows = [[t.strip().strip('\\"') for t in f.split(",")] for f in flat]
            labs, k = [], 0
            for sh in ns:
                labs.append(rows[k:k + len(sh)])
                k += len(sh)
            lcases.append((ns, labs, (int(m.group(2)), int(m.group(3))), (int(m.group(4)), int(m.group(5))), int(m.group(7)), int(m.group(8)), m.group(9) == "TRUE"))
            return True
        return False
    ctx.tlc("RefLabels", rl_cfg(emit=True, nl=3, maxtotal=2), what="MC_RefLabels[<=2 tables, 3 lines, labels x y or empty]", stream_to=lhandle, timeout=3000)
    ctx.tlc("RefLabels", rl_cfg(nl=2, maxtotal=3), what="MC_RefLabels[<=3 tables, 2 lines]", timeout=3000)
    ctx.tlc("RefLabels", rl_cfg(nl=2, maxtotal=2, cross=True), what="MC_RefLabels[<=2 tables, 2 lines, labels on both axes]", timeout=3000)
    ctx.tlc("RefLabels", rl_cfg("CrossAxisIgnored", nl=2, maxtotal=2, cross=True), what="Bug_CrossAxisIgnored", expect_violation=True, count=False)
    if not q:
        ctx.tlc("RefLabels", rl_cfg(nl=3, maxtotal=3), what="MC_RefLabels[<=3 tables, 3 lines]", timeout=7200, heap="12g")
    for b in ("EmptyLabelUsable", "SpanEndUnchecked", "SheetScopeAnywhere"):
        ctx.tlc("RefLabels", rl_cfg(b, nl=3, maxtotal=2), what="Bug_" + b, expect_violation="SpanDenotesTarget", count=False)
    if len(lcases) < 100000:
        raise Machinery("only %d label cases parsed" % len(lcases))
    ctx.stage("labels-replay")
    bydoc = {}
    for (ns, labs, h, t, i, j, ab) in lcases:
        bydoc.setdefault(json.dumps([ns, labs]), []).append((h, t, i, j, ab))
    dkeys = sorted(bydoc)
    ctx.extra["label_cases_from_tlc"] = {"cases": len(lcases), "documents": len(dkeys)}
    ljobs = []
    for n, k in enumerate(rng.sample(dkeys, min(len(dkeys), 240 if q else 4000))):
        ns, labs = json.loads(k)
        refs = bydoc[k]
        refs = rng.sample(refs, min(len(refs), 20))
        full = []
        for (h, t, i, j, ab) in refs:
            full.append((h, t, i, j, ab, False))
            if i == j:
                full.append((h, t, i, j, ab, True))
        ljobs.append((n, ns, labs, "cols" if n % 2 == 0 else "rows", full, ctx.scratch, n % 4 == 0))
    # larger documents: up to 3 sheets x 3 tables, a third label, random references
    for n in range(40 if q else 1500):
        ns = [rng.sample(["A", "B", "C"], rng.randint(1, 3)) for _ in range(rng.randint(1, 3))]
        labs = [[[rng.choice(["x", "y", "z", "", "x", "w", "v", "u", "q", "r", "p", "o", "n"]) for _ in range(NL)] for _ in sh] for sh in ns]
        tabs = [(s + 1, t + 1) for s in range(len(ns)) for t in range(len(ns[s]))]
        full = []
        for _ in range(30):
            i = rng.randint(1, NL)
            j = rng.randint(i, NL)
            full.append((rng.choice(tabs), rng.choice(tabs), i, j, rng.random() < 0.5, i == j and rng.random() < 0.5))
        ljobs.append((50000 + n, ns, labs, "cols" if n % 2 == 0 else "rows", full, ctx.scratch, n % 4 == 0))
    lres = fixtures.pmap(label_job, ljobs, ctx.workers, chunksize=2)
    levents = [e for lst in lres for e in lst]
    ctx.evaluations += len(levents)
    for e in levents:
        ctx.distinct.add(("label", json.dumps(e["ns"]), json.dumps(e["labs"]), e["axis"], tuple(e["host"]), tuple(e["target"]), e["i"], e["j"], e["ab"], e["single"]))
    lx = next(e for e in levents if e["host"] != e["target"] and not e["num"] and e["wellformed"])
    ctx.sample({"namespace": lx["ns"], "labels": lx["labs"], "axis": lx["axis"], "host": lx["host"], "target": lx["target"], "lines": [lx["i"], lx["j"]], "printed": lx["text"]})
    ctx.extra["label_events"] = {"events": len(levents), "printed_with_labels": sum(1 for e in levents if e["wellformed"] and not e["num"]),
                                 "printed_with_numbers": sum(1 for e in levents if e["wellformed"] and e["num"])}
    ctx.stage("labels-judge")
    judge_labels(ctx, levents)
    ctx.stage("selftest")
    import copy
    c1 = copy.deepcopy(lx)
    c1["l1"] = c1["l2"] = "no such label"
    c2 = copy.deepcopy(lx)
    c2["tq"], c2["sq"] = "", 0
    c2["labs"] = [[[lx["l1"]] * NL for _ in sh] for sh in lx["ns"]]
    saved = ctx.failures
    ctx.failures = []
    judge_labels(ctx, [c1, c2], count=False)
    got = sorted(f[0]["clause"] for f in ctx.failures)
    ctx.failures = saved
    if got != ["label-denotes-nothing", "label-denotes-nothing"]:
        raise Machinery("binding self-test (labels): corrupted events judged %s" % got)
    b1 = copy.deepcopy(x)
    b1["tq"] = ""
    b2 = copy.deepcopy(x)
    b2["body"][0][0] += 1
    saved = ctx.failures
    ctx.failures = []
    judge(ctx, [b1, b2], count=False)
    got = sorted(f[0]["clause"] for f in ctx.failures)
    ctx.failures = saved
    if got != ["coordinates", "qualifier-wrong-table"]:
        raise Machinery("binding self-test: corrupted events judged %s" % got)
    ctx.extra["binding_selftest"] = "a cross-table reference printed without qualifier and a body with a shifted row are both rejected"


def replay(ctx, data):
    print(json.dumps(data["replay"])[:2000])
    return 0

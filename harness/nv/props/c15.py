"""C15 - styles and borders applied through the API read back equal, now and after reload.

spec/Borders.tla (+Trace_Borders.tla): one grid line, strokes, last writer wins, file runs vs open cells.
spec/Styles.tla (+Trace_Styles.tla): named styles, applied styles, reads, save/reopen."""
import glob
import json
import os
import random
import shutil
import re
import warnings

from .. import fixtures, tlaval, tracecheck
from ..core import Machinery


# ------------------------------------------------------------------ borders
def border_values(rng):
    from numbers_parser import RGB, Border
    ws = [0.35, 1.0, 2.5, 8.0]
    pats = ["solid", "dashes", "dots"]
    a = Border(rng.choice(ws), RGB(rng.randrange(256), rng.randrange(256), rng.randrange(256)), rng.choice(pats))
    b = Border(rng.choice(ws), RGB(rng.randrange(256), rng.randrange(256), rng.randrange(256)), rng.choice(pats))
    while (b.width, b.color, b.style) == (a.width, a.color, a.style):
        b = Border(rng.choice(ws), RGB(rng.randrange(256), rng.randrange(256), rng.randrange(256)), rng.choice(pats))
    return {"a": a, "b": b}


def tokb(bd, vals):
    if bd is None:
        return "none"
    for k, v in vals.items():
        if (bd.width, bd.color, bd.style) == (v.width, v.color, v.style):
            return k
    return "?:%s" % (bd,)


def border_job(job):
    (idx, strokes, orient, line, n, seed, scratch, merged) = job
    warnings.simplefilter("ignore")
    from numbers_parser import Border, Document
    rng = random.Random(seed)
    vals = border_values(rng)
    touches = [s for s in strokes if str(s["v"]).startswith("touch-")]
    size = n + 1 + (2 if touches else 0)       # room for the rectangles that "touch-merge" merges, away from the line under test
    doc = Document(num_rows=size, num_cols=size, num_header_rows=0, num_header_cols=0)
    tb = doc.sheets[0].tables[0]
    if merged == 2:
        from ..wb import colname
        # a merged rectangle whose OUTER edge is the line under test: the cells that own the edges (all but the last one) are its first
        # row / column - anchor and placeholders; the table is one line longer so that the rectangle is two lines deep
        if line + 1 < size:
            tb.merge_cells("A%d:%s%d" % (line + 1, colname(n - 2), line + 2) if orient == "h" else "%s1:%s%d" % (colname(line), colname(line + 1), n - 1))
    elif merged == 3:
        from ..wb import colname
        # a merged range ONE line deep on the far side of the line under test: its outer edge is the line, and its first cell
        # (the anchor) owns that edge as its bottom / right border
        if line >= 1:
            tb.merge_cells("A%d:%s%d" % (line, colname(n - 2), line) if orient == "h" else "%s1:%s%d" % (colname(line - 1), colname(line - 1), n - 1))
    elif merged:
        from ..wb import colname
        # a merged rectangle next to, but not on, the edges under test (they are in columns/rows 0..n-1)
        tb.merge_cells("%s1:%s2" % (colname(n), colname(n)) if orient == "h" else "A%d:B%d" % (n + 1, n + 1))
    path = os.path.join(scratch, "bd-%d-%d.numbers" % (os.getpid(), idx))

    def views(t):
        a, b = [], []
        for i in range(n):
            if orient == "h":      # top edges of row `line`, columns 0..n-1
                own = t.cell(line, i).border.top if line < t.num_rows else None
                nb = t.cell(line - 1, i).border.bottom if line >= 1 else "edge"
            else:
                own = t.cell(i, line).border.left if line < t.num_cols else None
                nb = t.cell(i, line - 1).border.right if line >= 1 else "edge"
            a.append(tokb(own, vals))
            b.append("edge" if isinstance(nb, str) else tokb(nb, vals))
        return a, b
    trace = {"init": ["none"] * n, "ev": [], "meta": {"orient": orient, "line": line, "strokes": strokes, "idx": idx}}

    def draw(o, ln, v, use_nb):
        # the same edge can be addressed from either adjacent cell: own side (top/left) or the neighbour's (bottom/right)
        if orient == "h":
            if use_nb:
                tb.set_cell_border(line - 1, o - 1, "bottom", vals[v], ln)
            else:
                tb.set_cell_border(line, o - 1, "top", vals[v], ln)
        else:
            if use_nb:
                tb.set_cell_border(o - 1, line - 1, "right", vals[v], ln)
            else:
                tb.set_cell_border(o - 1, line, "left", vals[v], ln)
    nmerge = 0
    strokes = [dict(x) for x in strokes]
    for s in strokes:
        # a merge ON the line needs cells on both sides of it (straddling) or two rows / columns behind it (outer edge), and no
        # other merged range in the way: where that is not so, the step becomes a merge elsewhere in the table
        if s["v"] == "touch-merge-over" and (merged or line < 1 or line >= size):
            s["v"], s["o"], s["len"] = "touch-merge", 0, 0
        if s["v"] == "touch-merge-outer" and (merged or line + 1 >= size):
            s["v"], s["o"], s["len"] = "touch-merge", 0, 0
    for s in strokes:
        o, ln, v = s["o"], s["len"], s["v"]
        if o == 0 and v != "reopen" and not str(v).startswith("touch-"):
            # Borders.tla Preloaded(v): the line comes from a file that already shows v along its whole length, in the state Numbers
            # and the library itself leave behind (the layer's counter equals its latest order)
            draw(1, n, v, False)
            doc.save(path)
            normalise_stroke_counter(path)
            doc = Document(path)
            tb = doc.sheets[0].tables[0]
            trace["init"] = [v] * n
            continue
        try:
            if v == "reopen":
                doc = Document(path)
                tb = doc.sheets[0].tables[0]
            elif v == "touch-write":
                # Borders.tla Touch: the cells on both sides of the line are written to (Table.write replaces the cell objects)
                from numbers_parser import MergedCell
                for i in range(n):
                    for (r, c) in ([(line, i), (line - 1, i)] if orient == "h" else [(i, line), (i, line - 1)]):
                        if 0 <= r < tb.num_rows and 0 <= c < tb.num_cols and not isinstance(tb.cell(r, c), MergedCell):
                            tb.write(r, c, "w%d" % nmerge)
            elif v in ("touch-merge-over", "touch-merge-outer"):
                # Borders.tla MergeOver / MergeOuter: positions o..o+len-1 of the line; rows (columns) line-1..line straddle it,
                # rows (columns) line..line+1 have it as their outer edge
                from ..wb import colname
                a, b = (line - 1, line) if v == "touch-merge-over" else (line, line + 1)
                if orient == "h":
                    tb.merge_cells("%s%d:%s%d" % (colname(o - 1), a + 1, colname(o + ln - 2), b + 1))
                else:
                    tb.merge_cells("%s%d:%s%d" % (colname(a), o, colname(b), o + ln - 1))
            elif v == "touch-merge":
                # Borders.tla Touch: a rectangle elsewhere in the table is merged (merge_cells rebuilds every cell's border object)
                from ..wb import colname
                tb.merge_cells("%s%d:%s%d" % (colname(2 * nmerge), n + 2, colname(2 * nmerge + 1), n + 3))
                nmerge += 1
            else:
                draw(o, ln, v, line >= 1 and rng.random() < 0.4)
        except Exception as ex:  # noqa: BLE001
            # a call of the history that raises is an observation like any other: every view of this event shows the exception
            bad = ["EXC:" + type(ex).__name__] * n
            trace["ev"].append({"o": o, "len": ln, "v": v, "oa": bad, "ob": bad, "ra": bad, "rb": bad})
            break
        e = {"o": o, "len": ln, "v": v}
        e["oa"], e["ob"] = views(tb)
        try:
            doc.save(path)
            t2 = Document(path).sheets[0].tables[0]
            e["ra"], e["rb"] = views(t2)
        except Exception as ex:  # noqa: BLE001
            e["ra"] = e["rb"] = ["EXC:" + type(ex).__name__] * n
        trace["ev"].append(e)
    if os.path.exists(path):
        os.remove(path)
    return trace


def normalise_stroke_counter(path):
    """rewrite a saved document so that every table's stroke counter equals the greatest order in use (the state of files written
    by Numbers and by the library itself); everything else is left as it is"""
    from numbers_parser.generated import TSTArchives_pb2 as TST
    from .. import rewrite
    pkg = rewrite.Pkg.load(path)
    orders = {}

    def collect(layer, oid):
        orders[oid] = max([r.order for r in layer.stroke_runs] or [0])
        return False
    rewrite._map_messages(pkg, "TST.StrokeLayerArchive", collect, None)

    def fix(sc, oid):
        refs = list(sc.left_column_stroke_layers) + list(sc.right_column_stroke_layers) + list(sc.top_row_stroke_layers) + list(sc.bottom_row_stroke_layers)
        top = max([orders.get(r.identifier, 0) for r in refs] or [0])
        if top and sc.max_order != top:
            sc.max_order = top
            return True
        return False
    rewrite._map_messages(pkg, "TST.StrokeSidecarArchive", fix, None)
    pkg.save_single(path)


def fixture_border_job(job):
    """the first stroke drawn on a freshly opened fixture over an edge that already carries a border: the new one wins, for both
    adjacent cells, on the open document and in the saved file"""
    (idx, path, seed, scratch) = job
    warnings.simplefilter("ignore")
    from numbers_parser import RGB, Border, Document
    rng = random.Random(seed)
    out = []
    try:
        doc0 = Document(path)
    except Exception:  # noqa: BLE001
        return out
    cands = []
    for si, sh in enumerate(doc0.sheets):
        for ti, tb in enumerate(sh.tables):
            if tb.num_rows * tb.num_cols > 600:
                continue
            try:
                merged = {(r, c) for r, row in enumerate(tb.rows()) for c, cell in enumerate(row) if cell.is_merged or type(cell).__name__ == "MergedCell"}
                for r, row in enumerate(tb.rows()):
                    for c, cell in enumerate(row):
                        if (r, c) in merged:
                            continue
                        bd = cell.border
                        if bd.top is not None and r >= 1 and (r - 1, c) not in merged:
                            cands.append((si, ti, "h", r, c))
                        if bd.left is not None and c >= 1 and (r, c - 1) not in merged:
                            cands.append((si, ti, "v", r, c))
            except Exception:  # noqa: BLE001
                continue
    rng.shuffle(cands)
    new = Border(7.0, RGB(1, 2, 3), "solid")
    for k, (si, ti, orient, r, c) in enumerate(cands[:4]):
        doc = Document(path)                      # a fresh object: the stroke is the first one after loading
        tb = doc.sheets[si].tables[ti]
        nr, nc = (r - 1, c) if orient == "h" else (r, c - 1)

        def tok(bd):
            return "none" if bd is None else ("a" if (bd.width, bd.color, bd.style) == (new.width, new.color, new.style) else "old")

        def views(t):
            own = t.cell(r, c).border.top if orient == "h" else t.cell(r, c).border.left
            nb = t.cell(nr, nc).border.bottom if orient == "h" else t.cell(nr, nc).border.right
            return [tok(own)], [tok(nb)]
        before = views(tb)[0]
        use_nb = k % 2 == 1
        e = {"o": 1, "len": 1, "v": "a"}
        try:
            if use_nb:
                tb.set_cell_border(nr, nc, "bottom" if orient == "h" else "right", new, 1)
            else:
                tb.set_cell_border(r, c, "top" if orient == "h" else "left", new, 1)
            e["oa"], e["ob"] = views(tb)
            p2 = os.path.join(scratch, "fxb-%d-%d-%d.numbers" % (os.getpid(), idx, k))
            try:
                doc.save(p2)
                t2 = Document(p2).sheets[si].tables[ti]
                e["ra"], e["rb"] = views(t2)
            except Exception as ex:  # noqa: BLE001
                e["ra"] = e["rb"] = ["EXC:" + type(ex).__name__]
            finally:
                if os.path.isdir(p2):
                    shutil.rmtree(p2, ignore_errors=True)
                elif os.path.exists(p2):
                    os.remove(p2)
        except Exception as ex:  # noqa: BLE001
            e["oa"] = e["ob"] = e["ra"] = e["rb"] = ["EXC:" + type(ex).__name__]
        out.append({"init": before, "ev": [e], "meta": {"fixture": os.path.basename(path), "table": [si, ti], "orient": orient, "cell": [r, c],
                                                           "from_neighbour": use_nb, "strokes": [{"o": 1, "len": 1, "v": "a"}], "line": r if orient == "h" else c}})
    return out


# ------------------------------------------------------------------ styles
def attr_sets(rng, k):
    """k complete attribute sets over the documented domains (float32-exact sizes, known fonts, RGB, 5x3 alignments)"""
    from numbers_parser import RGB, Alignment
    from numbers_parser.generated.fontmap import FONT_NAME_TO_FAMILY
    fams = sorted(set(FONT_NAME_TO_FAMILY.values()))
    from numbers_parser import BackgroundImage
    out = []
    for _ in range(k):
        bg = rng.choice([None, RGB(rng.randrange(256), rng.randrange(256), rng.randrange(256)), RGB(0, 0, 0), RGB(255, 255, 255)])
        img = None
        if rng.random() < 0.25:
            # a background image instead of a colour: a small valid PNG with its own name
            w, h = rng.randint(1, 6), rng.randint(1, 6)
            img = BackgroundImage(tiny_png(w, h, (rng.randrange(256), rng.randrange(256), rng.randrange(256))), "img-%d-%d-%d.png" % (w, h, rng.randrange(10 ** 6)))
            bg = None
        out.append(dict(font_name=rng.choice(fams), font_size=rng.randrange(4, 400) / 4.0, font_color=RGB(rng.randrange(256), rng.randrange(256), rng.randrange(256)),
                        bold=rng.random() < 0.5, italic=rng.random() < 0.5, underline=rng.random() < 0.5, strikethrough=rng.random() < 0.5,
                        alignment=Alignment(rng.choice(["left", "right", "center", "justified", "auto"]), rng.choice(["top", "middle", "bottom"])),
                        first_indent=rng.randrange(0, 80) / 4.0, left_indent=rng.randrange(0, 80) / 4.0, right_indent=rng.randrange(0, 80) / 4.0,
                        text_inset=rng.randrange(0, 60) / 4.0, text_wrap=rng.random() < 0.5, bg_color=bg, bg_image=img))
    return out


def tiny_png(w, h, rgb):
    import struct
    import zlib
    raw = b"".join(b"\x00" + bytes(rgb) * w for _ in range(h))

    def ch(t, d):
        return struct.pack(">I", len(d)) + t + d + struct.pack(">I", zlib.crc32(t + d) & 0xFFFFFFFF)
    return b"\x89PNG\r\n\x1a\n" + ch(b"IHDR", struct.pack(">IIBBBBB", w, h, 8, 2, 0, 0, 0)) + ch(b"IDAT", zlib.compress(raw)) + ch(b"IEND", b"")


ATTRS = ["font_name", "font_size", "font_color", "bold", "italic", "underline", "strikethrough", "alignment", "first_indent", "left_indent", "right_indent",
         "text_inset", "text_wrap", "bg_color", "bg_image"]


def style_tuple(st):
    def norm(x):
        if x is None:
            return None
        if hasattr(x, "horizontal"):
            return (int(x.horizontal), int(x.vertical))
        if hasattr(x, "r"):
            return (x.r, x.g, x.b)
        if hasattr(x, "filename"):
            import hashlib
            return ("img", re.sub(r"^n\d+-", "", x.filename or ""), hashlib.sha1(x.data or b"").hexdigest())
        if isinstance(x, float):
            return round(x, 4)
        return x
    return tuple(norm(getattr(st, a)) for a in ATTRS)


def style_job(job):
    (idx, ops, seed, scratch, twin) = job
    warnings.simplefilter("ignore")
    from numbers_parser import BackgroundImage, Document, Style
    rng = random.Random(seed)
    sets = dict(zip(["A", "B", "C", "D"], attr_sets(rng, 4)))
    # where the two cells live: in one table, or the second one in a table added to the sheet / on an added sheet
    layout = idx % 3
    if twin == "bg_color/split":
        layout = 0
    elif twin and twin not in ("preset-over", "textonly-over"):
        # near twins matter most where both cells live in ONE table (style records are de-duplicated per table): two of three cases
        layout = [0, 0, 1, 0, 0, 2][idx % 6]
    where = {"c1": (0, 0), "c2": [(0, 0), (0, 1), (1, 0)][layout]}

    def new_doc():
        d = Document(num_rows=2, num_cols=2, num_header_rows=0, num_header_cols=0)
        if layout == 1:
            d.sheets[0].add_table("Second", num_rows=2, num_cols=2, num_header_rows=0, num_header_cols=0)
        elif layout == 2:
            d.add_sheet("Other", "Third", 2, 2)
        return d

    def tab(d, c):
        return d.sheets[where[c][0]].tables[where[c][1]]
    if twin == "textonly-over":
        # A: a style with a fill and non-default inset / wrapping; B: an API-created style whose CELL-level attributes are all the
        # defaults (only font attributes given) - applied over A it must replace A's fill, inset, wrapping and alignment
        from numbers_parser import RGB
        sets["A"]["bg_image"] = None
        sets["A"]["bg_color"] = RGB(30, 30 + idx % 50, 200)
        sets["A"]["text_wrap"] = False
        sets["A"]["text_inset"] = 8.0
        dflt = Style()
        for a in ("alignment", "bg_color", "bg_image", "first_indent", "left_indent", "right_indent", "text_inset", "text_wrap"):
            sets["B"][a] = getattr(dflt, a)
    elif twin == "preset-over":
        # a style with a fill and non-default inset / wrapping: what a preset style applied later must replace
        from numbers_parser import RGB
        sets["A"]["bg_image"] = None
        sets["A"]["bg_color"] = RGB(200, 30 + idx % 50, 30)
        sets["A"]["text_wrap"] = False
    elif twin == "bg_color/split":
        # fills whose decimal digits run together to the same string: (1, 23, 4) and (12, 3, 4) - the hard case for a de-duplication key
        from numbers_parser import RGB
        pa, pb = [((1, 23, 4), (12, 3, 4)), ((11, 1, 1), (1, 11, 1)), ((2, 55, 25), (25, 5, 25)), ((1, 0, 10), (10, 1, 0)), ((1, 1, 11), (11, 1, 1)),
                  ((21, 2, 12), (2, 12, 12))][idx % 6]
        sets["A"]["bg_image"] = None
        sets["A"]["bg_color"] = RGB(*pa)
        sets["B"] = dict(sets["A"])
        sets["B"]["bg_color"] = RGB(*pb)
    elif twin:
        # near twins: B differs from A in exactly one attribute - the hard case for anything that shares or de-duplicates style records
        other = sets["B"]
        if twin == "bg_image":
            sets["A"]["bg_color"] = None            # a fill is a colour or an image, not both
        elif twin == "bg_color":
            sets["A"]["bg_image"] = None
        for _ in range(200):
            if style_tuple(Style(**{twin: other[twin]}))[ATTRS.index(twin)] != style_tuple(Style(**{twin: sets["A"][twin]}))[ATTRS.index(twin)]:
                break
            other = attr_sets(rng, 1)[0]
        sets["B"] = dict(sets["A"])
        sets["B"][twin] = other[twin]
    doc = new_doc()
    pos = {"c1": (0, 0), "c2": (1, 1)}
    for c, (r, k) in pos.items():
        tab(doc, c).write(r, k, "cell " + c)
    base = {c: style_tuple(tab(doc, c).cell(*pos[c]).style) for c in pos}
    # the observation of defaults above must not itself disturb the document: start from a fresh one
    doc = new_doc()
    for c, (r, k) in pos.items():
        tab(doc, c).write(r, k, "cell " + c)
    # the document's preset style "Body" (Styles.tla PresetNames): its attribute-set token is its name
    want = {"Body": style_tuple(doc.styles["Body"])}
    names = {"Body": doc.styles["Body"]}
    path = os.path.join(scratch, "st-%d-%d.numbers" % (os.getpid(), idx))

    def token(d, c):
        tup = style_tuple(tab(d, c).cell(*pos[c]).style)
        for k, tu in want.items():
            if tup == tu:
                return k
        if tup == base[c]:
            return "default"
        return "?:" + json.dumps(tup)[:200]
    trace = {"ev": [], "meta": {"ops": ops, "idx": idx, "twin": twin, "layout": layout}}
    nimg = 0
    for op in ops:
        e = dict(op)
        try:
            if op["op"] == "add":
                kw = dict(sets[op["a"]])
                if kw.get("bg_image") is not None:
                    # the library stores an image file name once per document (by design): every add brings its own copy
                    nimg += 1
                    kw["bg_image"] = BackgroundImage(kw["bg_image"].data, "n%d-%s" % (nimg, kw["bg_image"].filename))
                if op["nm"] != "AUTO":
                    kw["name"] = "Named " + op["nm"]
                st = doc.add_style(**kw)
                want[op["a"]] = style_tuple(Style(**{k: v for k, v in sets[op["a"]].items()}))
                e["name"] = st.name if op["nm"] == "AUTO" else op["nm"]
                names[e["name"]] = st
            elif op["op"] == "apply":
                st = names[op["nm"]]
                e["name"] = op["nm"]
                tb = tab(doc, op["c"])
                if rng.random() < 0.5:
                    tb.set_cell_style(*pos[op["c"]], st)
                elif rng.random() < 0.5:
                    tb.set_cell_style(*pos[op["c"]], st.name)
                else:
                    tb.write(*pos[op["c"]], "cell " + op["c"], style=st)
            elif op["op"] == "read":
                e["seen"] = token(doc, op["c"])
                _ = tab(doc, op["c"]).cell(*pos[op["c"]]).border
            elif op["op"] == "save":
                e["exc"] = ""
                try:
                    doc.save(path, package=(idx % 4 == 3))      # every fourth history goes through the package form (images are loose files there)
                    d2 = Document(path)
                    e["re"] = {c: token(d2, c) for c in pos}
                except Exception as ex:  # noqa: BLE001
                    e["exc"] = "%s:%s" % (type(ex).__name__, str(ex)[:80])
                    e["re"] = {c: "EXC" for c in pos}
            elif op["op"] == "reopen":
                doc = Document(path)
                new_names, seen_named = {}, {}
                for k, v in names.items():
                    st = doc.styles.get(v.name)
                    if st is None:
                        continue
                    new_names[k] = st
                    tup = style_tuple(st)
                    tokn = next((t for t, tu in want.items() if tu == tup), None)
                    if tokn is None:
                        tokn = "R%d" % len(want)
                        want[tokn] = tup
                    seen_named[k] = tokn
                names = new_names
                e["named"] = seen_named
        except Exception as ex:  # noqa: BLE001
            e["op"] = "error"
            e["exc"] = "%s:%s" % (type(ex).__name__, str(ex)[:80])
            trace["ev"].append(e)
            break
        trace["ev"].append(e)
    if os.path.isdir(path):
        import shutil
        shutil.rmtree(path)
    elif os.path.exists(path):
        os.remove(path)
    return trace


def fixture_style_job(job):
    """a LOADED document: the Style object of one styled cell is edited in place (one cell-level or one text-level attribute), the
    document is saved, read again, saved again; a second styled cell is the bystander.  Events for Trace_Styles ("default" = the style
    the cell came with)."""
    (idx, path, scratch) = job
    warnings.simplefilter("ignore")
    from numbers_parser import Document
    out = []
    try:
        doc0 = Document(path)
        cands = []
        for si, sh in enumerate(doc0.sheets):
            for ti, tb in enumerate(sh.tables):
                if tb.num_rows * tb.num_cols > 3000:
                    continue
                for r, row in enumerate(tb.rows()):
                    for c, cell in enumerate(row):
                        try:
                            st = cell.style
                        except Exception:  # noqa: BLE001
                            continue
                        if st is None or type(cell).__name__ == "MergedCell":
                            continue
                        rank = 0 if st.bg_image is not None else 1 if st.bg_color is not None else 2 if cell.value is not None else 3
                        cands.append((rank, si, ti, r, c))
        cands.sort()
        by_table = {}
        for x in cands:
            by_table.setdefault((x[1], x[2]), []).append(x)
        jobs = [v[:2] for v in by_table.values() if len(v) >= 2][:3]
    except Exception:  # noqa: BLE001
        return []
    for k, ((_, si, ti, r1, c1), (_, _, _, r2, c2)) in enumerate(jobs):
        pos = {"c1": (r1, c1), "c2": (r2, c2)}
        try:
            base = {c: style_tuple(doc0.sheets[si].tables[ti].cell(*pos[c]).style) for c in pos}
            doc = Document(path)
            tb = doc.sheets[si].tables[ti]
            st = tb.cell(*pos["c1"]).style
            attr = ["text_inset", "bold", "text_wrap", "font_size"][(idx + k) % 4]
            new = {"text_inset": (st.text_inset or 0.0) + 1.0, "bold": not st.bold, "text_wrap": not st.text_wrap, "font_size": (st.font_size or 10.0) + 1.0}[attr]
            setattr(st, attr, new)
            wantA = list(base["c1"])
            wantA[ATTRS.index(attr)] = round(new, 4) if isinstance(new, float) else new
            want = {"A": tuple(wantA)}
        except Exception:  # noqa: BLE001
            continue

        def token(d, c):
            tup = style_tuple(d.sheets[si].tables[ti].cell(*pos[c]).style)
            if tup == want["A"]:
                return "A"
            if tup == base[c]:
                return "default"
            return "?:" + json.dumps(tup)[:200]
        trace = {"ev": [{"op": "edit", "c": "c1", "a": "A"}], "meta": {"fixture": os.path.basename(path), "table": [si, ti], "cells": pos, "attr": attr, "ops": "fixture-edit", "twin": None}}
        p2 = os.path.join(scratch, "fst-%d-%d-%d.numbers" % (os.getpid(), idx, k))
        for step in ("save", "read", "save"):
            e = {"op": step}
            try:
                if step == "read":
                    e["c"] = "c1"
                    e["seen"] = token(doc, "c1")
                else:
                    e["exc"] = ""
                    doc.save(p2)
                    d2 = Document(p2)
                    e["re"] = {c: token(d2, c) for c in pos}
            except Exception as ex:  # noqa: BLE001
                e["exc"] = "%s:%s" % (type(ex).__name__, str(ex)[:80])
                e["re"] = {c: "EXC" for c in pos}
            trace["ev"].append(e)
        if os.path.exists(p2):
            os.remove(p2)
        out.append(trace)
    return out


def TB_CFG(n):
    return 'CONSTANTS N = %d\nValues = {"a", "b", "old"}\nMaxStrokes = 99\nBug = "none"\nSPECIFICATION TSpec\nINVARIANT Done\nCHECK_DEADLOCK FALSE\n' % n


TS_CFG = 'CONSTANTS Cells = {"c1", "c2"}\nAttrs = {"A", "B", "C", "D"}\nPresetNames = {"Body"}\nMaxOps = 99\nBug = "none"\nSPECIFICATION TSpec\nINVARIANT Done\nCHECK_DEADLOCK FALSE\n'


def dump_histories(ctx, module, cfgtext, what):
    dump = os.path.join(ctx.scratch, "c15dump-%d" % random.getrandbits(30))
    ctx.tlc(module, cfgtext, what=what, dump=dump, timeout=1800)
    fn = dump + ".dump" if os.path.exists(dump + ".dump") else dump
    states = list(tlaval.parse_dump(open(fn).read()))
    for f in glob.glob(dump + "*"):
        os.remove(f)
    prefixes = {json.dumps(st["hist"][:-1], sort_keys=True) for st in states if st["hist"]}
    hs = [st["hist"] for st in states if st["hist"] and json.dumps(st["hist"], sort_keys=True) not in prefixes]
    hs.sort(key=lambda h: json.dumps(h, sort_keys=True))
    return hs, len(states)


def run(ctx):
    q = ctx.quick
    ctx.rule = ("border cases: every maximal stroke sequence of Borders.tla (positions, lengths, two border values, overlapping / abutting / superseding) replayed on "
                "horizontal and vertical grid lines of real tables, addressed from either adjacent cell, observed from both adjacent cells on the open document and "
                "on the file saved after every stroke; style cases: behaviours of Styles.tla (add named/auto, apply by object/name/write, read, save, reopen) with "
                "attribute sets drawn from the documented domains; distinct_nontrivial = distinct histories with at least two strokes / one applied style")
    ctx.assumptions = ["style sizes/indents are float32-exact quarter points, fonts are families known to the library", "border and style values are compared attribute by attribute through tokens"]
    bcfg = 'CONSTANTS N = %d\nValues = {"a", "b"}\nMaxStrokes = %d\nBug = "%s"\nSPECIFICATION Spec\n%sINVARIANT FileAgrees\nINVARIANT OpenAgrees\nCHECK_DEADLOCK FALSE\n'
    scfg = 'CONSTANTS Cells = {"c1", "c2"}\nAttrs = {"A", "B"}\nPresetNames = {"Body"}\nMaxOps = %d\nBug = "%s"\nSPECIFICATION Spec\n%sINVARIANT SavedIsShown\nPROPERTY ReadIsReadOnly\nPROPERTY UnstyledKeep\nCHECK_DEADLOCK FALSE\n'
    ctx.stage("model-check")
    ctx.tlc("Borders", bcfg % (5, 3 if q else 4, "none", "VIEW NoHist\n"), what="MC_Borders[5 positions, 2 values]", timeout=3000)
    ctx.tlc("Borders", bcfg % (4, 3, "StampAfterUpdate", "VIEW NoHist\n"), what="Bug_StampAfterUpdate", expect_violation="OpenAgrees", count=False)
    ctx.tlc("Borders", bcfg % (4, 3, "FirstRunWins", "VIEW NoHist\n"), what="Bug_FirstRunWins", expect_violation="FileAgrees", count=False)
    ctx.tlc("Borders", bcfg % (4, 3, "OrderBeforeBump", "VIEW NoHist\n"), what="Bug_OrderBeforeBump", expect_violation="OpenAgrees", count=False)
    ctx.tlc("Borders", bcfg % (4, 3, "TouchForgetsBorders", "VIEW NoHist\n"), what="Bug_TouchForgetsBorders", expect_violation="OpenAgrees", count=False)
    ctx.tlc("Borders", bcfg % (4, 3, "AnchorShowsInner", "VIEW NoHist\n"), what="Bug_AnchorShowsInner", expect_violation="OpenAgrees", count=False)
    ctx.tlc("Borders", bcfg % (4, 3, "MergeForgetsOuter", "VIEW NoHist\n"), what="Bug_MergeForgetsOuter", expect_violation="OpenAgrees", count=False)
    ctx.tlc("Styles", scfg % (6 if q else 7, "none", "VIEW NoHist\n"), what="MC_Styles", timeout=3000)
    ctx.tlc("Styles", scfg % (6, "ReadMarksDirty", "VIEW NoHist\n"), what="Bug_ReadMarksDirty", expect_violation="SavedIsShown", count=False)
    ctx.tlc("Styles", scfg % (6, "PresetKeepsCellStyle", "VIEW NoHist\n"), what="Bug_PresetKeepsCellStyle", expect_violation="SavedIsShown", count=False)
    rng = random.Random(ctx.seed + 15)
    ctx.stage("borders")
    N = 4
    bh, nb = dump_histories(ctx, "Borders", bcfg % (N, 3, "none", ""), "Gen_Borders")
    bh = [h for h in bh if len(h) >= 2]
    if q and len(bh) > 300:
        bh = rng.sample(bh, 300)
    elif len(bh) > 6000:
        bh = rng.sample(bh, 6000)
    jobs = []
    for i, h in enumerate(bh):
        orient = "h" if i % 2 == 0 else "v"
        line = rng.choice([0, 1, 2, N])      # the table's outer edge, inner lines, the last line (beyond the last cell: bottom/right edge)
        if line == N:
            line = N - 1 if rng.random() < 0.5 else 2
        jobs.append((i, h, orient, line, N, ctx.seed * 3 + i, ctx.scratch, 1 if i % 5 == 0 else 2 if i % 5 == 1 else 3 if i % 5 == 3 else 0))
    btr = fixtures.pmap(border_job, jobs, ctx.workers, chunksize=4)
    ctx.evaluations += len(btr)
    # a longer line (6 positions, two strokes): an earlier stroke that neither starts at the first position nor reaches the last one,
    # and a later one strictly inside it (add_stroke splits the earlier run into a head and a tail)
    N6 = 6
    bh6, _ = dump_histories(ctx, "Borders", bcfg % (N6, 2, "none", ""), "Gen_Borders[6 positions]")

    def inner(h):
        a, b = h[0], h[1]
        return (len(h) == 2 and a["o"] >= 2 and a["o"] + a["len"] - 1 < N6 and not str(b["v"]).startswith("touch") and b["v"] != "reopen"
                and b["o"] > a["o"] and b["o"] + b["len"] < a["o"] + a["len"])
    bh6 = [h for h in bh6 if len(h) == 2 and not any(str(x["v"]).startswith("touch") or x["v"] == "reopen" or x["o"] == 0 for x in h)]
    split = [h for h in bh6 if inner(h)]
    rest6 = [h for h in bh6 if not inner(h)]
    sel6 = rng.sample(split, min(len(split), 40 if q else 400)) + rng.sample(rest6, min(len(rest6), 40 if q else 600))
    jobs6 = [(50000 + i, h, "h" if i % 2 == 0 else "v", rng.choice([0, 1, 3]), N6, ctx.seed * 3 + 50000 + i, ctx.scratch, 0) for i, h in enumerate(sel6)]
    btr6 = fixtures.pmap(border_job, jobs6, ctx.workers, chunksize=4)
    ctx.evaluations += len(btr6)
    for t in btr6:
        ctx.distinct.add(("b6", json.dumps(t["meta"]["strokes"]), t["meta"]["orient"], t["meta"]["line"]))
    for t in btr:
        ctx.distinct.add(("b", json.dumps(t["meta"]["strokes"]), t["meta"]["orient"], t["meta"]["line"]))
    ctx.sample({"strokes": btr[0]["meta"]["strokes"], "line": [btr[0]["meta"]["orient"], btr[0]["meta"]["line"]], "after_last_stroke_open": btr[0]["ev"][-1]["oa"],
                "reopened": btr[0]["ev"][-1]["ra"]})

    def brej(t, line, op, clause):
        ev = t["ev"][line - 1]
        ctx.fail({"engine": "trace-borders", "clause": clause, "orient": t["meta"]["orient"]},
                 "strokes %s on %s line %d: after stroke %d %s: open %s / %s, reopened %s / %s" % (json.dumps(t["meta"]["strokes"]), t["meta"]["orient"], t["meta"]["line"], line, clause,
                                                                                                 ev["oa"], ev["ob"], ev["ra"], ev["rb"]), t["meta"])
    tracecheck.validate(ctx, "Trace_Borders", TB_CFG(N),
                        btr, "borders", brej, batch=400, payload=lambda t: {"init": t["init"], "ev": t["ev"]})
    tracecheck.validate(ctx, "Trace_Borders", TB_CFG(N6),
                        btr6, "borders-6", brej, batch=400, payload=lambda t: {"init": t["init"], "ev": t["ev"]})
    # fixture tables that already carry borders: the first stroke after loading, over an existing border
    ctx.stage("fixture-borders")
    fx = fixtures.readable_fixtures(ctx.workers)
    if q:
        fx = [p for p in fx if any(k in os.path.basename(p).lower() for k in ("border", "style", "issue-85", "test-1."))] or fx[:6]
    ftr = [t for lst in fixtures.pmap(fixture_border_job, [(i, p, ctx.seed * 5 + i, ctx.scratch) for i, p in enumerate(fx)], ctx.workers, chunksize=1) for t in lst]
    ctx.evaluations += len(ftr)
    for t in ftr:
        ctx.distinct.add(("fxb", t["meta"]["fixture"], json.dumps(t["meta"]["table"]), t["meta"]["orient"], json.dumps(t["meta"]["cell"]), t["meta"]["from_neighbour"]))
    ctx.extra["fixture_border_probes"] = {"documents": len(fx), "probes": len(ftr)}
    if ftr:
        ctx.sample({"fixture": ftr[0]["meta"]["fixture"], "edge": [ftr[0]["meta"]["orient"], ftr[0]["meta"]["cell"]], "before": ftr[0]["init"], "after": ftr[0]["ev"][0]["oa"],
                    "reopened": ftr[0]["ev"][0]["ra"]})

        def frej(t, line, op, clause):
            ev = t["ev"][line - 1]
            ctx.fail({"engine": "trace-borders", "clause": clause, "orient": t["meta"]["orient"], "fixture": t["meta"]["fixture"]},
                     "%s table %s: first stroke after loading over the existing %s border of cell %s (drawn from the %s): %s: open %s / %s, reopened %s / %s"
                     % (t["meta"]["fixture"], t["meta"]["table"], "top" if t["meta"]["orient"] == "h" else "left", t["meta"]["cell"],
                        "neighbour" if t["meta"]["from_neighbour"] else "cell itself", clause, ev["oa"], ev["ob"], ev["ra"], ev["rb"]), t["meta"])
        tracecheck.validate(ctx, "Trace_Borders", TB_CFG(1), ftr, "fixture-borders", frej, batch=400, payload=lambda t: {"init": t["init"], "ev": t["ev"]})
    ctx.stage("styles")
    sh, ns = dump_histories(ctx, "Styles", scfg % (5 if q else 6, "none", ""), "Gen_Styles")
    sh = [h for h in sh if any(o["op"] == "apply" for o in h) and any(o["op"] == "save" for o in h)]
    all_sh = sh
    if len(sh) > (300 if q else 5000):
        # a style that went through a file before it is applied (add, save, reopen, apply, save) is always among the sampled histories
        def through_file(h):
            ops = [o["op"] for o in h]
            if "reopen" not in ops:
                return False
            k = ops.index("reopen")
            return "add" in ops[:k] and "save" in ops[:k] and "apply" in ops[k:] and "save" in ops[k:]
        must = [h for h in sh if through_file(h)]
        must = must if len(must) <= 60 else rng.sample(must, 60)
        rest = [h for h in sh if not through_file(h)]
        sh = must + rng.sample(rest, min(len(rest), (300 if q else 5000) - len(must)))
    def both_live(h):
        """two styles with different attribute sets are on the two cells when the file is saved"""
        on, attr = {}, {}
        for o in h:
            if o["op"] == "reopen":
                return False
            if o["op"] == "add":
                name = o["nm"] if o["nm"] != "AUTO" else next("Custom Style %d" % i for i in range(1, 5) if "Custom Style %d" % i not in attr)
                attr[name] = o["a"]
            elif o["op"] == "apply":
                on[o["c"]] = o["nm"]
            elif o["op"] == "save" and len(on) == 2 and all(n in attr for n in on.values()) and len({attr[n] for n in on.values()}) == 2:
                return True          # (both are styles the history added - a preset on one of the cells would leave the twin unused)
        return False
    sjobs = [(i, [dict(o) for o in h], ctx.seed * 7 + i, ctx.scratch, None) for i, h in enumerate(sh)]
    twins = [h for h in all_sh if both_live(h)]
    if not twins:
        raise Machinery("no style history with two styles live at a save")
    twins = rng.sample(twins, min(len(twins), 4 if q else 60))
    # every such history once per attribute, with the two styles differing in that attribute only
    for j, h in enumerate(twins):
        for k, a in enumerate(ATTRS):
            sjobs.append((100000 + j * 100 + k, [dict(o) for o in h], ctx.seed * 7 + j * 100 + k, ctx.scratch, a))
    for j in range(max(len(twins), 12)):
        sjobs.append((200000 + j, [dict(o) for o in twins[j % len(twins)]], ctx.seed * 7 + j, ctx.scratch, "bg_color/split"))
    ctx.extra["twin_style_cases"] = len(twins) * len(ATTRS) + max(len(twins), 12)
    # longer directed histories of Styles.tla with four attribute sets: both cells styled, saved, reopened, then two NEW styles applied and
    # saved again (style records allocated after the document has been through a file; cells in one or in two tables, see `layout`)
    for j in range(9 if q else 90):
        n1, n2 = ("AUTO", "Named") if j % 2 else ("Named", "AUTO")
        r1, r2 = ("Custom Style 1", "Named") if j % 2 else ("Named", "Custom Style 1")
        h = [{"op": "add", "nm": n1, "a": "A"}, {"op": "add", "nm": "AUTO", "a": "B"}]
        second = "Custom Style 2" if j % 2 else "Custom Style 1"
        h += [{"op": "apply", "nm": r1 if j % 2 else "Named", "c": "c1"}, {"op": "apply", "nm": second, "c": "c2"}, {"op": "save"}, {"op": "reopen"}]
        third, fourth = ("Custom Style 3", "Custom Style 4") if j % 2 else ("Custom Style 2", "Custom Style 3")
        h += [{"op": "add", "nm": "AUTO", "a": "C"}, {"op": "add", "nm": "AUTO", "a": "D"}, {"op": "apply", "nm": third, "c": "c1"}, {"op": "apply", "nm": fourth, "c": "c2"},
              {"op": "save"}, {"op": "read", "c": "c1"}, {"op": "save"}]
        sjobs.append((300000 + j, h, ctx.seed * 11 + j, ctx.scratch, None))
    # a preset style applied over a styled cell: before the first save, after a save, after a reopen
    for j in range(6 if q else 60):
        h = [{"op": "add", "nm": "Named" if j % 2 else "AUTO", "a": "A"}]
        first = "Named" if j % 2 else "Custom Style 1"
        h += [{"op": "apply", "nm": first, "c": "c1"}, {"op": "apply", "nm": first, "c": "c2"}]
        if j % 3 >= 1:
            h += [{"op": "save"}]
        if j % 3 == 2:
            h += [{"op": "reopen"}]
        h += [{"op": "apply", "nm": "Body", "c": "c1"}, {"op": "save"}, {"op": "read", "c": "c1"}, {"op": "save"}, {"op": "reopen"}, {"op": "read", "c": "c2"}, {"op": "save"}]
        sjobs.append((400000 + j, h, ctx.seed * 13 + j, ctx.scratch, "preset-over"))
    # the same with an API-created style that only sets font attributes
    for j in range(6 if q else 60):
        h = [{"op": "add", "nm": "Named" if j % 2 else "AUTO", "a": "A"}]
        first = "Named" if j % 2 else "Custom Style 1"
        second = "Custom Style 1" if j % 2 else "Custom Style 2"
        h += [{"op": "apply", "nm": first, "c": "c1"}, {"op": "apply", "nm": first, "c": "c2"}]
        if j % 3 >= 1:
            h += [{"op": "save"}]
        if j % 3 == 2:
            h += [{"op": "reopen"}]
        h += [{"op": "add", "nm": "AUTO", "a": "B"}, {"op": "apply", "nm": second, "c": "c1"}, {"op": "save"}, {"op": "read", "c": "c1"}, {"op": "save"},
              {"op": "reopen"}, {"op": "read", "c": "c2"}, {"op": "save"}]
        sjobs.append((500000 + j, h, ctx.seed * 17 + j, ctx.scratch, "textonly-over"))
    strs = fixtures.pmap(style_job, sjobs, ctx.workers, chunksize=4)
    ctx.evaluations += len(strs)
    for t in strs:
        ctx.distinct.add(("s", json.dumps(t["meta"]["ops"]), t["meta"]["twin"]))
    ctx.sample({"style_history": strs[0]["meta"]["ops"]})
    ctx.extra["histories"] = {"border_states_with_hist": nb, "border_replayed": len(btr), "style_states_with_hist": ns, "style_replayed": len(strs)}

    def srej(t, line, op, clause):
        ev = t["ev"][line - 1]
        ctx.fail({"engine": "trace-styles", "clause": clause, "exc": (ev.get("exc") or "").split(":")[0]},
                 "style history %s%s: rejected at event %d (%s): %s" % (json.dumps(t["meta"]["ops"])[:500], " (styles differ in %s only)" % t["meta"]["twin"] if t["meta"]["twin"] else "", line, clause, json.dumps({k: v for k, v in ev.items()})[:400]), t["meta"])
    tracecheck.validate(ctx, "Trace_Styles", TS_CFG,
                        strs, "styles", srej, batch=400, payload=lambda t: {"ev": t["ev"]})
    # styles that came with a document, edited in place (Level B: see fsrej)
    ctx.stage("fixture-styles")
    sfx = fixtures.readable_fixtures(ctx.workers)
    if q:
        sfx = [p for p in sfx if any(k in os.path.basename(p).lower() for k in ("style", "bgcolour", "issue-85", "test-1.", "test-formats"))] or sfx[:6]
    fstr = [t for lst in fixtures.pmap(fixture_style_job, [(i, p, ctx.scratch) for i, p in enumerate(sfx)], ctx.workers, chunksize=1) for t in lst]
    ctx.evaluations += len(fstr)
    for t in fstr:
        ctx.distinct.add(("fxs", t["meta"]["fixture"], json.dumps(t["meta"]["table"]), json.dumps(t["meta"]["cells"]), t["meta"]["attr"]))
    ctx.extra["fixture_style_edits"] = len(fstr)

    def fsrej(t, line, op, clause):
        ev = t["ev"][line - 1]
        # Level B only: C15 speaks of styles that are CREATED AND APPLIED; assigning to an attribute of the Style object a loaded cell
        # hands out is another route (text-level attributes assigned that way are not saved at all on the pinned tree), so a
        # difference here is reported as DRIFT, never as a violation
        ctx.drifted("%s table %s: %s of the style of cell %s assigned in place: %s at event %d: %s" % (
            t["meta"]["fixture"], t["meta"]["table"], t["meta"]["attr"], t["meta"]["cells"]["c1"], clause, line, json.dumps(ev)[:300]))
    if fstr:
        tracecheck.validate(ctx, "Trace_Styles", TS_CFG, fstr, "fixture-styles", fsrej, batch=400, payload=lambda t: {"ev": t["ev"]})
    ctx.stage("selftest")
    import copy
    g = copy.deepcopy(next(t for t in btr if len(t["ev"]) >= 2))
    g["ev"][-1]["rb"] = ["a" if x == "b" else "b" for x in g["ev"][-1]["rb"]]
    rej = []
    tracecheck.validate(ctx, "Trace_Borders", TB_CFG(N),
                        [g], "selftest", lambda t, l, o, c: rej.append(c), count=False, payload=lambda t: {"init": t["init"], "ev": t["ev"]})
    g2 = copy.deepcopy(next(t for t in strs if any(e["op"] == "save" and e.get("exc") == "" for e in t["ev"])))
    for e in g2["ev"]:
        if e["op"] == "save":
            e["re"]["c1"] = "corrupt"
    tracecheck.validate(ctx, "Trace_Styles", TS_CFG,
                        [g2], "selftest", lambda t, l, o, c: rej.append(c), count=False, payload=lambda t: {"ev": t["ev"]})
    if len(rej) != 2:
        raise Machinery("binding self-test: corrupted traces judged %s" % rej)
    ctx.extra["binding_selftest"] = "a flipped neighbour-side border of the reopened file and a corrupted reopened style are both rejected"


def replay(ctx, data):
    print(json.dumps(data["replay"])[:2000])
    return 0

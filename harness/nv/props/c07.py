"""C07 - every saved package is structurally sound and referentially closed.

spec/Package.tla (identifier allocation, component metadata, reference closure), spec/Trace_Package.tla (judge),
spec/RowMap.tla / CellRecord.tla (tile geometry and record layout used by the validator)."""
import glob
import json
import os
import random
import re
import shutil
import warnings

from .. import fixtures, gendocs, structure
from ..core import Machinery


def pk_cfg(bug="none", maxnew=3):
    return ("CONSTANTS SrcIds = {1, 2, 3}\nSrcFiles = {50}\nDangling = {77}\nMaxNew = %d\nBug = \"%s\"\nSPECIFICATION Spec\nINVARIANT FreshIds\n"
            "INVARIANT DistinctIds\nINVARIANT Listed\nINVARIANT Closed\nINVARIANT DataClosed\nCHECK_DEADLOCK FALSE\n" % (maxnew, bug))


def save_case(job):
    """(kind, arg): 'resave' fixture path | 'gen' (gendoc kind, seed) | 'shape' (rows, cols) | 'history' seed.  Returns list of events:
    first save, and a second save of the reopened file (ids must be fresh again)."""
    (idx, kind, arg, scratch) = job
    warnings.simplefilter("ignore")
    from numbers_parser import Document
    base = os.path.join(scratch, "pk-%d-%d" % (os.getpid(), idx))
    events = []
    try:
        if kind == "resave":
            src = arg
            doc = Document(src)
            label = os.path.basename(src)
        elif kind == "edit":
            # a loaded document edited through the API: control cells (pop-up menu, stepper), a style, a merge and a new table on its
            # first tables (objects created next to - or appended to - what Numbers wrote); an edit the library refuses is skipped
            from numbers_parser import MergedCell
            src = arg
            doc = Document(src)
            label = "edit:" + os.path.basename(src)
            st = None
            ntab = 0
            for sh in doc.sheets:
                for tb in sh.tables:
                    if ntab >= 12 or tb.num_rows * tb.num_cols > 20000:
                        continue
                    ntab += 1
                    r0, c0 = tb.num_header_rows, tb.num_header_cols
                    free = [(r, c) for r in range(r0, min(tb.num_rows, r0 + 4)) for c in range(c0, min(tb.num_cols, c0 + 4))
                            if not isinstance(tb.cell(r, c), MergedCell) and not tb.cell(r, c).is_merged]
                    edits = [lambda r, c: (tb.write(r, c, "item 1"), tb.set_cell_formatting(r, c, "popup", popup_values=["item 1", "item 2"], allow_none=True)),
                             lambda r, c: (tb.write(r, c, 3.0), tb.set_cell_formatting(r, c, "stepper", minimum=0, maximum=10, increment=1)),
                             lambda r, c: tb.write(r, c, "styled", style=st)]
                    for (r, c), ed in zip(free, edits):
                        try:
                            if st is None:
                                st = doc.add_style(bold=True, text_inset=6.0)
                            ed(r, c)
                        except Exception:  # noqa: BLE001
                            pass
            try:
                doc.sheets[0].add_table("Added by C07", num_rows=3, num_cols=3)
            except Exception:  # noqa: BLE001
                pass
        elif kind == "gen":
            src = fixtures.TEMPLATE
            doc = gendocs.build(arg[0], arg[1])
            label = "api:%s:%d" % arg
        elif kind == "shape":
            src = fixtures.TEMPLATE
            doc = Document(num_rows=arg[0], num_cols=arg[1])
            tb = doc.sheets[0].tables[0]
            tb.write(arg[0] - 1, arg[1] - 1, "corner")
            tb.write(0, 0, 1.5)
            if arg[0] > 256:
                tb.write(256, 0, "tile2")
            label = "shape:%dx%d" % arg
        else:
            from .c03 import random_history
            src = fixtures.TEMPLATE
            label = "history:%d" % arg
            # the random driver saves on its own; here we only need its final documents: re-run its ops on a document we keep
            doc = gendocs.build("all", arg)
            tb = doc.sheets[0].tables[0]
            rng = random.Random(arg)
            for _ in range(30):
                k = rng.random()
                if k < 0.4:
                    tb.write(rng.randint(0, tb.num_rows + 1), rng.randint(0, tb.num_cols), rng.choice([1.5, "x", True]))
                elif k < 0.55:
                    tb.add_row(rng.randint(1, 2), rng.choice([None, 0, tb.num_rows - 1]))
                elif k < 0.7:
                    tb.add_column(1, rng.choice([None, 0]))
                elif k < 0.8 and tb.num_rows > 6:
                    tb.delete_row(1, tb.num_rows - 1)
                elif k < 0.9 and tb.num_cols > 6:
                    tb.delete_column(1, tb.num_cols - 1)
    except Exception as e:  # noqa: BLE001
        return [{"label": "%s(build failed: %s)" % (kind, type(e).__name__), "skip": True}]
    src_abs = structure.abstract(src)
    p1 = base + "-1.numbers"
    # the form of the saved package (Document.save's package option): every third case writes the first save as a package folder
    # (archives in Index.zip, other members as loose files), every third the second one
    forms = {0: ("zip", "zip"), 1: ("package", "zip"), 2: ("zip", "package")}[idx % 3]
    for cycle in (1, 2):
        exc = ""
        try:
            doc.save(p1 if cycle == 1 else base + "-2.numbers", package=(forms[cycle - 1] == "package"))
        except Exception as e:  # noqa: BLE001
            exc = "%s:%s" % (type(e).__name__, str(e)[:80])
        saved = p1 if cycle == 1 else base + "-2.numbers"
        ev = structure.save_event(src_abs, saved, exc)
        ev["label"] = "%s#%d%s" % (label, cycle, "p" if forms[cycle - 1] == "package" else "")
        events.append(ev)
        if exc or ev["reopen"]:
            break
        if cycle == 1:
            src_abs = structure.abstract(p1)
            try:
                doc = Document(p1)
            except Exception:  # noqa: BLE001
                break
    for f in glob.glob(base + "-*"):
        if os.path.isdir(f):
            shutil.rmtree(f)
        else:
            os.remove(f)
    return events


def judge(ctx, events, count=True):
    B = 60
    for b0 in range(0, len(events), B):
        part = events[b0:b0 + B]
        path = os.path.join(ctx.scratch, "pk-%d.ndjson" % b0)
        with open(path, "w") as fh:
            for e in part:
                fh.write(json.dumps({k: v for k, v in e.items() if k != "label"}) + "\n")
        res = ctx.tlc("Trace_Package", "Trace_Package.cfg", what="Trace_Package[%d]" % b0, env={"TRACE_FILE": path}, timeout=3000, count=count, heap="12g")
        os.remove(path)
        seen = {int(m.group(1)): m.group(2) for m in re.finditer(r'^"V (\d+) ([\w-]+)"$', res.out, re.M)}
        if len(seen) != len(part):
            raise Machinery("Trace_Package: %d verdicts for %d events\n%s" % (len(seen), len(part), res.out[-1500:]))
        if count:
            ctx.traces += len(part)
        for tid, v in seen.items():
            if v != "ok":
                e = part[tid - 1]
                detail = e["exc"] or e["reopen"]
                if v == "dangling-reference":
                    ok = set(e["savedIds"]) | set(e["srcDangling"])
                    touched = set(e["rewritten"]) | (set(e["savedIds"]) - set(e["srcIds"]))
                    detail = str([(i, [t for t in ts if t not in ok]) for i, ts in e["refs"] if i in touched and any(t not in ok for t in ts)][:4])
                elif v == "file-not-listed":
                    detail = str([f for f in e["addedFiles"] if f not in e["componentFiles"]][:4])
                elif v == "dangling-data-reference":
                    detail = str([(i, [d for d in ds if d not in e["dataIds"]]) for i, ds in e["dataRefs"]][:4])
                elif v == "data-file-missing":
                    detail = str(e["dataFilesMissing"][:6])
                elif v == "tile-geometry":
                    detail = str([(t[0], t[1], [(x[0], [r for r in x[1] if r[5:] != [1, 1, 1] or r[1] != r[2] or r[3] != t[1] or r[4] != 1][:2]) for x in t[2]][:3]) for t in e["tables"]][:2])[:400]
                ctx.fail({"engine": "trace", "clause": v, "label": e["label"].split("#")[0], "cycle": e["label"].split("#")[-1], "exc": (e["exc"] or e["reopen"]).split(":")[0]},
                         "%s: %s %s" % (e["label"], v, detail), {"label": e["label"]})


def run(ctx):
    q = ctx.quick
    ctx.rule = ("one event per save: plain re-save of fixtures, API-built documents of every feature mix, edit histories, boundary table shapes; "
                "each saved file is reopened and saved again (second event); distinct_nontrivial = distinct (document, cycle) events in which the "
                "save created or rewrote at least one object")
    ctx.assumptions = ["the validator's notion of reference = every TSP.Reference field reachable in the first message of an archive segment",
                       "Apple Numbers as consumer is out of reach: the invariants are the clauses the property lists"]
    ctx.stage("model-check")
    ctx.tlc("Package", pk_cfg(), what="MC_Package", timeout=1800)
    for bug, inv in (("ReuseId", "DistinctIds"), ("ForgetComponent", "Listed"), ("StaleHighWater", "FreshIds"), ("DanglingRef", "Closed"),
                     ("DataNotRegistered", "DataClosed"), ("DataFileNotStored", "DataClosed")):
        ctx.tlc("Package", pk_cfg(bug), what="Bug_%s" % bug, expect_violation=inv, count=False)
    ctx.stage("record")
    fx = fixtures.readable_fixtures(ctx.workers) + [fixtures.TEMPLATE]
    if q:
        fx = fx[::5] + [fixtures.TEMPLATE]
    jobs = []
    k = 0
    for p in fx:
        jobs.append((k, "resave", p, ctx.scratch))
        k += 1
    must = [p for p in fixtures.readable_fixtures(ctx.workers) if os.path.basename(p) in ("issue-9.numbers", "test-1.numbers")]
    for p in (fx[::2] if q else fx[:-1]) + [m for m in must if m not in fx]:
        jobs.append((k, "edit", p, ctx.scratch))
        k += 1
    kinds = [x for x in gendocs.KINDS if x != "large"] + (["large"] if not q else [])
    for i, kd in enumerate(kinds * (1 if q else 3)):
        jobs.append((k, "gen", (kd, ctx.seed * 7 + i), ctx.scratch))
        k += 1
    shapes = [(255, 3), (256, 3), (257, 3), (3, 256), (3, 257)] if q else [(255, 3), (256, 3), (257, 3), (512, 3), (513, 2), (3, 256), (3, 257), (2, 1000), (300, 260)]
    for s in shapes:
        jobs.append((k, "shape", s, ctx.scratch))
        k += 1
    for i in range(4 if q else 40):
        jobs.append((k, "history", ctx.seed * 3 + i, ctx.scratch))
        k += 1
    res = fixtures.pmap(save_case, jobs, ctx.workers)
    events = [e for lst in res for e in lst if not e.get("skip")]
    skipped = [e["label"] for lst in res for e in lst if e.get("skip")]
    if skipped:
        ctx.note("cases not built: %s" % skipped[:5])
    ctx.evaluations += len(events)
    for e in events:
        if e["rewritten"] or set(e["savedIds"]) - set(e["srcIds"]):
            ctx.distinct.add(e["label"])
    ctx.sample({"case": events[0]["label"], "created_ids": sorted(set(events[0]["savedIds"]) - set(events[0]["srcIds"]))[:6], "rewritten": len(events[0]["rewritten"]),
                "high_water_mark": events[0]["lastId"], "added_files": events[0]["addedFiles"][:3]})
    ctx.extra["cases"] = {"jobs": len(jobs), "events": len(events)}
    ctx.stage("judge")
    judge(ctx, events)
    ctx.stage("selftest")
    import copy
    good = next(e for e in events if e["addedFiles"] and e["refs"] and e["tables"] and not e["exc"])
    b1 = copy.deepcopy(good)
    b1["componentFiles"] = [f for f in b1["componentFiles"] if f != b1["addedFiles"][0]]
    b2 = copy.deepcopy(good)
    tgt = next(i for i, (o, ts) in enumerate(b2["refs"]) if True)
    b2["refs"][tgt][1] = b2["refs"][tgt][1] + [999999999]
    b3 = copy.deepcopy(good)
    b3["lastId"] = 5
    b4 = copy.deepcopy(good)
    b4["tables"][0][0] += 1
    saved = ctx.failures
    ctx.failures = []
    judge(ctx, [b1, b2, b3, b4], count=False)
    got = sorted(f[0]["clause"] for f in ctx.failures)
    ctx.failures = saved
    if got != ["above-high-water-mark", "dangling-reference", "file-not-listed", "tile-geometry"]:
        raise Machinery("binding self-test: corrupted events judged %s" % got)
    ctx.extra["binding_selftest"] = "unlisted file, dangling reference, id above the high-water mark, tile rows not summing to the table all rejected"


def replay(ctx, data):
    print(json.dumps(data["replay"])[:2000])
    return 0

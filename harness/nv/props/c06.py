"""C06 - what is read does not depend on meaning-preserving choices of file layout.

spec/DataList.tla (lookup-list indexer), spec/RowMap.tla (row -> storage record), spec/IWAFrame.tla (re-chunking, via C05),
spec/Lifecycle.tla (Rewrite action, LayoutBlind), spec/Trace_Lifecycle.tla (judge of the metamorphic relation)."""
import glob
import json
import os
import random
import re
import shutil
import warnings

from .. import fixtures, gendocs, observe, rewrite, tlaval, tracecheck
from ..core import Machinery
from .c02 import lc_cfg


def rewrite_case(job):
    """apply a composition of layout rewrites to one document; observe original and rewritten copy with the library"""
    (idx, source, names, seed, scratch) = job
    warnings.simplefilter("ignore")
    from numbers_parser import Document
    rng = random.Random(seed)
    trace = {"meta": {"source": os.path.basename(source), "rewrites": names, "idx": idx}, "ev": []}
    base = os.path.join(scratch, "rw-%d-%d" % (os.getpid(), idx))
    try:
        obs0 = observe.observe_doc(Document(source))
    except Exception as e:  # noqa: BLE001
        return None
    trace["init"] = observe.summarize(obs0)
    e = {"op": "rewrite", "exc": "", "w": "+".join(names)}
    try:
        pkg = rewrite.Pkg.load(source)
        path, effect = rewrite.apply(pkg, names, rng, base)
        trace["meta"]["effect"] = effect
    except AssertionError as ex:
        trace["meta"]["machinery"] = str(ex)
        return trace
    except Exception as ex:  # noqa: BLE001
        trace["meta"]["machinery"] = "rewriter failed: %s: %s" % (type(ex).__name__, str(ex)[:100])
        return trace
    try:
        o = observe.observe_doc(Document(path))
        e["obs"] = observe.summarize(o)
        d = observe.diff(obs0, o)
        if d:
            e["diff"] = d
    except Exception as ex:  # noqa: BLE001
        e["exc"] = "%s:%s" % (type(ex).__name__, str(ex)[:100])
        e["obs"] = []
    trace["ev"].append(e)
    if os.path.isdir(path):
        shutil.rmtree(path, ignore_errors=True)
    elif os.path.exists(path):
        os.remove(path)
    return trace


# ------------------------------------------------------------------ mechanisms: lists and row maps from TLC states
def datalist_job(job):
    """materialise one TLC list (a sequence of distinct abstract keys 1..6) as the string list of a real table"""
    (idx, entries, base_doc, scratch) = job
    warnings.simplefilter("ignore")
    from numbers_parser import Document
    from numbers_parser.generated import TSTArchives_pb2 as TST
    pkg = rewrite.Pkg.load(base_doc)
    keymap = {}

    def fn(msg, _id):
        if msg.listType != TST.TableDataList.ListType.STRING:
            return False
        es = {e.string: TST.TableDataList.ListEntry.FromString(e.SerializeToString()) for e in msg.entries}
        if "s1" not in es:
            return False
        for k in range(1, 7):
            keymap[k] = es["s%d" % k].key
        del msg.entries[:]
        for k in entries:
            msg.entries.add().CopyFrom(es["s%d" % k])
        return True
    n = rewrite._map_messages(pkg, "TST.TableDataList", fn, None)
    if n != 1:
        return {"idx": idx, "machinery": "string list not found (%d)" % n}
    path = os.path.join(scratch, "dl-%d-%d.numbers" % (os.getpid(), idx))
    pkg.save_single(path)
    try:
        tb = Document(path).sheets[0].tables[0]
        got = [tb.cell(r, 0).value for r in range(6)]
        exc = ""
    except Exception as e:  # noqa: BLE001
        got, exc = [], "%s:%s" % (type(e).__name__, str(e)[:80])
    os.remove(path)
    want = ["s%d" % k if k in entries else "" for k in range(1, 7)]
    return {"idx": idx, "entries": entries, "got": got, "want": want, "exc": exc}


def rowmap_job(job):
    """materialise one TLC store: which rows are non-empty, which empty rows carry a header record, which empty rows carry a
    row record without cells"""
    (idx, nonempty, extra, empties, tile2, scratch) = job
    warnings.simplefilter("ignore")
    from numbers_parser import Document
    from numbers_parser.generated import TSTArchives_pb2 as TST

    def real(r):      # abstract tile size 2 -> real tile size 256
        return (r // 2) * 256 + (r % 2) if tile2 else r
    nr = real(4) + 1
    doc = Document(num_rows=nr, num_cols=2, num_header_rows=0, num_header_cols=0)
    tb = doc.sheets[0].tables[0]
    for r in nonempty:
        tb.write(real(r), 1, "row%d" % r)
    base = os.path.join(scratch, "rm-%d-%d" % (os.getpid(), idx))
    doc.save(base + "-src.numbers")
    pkg = rewrite.Pkg.load(base + "-src.numbers")
    keep = {real(r) for r in nonempty} | {real(r) for r in extra}
    found = []

    def fn(b, oid):
        idxs = [h.index for h in b.headers]
        if len(idxs) != nr or b.headers[0].numberOfCells not in (0, 2):     # the row bucket of this table has one header per row
            return False
        if oid in found:
            return False
        # row buckets list numberOfCells = number of columns; the column bucket has nr entries only if nr == 2
        hs = [TST.HeaderStorageBucket.Header.FromString(h.SerializeToString()) for h in b.headers if h.index in keep]
        del b.headers[:]
        for h in hs:
            b.headers.add().CopyFrom(h)
        found.append(oid)
        return True
    # only the ROW header bucket: identify it through the table model
    tm_rows = row_bucket_ids(pkg)
    n = rewrite._map_messages(pkg, "TST.HeaderStorageBucket", lambda b, oid: fn(b, oid) if oid in tm_rows else False, None)
    out = {"idx": idx, "nonempty": nonempty, "extra": extra, "empties": empties, "tile2": tile2}
    if n != 1:
        out["machinery"] = "row header bucket not found (%d)" % n
        return out
    # the library's writer leaves one row record per row: keep those of the non-empty rows, turn those of `empties` into records
    # without cells, drop the others (the way Numbers stores an empty row)
    spans = rewrite.tile_spans(pkg)
    full, bare = {real(r) for r in nonempty}, {real(r) for r in empties}

    def tfn(tile, oid):
        if oid not in spans:
            return False
        tid, size, _ = spans[oid]
        infos = []
        for ri in tile.rowInfos:
            row = tid * size + ri.tile_row_index
            if row in full:
                infos.append(TST.TileRowInfo.FromString(ri.SerializeToString()))
            elif row in bare:
                infos.append(rewrite.empty_record(ri, ri.tile_row_index))
        del tile.rowInfos[:]
        for ri in infos:
            tile.rowInfos.add().CopyFrom(ri)
        tile.numrows = len(infos)
        return True
    if rewrite._map_messages(pkg, "TST.Tile", tfn, None) < 1:
        out["machinery"] = "tiles not found"
        return out
    pkg.save_single(base + "-rw.numbers")
    try:
        t2 = Document(base + "-rw.numbers").sheets[0].tables[0]
        out["got"] = [t2.cell(real(r), 1).value for r in range(5)]
        out["nrows"] = t2.num_rows
        out["exc"] = ""
    except Exception as e:  # noqa: BLE001
        out["got"], out["exc"] = [], "%s:%s" % (type(e).__name__, str(e)[:80])
    out["want"] = ["row%d" % r if r in nonempty else None for r in range(5)]
    for f in glob.glob(base + "-*"):
        os.remove(f)
    return out


def row_bucket_ids(pkg):
    from numbers_parser.generated import TSTArchives_pb2 as TST
    from numbers_parser.generated.mapping import NAME_ID_MAP
    ids = set()
    for n, d in pkg.members:
        if n.endswith(".iwa") and rewrite.iwa.is_wellformed(d):
            for info, msgs in rewrite.decode_member(d):
                if info.message_infos and info.message_infos[0].type == NAME_ID_MAP["TST.TableModelArchive"]:
                    tm = TST.TableModelArchive.FromString(msgs[0])
                    for b in tm.base_data_store.rowHeaders.buckets:
                        ids.add(b.identifier)
    return ids


def run(ctx):
    warnings.simplefilter("ignore")
    from numbers_parser import Document
    q = ctx.quick
    ctx.rule = ("mechanism cases = every TLC state of DataList.tla (permuted lists with gaps) and RowMap.tla (which rows are stored, which "
                "empty rows have headers) materialised in real files; document cases = (document, composition of <= 3 layout rewrites) "
                "with the rewritten copy read by the library; distinct_nontrivial = distinct cases whose rewrite changed at least one object or container property")
    ctx.assumptions = ["'meaning-preserving' is defined by the harness's rewriter, which is validated by its own reader (same object ids) before the library sees the file",
                       "tile size 2 of RowMap.tla is scaled to the real tile size 256 (rows 0,1,256,257,512)"]
    rng = random.Random(ctx.seed + 6)
    ctx.stage("model-check")
    dl = "CONSTANTS Keys = {1,2,3,4,5,6}\nMaxLen = %d\nBug = \"%s\"\nSPECIFICATION Spec\nINVARIANT AllIndexed\nINVARIANT IndexPointsAtEntry\nINVARIANT NextKeyFresh\nINVARIANT NoPhantom\n%sCHECK_DEADLOCK FALSE\n"
    rm = "CONSTANTS NR = 5\nTileSize = 2\nBug = \"%s\"\nSPECIFICATION Spec\nINVARIANT RowAtDeclaredIndex\n%sCHECK_DEADLOCK FALSE\n"
    lists, stores = [], []

    def h_list(line):
        m = re.match(r'^"L <<([\d, ]*)>>"$', line)
        if m:
            lists.append([int(x) for x in m.group(1).split(",")] if m.group(1).strip() else [])
            return True
        return False

    def h_store(line):
        m = re.match(r'^"R <<([\d, ]*)>> <<([\d, ]*)>> <<([\d, ]*)>>"$', line)
        if m:
            stores.append(tuple([int(x) for x in m.group(k).split(",")] if m.group(k).strip() else [] for k in (1, 2, 3)))
            return True
        return False
    ctx.tlc("DataList", dl % (4 if q else 5, "none", "INVARIANT EmitList\n"), what="MC_DataList[all permutations with gaps]", stream_to=h_list, timeout=1800)
    ctx.tlc("DataList", dl % (4, "IndexOnlyIfAscending", ""), what="Bug_IndexOnlyIfAscending", expect_violation="AllIndexed", count=False)
    ctx.tlc("RowMap", rm % ("none", "INVARIANT EmitStore\n"), what="MC_RowMap[5 rows, tiles of 2]", stream_to=h_store, timeout=600)
    ctx.tlc("RowMap", rm % ("CountHeaders", ""), what="Bug_CountHeaders", expect_violation="RowAtDeclaredIndex", count=False)
    ctx.tlc("RowMap", rm % ("SkipEmptyRecords", ""), what="Bug_SkipEmptyRecords", expect_violation="RowAtDeclaredIndex", count=False)
    ctx.tlc("Lifecycle", lc_cfg(5, kinds=["formatted"], rewrites=["permute", "rechunk", "container"]), what="MC_Lifecycle[rewrites]", timeout=600)
    # ---- spec -> code: mechanisms
    ctx.stage("mechanisms")
    base_doc = os.path.join(ctx.scratch, "dl-base.numbers")
    doc = Document(num_rows=6, num_cols=1, num_header_rows=0, num_header_cols=0)
    for k in range(1, 7):
        doc.sheets[0].tables[0].write(k - 1, 0, "s%d" % k)
    doc.save(base_doc)
    lists = sorted(set(map(tuple, lists)))
    stores = sorted(set((tuple(a), tuple(b), tuple(c)) for a, b, c in stores))
    use_lists = lists if not q else rng.sample(lists, min(len(lists), 250))
    res = fixtures.pmap(datalist_job, [(i, list(l), base_doc, ctx.scratch) for i, l in enumerate(use_lists)], ctx.workers, chunksize=8)
    for r in res:
        ctx.evaluations += 1
        if "machinery" in r:
            raise Machinery("datalist materialisation: " + r["machinery"])
        ctx.distinct.add(("dl", tuple(r["entries"])))
        if r["exc"] or r["got"] != r["want"]:
            ctx.fail({"engine": "mechanism", "clause": "datalist.lookup", "rewrite": "permute-lists", "exc": r["exc"].split(":")[0]},
                     "string list with entries in key order %s: cells read %s, expected %s %s" % (r["entries"], r["got"], r["want"], r["exc"]),
                     {"entries": r["entries"]})
    use_stores = stores if not q else rng.sample(stores, min(len(stores), 160))
    jobs = [(i, list(a), list(b), list(c), False, ctx.scratch) for i, (a, b, c) in enumerate(use_stores)]
    jobs += [(10000 + i, list(a), list(b), list(c), True, ctx.scratch) for i, (a, b, c) in enumerate(use_stores[:: (8 if q else 2)])]
    res = fixtures.pmap(rowmap_job, jobs, ctx.workers, chunksize=4)
    for r in res:
        ctx.evaluations += 1
        if "machinery" in r:
            raise Machinery("rowmap materialisation: " + r["machinery"])
        ctx.distinct.add(("rm", tuple(r["nonempty"]), tuple(r["extra"]), tuple(r["empties"]), r["tile2"]))
        if r["exc"] or r["got"] != r["want"]:
            ctx.fail({"engine": "mechanism", "clause": "rowmap.row-index",
                      "rewrite": "add-empty-row-records" if r["empties"] else "add-empty-row-headers" if r["extra"] else "drop-empty-row-headers",
                      "exc": r["exc"].split(":")[0]},
                     "rows stored %s, empty rows with header records %s, empty rows with row records %s (two tiles: %s): rows read %s, expected %s %s"
                     % (r["nonempty"], r["extra"], r["empties"], r["tile2"], r["got"], r["want"], r["exc"]),
                     {"nonempty": r["nonempty"], "extra": r["extra"], "empties": r["empties"], "tile2": r["tile2"]})
    ctx.extra["mechanism_cases"] = {"lists_from_tlc": len(lists), "lists_replayed": len(use_lists), "stores_from_tlc": len(stores), "stores_replayed": len(jobs)}
    ctx.sample({"datalist_entries_key_order": list(use_lists[len(use_lists) // 2])})
    ctx.sample({"rowmap": {"nonempty": list(use_stores[0][0]), "empty_rows_with_header": list(use_stores[0][1]), "empty_rows_with_record": list(use_stores[0][2])}})
    # ---- metamorphic relation over documents
    ctx.stage("documents")
    docs = fixtures.readable_fixtures(ctx.workers) + [fixtures.TEMPLATE]
    gen = gendocs.save_generated(ctx.scratch, 5 if q else 16, ctx.seed + 60, kinds=["plain", "multi", "styles", "formats", "all"] if q else None)
    docs += gen
    # a bulky document: its string list is far longer than 64 KiB even when compressed, so that re-chunkings produce long chunks
    bulky = os.path.join(ctx.scratch, "gen-bulky.numbers")
    bdoc = Document(num_rows=2500, num_cols=2, num_header_rows=0, num_header_cols=0)
    btb = bdoc.sheets[0].tables[0]
    for r in range(2500):
        btb.write(r, 0, "%032x" % rng.getrandbits(128))
        btb.write(r, 1, r * 0.5)
    bdoc.save(bulky)
    singles = rewrite.REWRITES
    jobs = [(900000, bulky, ["one-chunk"], ctx.seed * 13 + 1, ctx.scratch), (900001, bulky, ["rechunk"], ctx.seed * 13 + 2, ctx.scratch)]
    k = 0
    for p in docs:
        todo = [[w] for w in singles]
        if q:
            todo = [[w] for w in rng.sample(singles, 3)] + [["permute-lists"], ["add-empty-row-headers"], ["add-empty-row-records"]]
        ncomp = 1 if q else 6
        for _ in range(ncomp):
            todo.append(rng.sample(singles, rng.randint(2, 3)))
        for names in todo:
            jobs.append((k, p, names, ctx.seed * 13 + k, ctx.scratch))
            k += 1
    traces = [t for t in fixtures.pmap(rewrite_case, jobs, ctx.workers, chunksize=2) if t is not None]
    for t in traces:
        if "machinery" in t["meta"]:
            raise Machinery("rewriter: %s on %s %s" % (t["meta"]["machinery"], t["meta"]["source"], t["meta"]["rewrites"]))
    ctx.evaluations += len(traces)
    for t in traces:
        if t["meta"].get("effect", 0) > 0:
            ctx.distinct.add((t["meta"]["source"], tuple(t["meta"]["rewrites"])))
    ctx.extra["document_cases"] = {"documents": len(docs), "cases": len(traces), "with_effect": sum(1 for t in traces if t["meta"].get("effect", 0) > 0)}
    ctx.sample({"document": traces[0]["meta"]["source"], "rewrites": traces[0]["meta"]["rewrites"], "objects_changed": traces[0]["meta"].get("effect")})
    ctx.stage("validate")

    def on_reject(t, line, op, clause):
        ev = t["ev"][line - 1]
        ws = t["meta"]["rewrites"]
        ctx.fail({"engine": "trace", "clause": clause.split(".")[1] if "." in clause else clause, "component": clause.split(".")[-1],
                  "rewrite": ws[0] if len(ws) == 1 else "composition", "fixture": t["meta"]["source"], "exc": ev["exc"].split(":")[0]},
                 "%s rewritten by %s: %s %s %s" % (t["meta"]["source"], "+".join(ws), clause, ev["exc"], "; ".join(ev.get("diff", [])[:3])[:600]),
                 {"source": t["meta"]["source"], "rewrites": ws, "seed": t["meta"]["idx"]})
    tracecheck.validate(ctx, "Trace_Lifecycle", "Trace_Lifecycle.cfg", traces, "layout", on_reject, batch=200,
                        payload=lambda t: {"init": t["init"], "ev": [{k: v for k, v in e.items() if k not in ("diff", "w")} for e in t["ev"]]})
    ctx.stage("selftest")
    import copy
    good = next(t for t in traces if t["ev"] and t["ev"][0]["exc"] == "" and t["init"] and t["init"][0]["tables"])
    b1 = copy.deepcopy(good)
    b1["ev"][0]["obs"][0]["tables"][0]["values"] = "corrupt"
    rej = []
    tracecheck.validate(ctx, "Trace_Lifecycle", "Trace_Lifecycle.cfg", [b1], "selftest", lambda t, l, o, c: rej.append(c), count=False,
                        payload=lambda t: {"init": t["init"], "ev": [{k: v for k, v in e.items() if k not in ("diff", "w")} for e in t["ev"]]})
    if rej != ["rewrite.differs.values"]:
        raise Machinery("binding self-test: corrupted trace judged %s" % rej)
    ctx.extra["binding_selftest"] = "altered values digest of the rewritten copy rejected"


def replay(ctx, data):
    print(json.dumps(data["replay"])[:2000])
    return 0

"""C19 - sheet and table collections: unique names, consistent lookup, stable order.

spec/Workbook.tla (collection layer: AddTable/AddSheet/Rename*, Fold, AutoName, ByIndex/ByName/Contains),
spec/Trace_Workbook.tla (judge)."""
import json
import os
import random

from .. import wb, wbcheck
from ..core import Machinery

NAMES = ["T1", "t1", "T2", "t3", "X", "x", "N0"]


def lookup_probes(env, h):
    """every index in [-2n, 2n], every name token, for the sheets of document h and the tables of each sheet"""
    out = []
    d = env.docs[h]
    colls = [(0, len(d.sheets))] + [(s + 1, len(sh.tables)) for s, sh in enumerate(d.sheets)]
    for (s, n) in colls:
        out.append({"op": "len", "h": h, "s": s})
        for i in range(-2 * n, 2 * n + 1):
            out.append({"op": "byindex", "h": h, "s": s, "i": i})
        for nm in NAMES + ["T3", "T4"]:
            out.append({"op": "byname", "h": h, "s": s, "nm": nm})
            out.append({"op": "contains", "h": h, "s": s, "nm": nm})
    return out


def job(j):
    (idx, ops, seed, scratch, nh) = j
    rng = random.Random(seed)
    profile = wb.Profile(rng)
    env = wb.Env(scratch, profile, nh, tag="c19-%d-%d" % (os.getpid(), idx))
    env.newdoc(1, 1, 1)
    trace = {"init": env.project(), "ev": [], "profile": profile.describe()}
    for op in ops:
        op = {k: v for k, v in op.items() if k != "out"}
        out, res = env.apply(op)
        e = dict(op)
        e["out"] = out.split(":")[0] if out.startswith("Other") else out
        if out.startswith("Other"):
            e["exc"] = out
        e["post"] = env.project()
        trace["ev"].append(e)
        if out != "ok" and out != "IndexError":
            break
        for h in env.docs:
            if env.docs[h] is None:
                continue
            for pr in lookup_probes(env, h):
                o, r = env.apply(pr)
                pe = dict(pr)
                pe["out"] = o
                pe["res"] = r if r is not None else "Other:" + o
                trace["ev"].append(pe)
        # reads change nothing: one state check after the probes
        trace["ev"].append({"op": "len", "h": 1, "s": 0, "out": "ok", "res": len(env.docs[1].sheets) if env.docs[1] else 0,
                            "post": env.project()})
    import glob
    for f in glob.glob(env.path("*")):
        os.remove(f)
    return idx, trace


def run(ctx):
    q = ctx.quick
    ctx.rule = ("histories over add_sheet/add_table (named, unnamed, case variants, generated-looking names, empty and non-ASCII names), "
                "renames, save and reopen; after every call every index in [-2n,2n] and every name is looked up in every collection; "
                "distinct_nontrivial = distinct op sequences that contain a refusal, an automatic name or a rename")
    ctx.assumptions = ["names are drawn from a token pool instantiated with concrete strings (incl. '', non-ASCII, case variants)"]
    ctx.stage("model-check")
    mc = wbcheck.cfg(names=NAMES, maxr=1, maxc=1, maxt=3, maxs=3, depth=4 if q else 6, vals=("a",), counts=(1,), defaults=("e",),
                     ops=["addtable", "addsheet", "rename", "save", "open"])
    res = ctx.tlc("Workbook", mc, what="MC_Workbook[collections <=3 sheets x <=3 tables]", timeout=3000)
    ctx.tlc("Collections", "MC_Collections.cfg", what="MC_Collections (ItemsList index arithmetic)", timeout=600)
    for bug, inv in (("NegWrap", "IndexAgreesWithOrder"), ("ContainsCaseSensitive", "ContainsFolds")):
        ctx.tlc("Collections", open(os.path.join(spec_dir(), "MC_Collections.cfg")).read().replace('Bug = "none"', 'Bug = "%s"' % bug),
                what="Bug_%s" % bug, expect_violation=inv, count=False, timeout=600)
    ctx.stage("generate")
    gen = wbcheck.cfg(names=["t1", "T2", "t2", "X", "x", "N0"], maxr=1, maxc=1, maxt=3, maxs=3, depth=3 if q else 4, vals=("a",), counts=(1,),
                      defaults=("e",), ops=["addtable", "addsheet", "rename", "save", "open"], view=False, props=False)
    hist, nstates = wbcheck.histories_from_dump(ctx, gen, "Gen_Workbook[collections]")
    rng = random.Random(ctx.seed + 19)
    if q and len(hist) > 500:
        # always keep the histories in which an automatic name is chosen while a case variant of a generated name exists
        def auto_after_variant(h):
            seen = False
            for o in h[0]:
                if o.get("nm") in ("t1", "t2", "t3"):
                    seen = True
                elif seen and o.get("nm") == "AUTO":
                    return True
            return False
        must = [h for h in hist if auto_after_variant(h)]
        must = must if len(must) <= 200 else rng.sample(must, 200)
        rest = [h for h in hist if not auto_after_variant(h)]
        hist = must + rng.sample(rest, min(len(rest), 500 - len(must)))
    sim = wbcheck.histories_from_simulation(
        ctx, wbcheck.cfg(names=NAMES, maxr=1, maxc=1, maxt=6, maxs=6, depth=16, vals=("a",), counts=(1,), defaults=("e",),
                         ops=["addtable", "addsheet", "rename", "save", "open"], view=False, props=False),
        "Gen_Workbook[collections, simulate to 6x6]", 100 if q else 1500, 16, ctx.seed + 5)
    ctx.extra["generated_histories"] = {"states_with_hist": nstates, "replayed": len(hist), "simulated": len(sim)}
    ctx.stage("replay")
    from ..fixtures import pmap
    jobs = [(i, [dict(o) for o in h], ctx.seed * 17 + i, ctx.scratch, 1) for i, (h, _) in enumerate(hist + sim)]
    res = pmap(job, jobs, ctx.workers, chunksize=4)
    traces = []
    for idx, t in res:
        ctx.evaluations += 1
        traces.append(t)
        ops = (hist + sim)[idx][0]
        if any(o.get("out") != "ok" or o.get("nm") == "AUTO" or o["op"].startswith("rename") for o in ops):
            ctx.distinct.add(json.dumps(ops, sort_keys=True))
    ctx.sample({"history": hist[0][0], "events_in_trace": len(traces[0]["ev"])})
    ctx.stage("validate")
    wbcheck.validate(ctx, traces, nhandles=1, label="collections", batch=100)
    # fixtures: every shipped document's collections probed with all indices and names (code -> spec, loaded documents)
    ctx.stage("fixtures")
    from .. import fixtures
    fx = fixtures.readable_fixtures(ctx.workers)
    if q:
        fx = fx[::6]
    ftr = pmap(fixture_job, [(i, p, ctx.scratch) for i, p in enumerate(fx)], ctx.workers)
    ctx.evaluations += len(ftr)
    wbcheck.validate(ctx, ftr, nhandles=1, label="fixture-collections", batch=20)
    ctx.stage("selftest")
    wbcheck.selftest(ctx)


def fixture_job(j):
    (idx, path, scratch) = j
    from numbers_parser import Document
    profile = wb.Profile(random.Random(idx))
    env = wb.Env(scratch, profile, 1, tag="fx%d" % idx)
    env.docs[1] = Document(path)

    def names_only():
        return [[{"name": wb.R_SHEET.get(sh.name, "N:" + sh.name),
                  "tables": [{"name": wb.R_TABLE.get(tb.name, "N:" + tb.name), "nr": 1, "nc": 1, "cells": [], "bad": 0} for tb in sh.tables]}
                 for sh in env.docs[1].sheets]]
    trace = {"init": names_only(), "ev": [], "profile": {"fixture": os.path.basename(path)}, "meta": {"fixture": os.path.basename(path)}}
    for pr in lookup_probes(env, 1):
        o, r = env.apply(pr)
        pe = dict(pr)
        pe["out"] = o
        pe["res"] = r if r is not None else "Other:" + o
        trace["ev"].append(pe)
    # names looked up by their own exact text
    d = env.docs[1]
    for s, sh in enumerate(d.sheets):
        try:
            ok = d.sheets[sh.name].name == sh.name
        except Exception:  # noqa: BLE001
            ok = False
        trace["ev"].append({"op": "len", "h": 1, "s": 0, "out": "ok", "res": len(d.sheets) if ok else -1})
    return trace


def spec_dir():
    from .. import tlc
    return tlc.SPEC_DIR


def replay(ctx, data):
    print(json.dumps(data["replay"])[:3000])
    return 0

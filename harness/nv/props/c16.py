"""C16 - table geometry and labels survive save and reopen unchanged.

spec/Geometry.tla (Level B mechanism: stored size / set value / memo / border allowance; SurvivesReload),
spec/Trace_Geometry.tla (Level A judge over recorded observations)."""
import glob
import hashlib
import json
import os
import random

from .. import fixtures, tlaval, tracecheck
from ..core import Machinery

SCALARS = ["height", "width", "x", "y", "hr", "hc", "tname", "sname", "cap", "capon", "nameon"]


def stok(s):
    if s is None:
        return "none"
    s = str(s)
    if s.isascii() and all(c.isalnum() or c in " ._-" for c in s) and len(s) < 40:
        return "s:" + s
    return "h:%d:%s" % (len(s), hashlib.sha1(s.encode("utf-8", "surrogatepass")).hexdigest()[:12])


def observe(doc, si, ti):
    sh = doc.sheets[si]
    tb = sh.tables[ti]
    x, y = tb.coordinates
    return {"rh": [repr(tb.row_height(r)) for r in range(tb.num_rows)], "cw": [repr(tb.col_width(c)) for c in range(tb.num_cols)],
            "height": repr(tb.height), "width": repr(tb.width), "x": repr(x), "y": repr(y),
            "hr": repr(tb.num_header_rows), "hc": repr(tb.num_header_cols), "tname": stok(tb.name), "sname": stok(sh.name),
            "cap": stok(tb.caption), "capon": repr(bool(tb.caption_enabled)), "nameon": repr(bool(tb.table_name_enabled))}


BAD = {"rh": [], "cw": [], **{k: "EXC" for k in SCALARS}}


def run_history(job):
    """source: None (new document of given shape) or a fixture path; ops: abstract geometry ops on table (si, ti)."""
    (idx, source, si, ti, ops, scratch) = job
    import warnings
    warnings.simplefilter("ignore")
    from numbers_parser import RGB, Border, Document

    multi = not isinstance(source, str) and len(source) == 3
    by = None          # a bystander table of the same document: nothing done to table (si, ti) may show on it

    def fresh():
        if isinstance(source, str):
            return Document(source)
        d = Document(num_rows=source[0], num_cols=source[1])
        if multi:
            # tables made through the API next to the first one: on the same sheet and on a sheet of their own
            d.sheets[0].add_table("Second", num_rows=source[0], num_cols=source[1])
            d.add_sheet("Other", "Third", source[0], source[1])
        return d
    if multi:
        by = [(0, 0), (0, 1), (1, 0)][(source[2] + 1) % 3]
        si, ti = [(0, 0), (0, 1), (1, 0)][source[2] % 3]
    trace = {"init": observe(fresh(), si, ti), "ev": [], "meta": {"source": os.path.basename(source) if isinstance(source, str) else list(source),
                                                                 "table": [si, ti], "idx": idx}}
    if by:
        trace["by"] = {"init": observe(fresh(), *by), "ev": [], "meta": {"source": list(source), "table": list(by), "idx": idx, "bystander_of": [si, ti]}}
    doc = fresh()
    path = os.path.join(scratch, "geo-%d-%d.numbers" % (os.getpid(), idx))
    for op in ops:
        e = dict(op)
        tb = doc.sheets[si].tables[ti]
        k = op["op"]
        try:
            if k == "set":
                c, v = op["k"], op.get("v")
                if c == "rh":
                    tb.row_height(op["i"] - 1, v)
                elif c == "cw":
                    tb.col_width(op["i"] - 1, v)
                elif c == "hr":
                    tb.num_header_rows = v
                elif c == "hc":
                    tb.num_header_cols = v
                elif c == "tname":
                    tb.name = v
                elif c == "sname":
                    doc.sheets[si].name = v
                elif c == "cap":
                    tb.caption = v
                elif c == "capon":
                    tb.caption_enabled = v
                elif c == "nameon":
                    tb.table_name_enabled = v
                e["v"] = stok(v)
            elif k == "query":
                c = op["k"]
                if c == "rh":
                    tb.row_height(op["i"] - 1)
                elif c == "cw":
                    tb.col_width(op["i"] - 1)
                elif c == "height":
                    _ = tb.height
                elif c == "width":
                    _ = tb.width
                else:
                    _ = (tb.coordinates, tb.num_header_rows, tb.name, tb.caption, tb.caption_enabled)
            elif k == "border":
                # a border of width w along the top of row r / the left of column c, over the whole line
                b = Border(float(op["w"]), RGB(0, 0, 0), "solid")
                if op["axis"] == "row":
                    tb.set_cell_border(op["i"] - 1, 0, op.get("side", "top"), b, tb.num_cols)
                    r = op["i"]
                    e["rows"] = [x for x in (r - 1, r) if 1 <= x <= tb.num_rows] if op.get("side", "top") == "top" else [x for x in (r, r + 1) if 1 <= x <= tb.num_rows]
                    e["cols"] = []
                else:
                    tb.set_cell_border(0, op["i"] - 1, op.get("side", "left"), b, tb.num_rows)
                    c = op["i"]
                    e["cols"] = [x for x in (c - 1, c) if 1 <= x <= tb.num_cols] if op.get("side", "left") == "left" else [x for x in (c, c + 1) if 1 <= x <= tb.num_cols]
                    e["rows"] = []
            elif k == "save":
                e["exc"] = ""
                try:
                    with warnings.catch_warnings(record=True) as wlist:
                        warnings.simplefilter("always")
                        doc.save(path)
                    tname = doc.sheets[si].tables[ti].name
                    if any("Not modifying pivot table '%s'" % tname in str(w.message) for w in wlist):
                        # the library says so itself: pivot tables are not written back (what was set on one is not saved) -
                        # the same documented exception as in C02; the history says nothing about C16
                        trace["meta"]["pivot"] = True
                        trace["ev"] = []
                        break
                    e["post"] = observe(doc, si, ti)
                    reo = Document(path)
                    e["re"] = observe(reo, si, ti)
                    if by:
                        trace["by"]["ev"].append({"op": "save", "exc": "", "post": observe(doc, *by), "re": observe(reo, *by)})
                except Exception as ex:  # noqa: BLE001
                    e["exc"] = "%s:%s" % (type(ex).__name__, str(ex)[:80])
                    e["post"] = BAD
                    e["re"] = BAD
                    trace["ev"].append(e)
                    break
            elif k == "reopen":
                doc = Document(path)
        except Exception as ex:  # noqa: BLE001
            # a setter / getter that is not applicable to this document (e.g. a caption on a document without a caption
            # paragraph style) says nothing about C16: the history is cut before that call and the fact noted
            # (the history ends here: a call that failed half-way may leave the document in a state nothing is claimed about)
            trace["meta"].setdefault("skipped", []).append("%s %s: %s" % (k, op.get("k", ""), type(ex).__name__))
            break
        trace["ev"].append(e)
        if by and k in ("set", "border", "query"):
            # for the bystander every call on the other table is a call that changes nothing
            if k == "set" and op["k"] == "sname" and by[0] == si:
                trace["by"]["ev"].append(dict(e))          # the sheet's name is the one thing the two tables share
            else:
                trace["by"]["ev"].append({"op": "query", "k": "other"})
    for f in glob.glob(path):
        os.remove(f)
    return trace


def sparse_source(scratch, idx, rng):
    """a document whose header lists skip the empty rows / columns of default size (the way Numbers writes them): built through the API
    with data in the top-left corner and some sizes set, saved, and the records of empty default-sized lines removed from the file"""
    import warnings
    warnings.simplefilter("ignore")
    from numbers_parser import Document
    from numbers_parser.generated import TSTArchives_pb2 as TST
    from numbers_parser.generated.mapping import NAME_ID_MAP
    from .. import rewrite
    nr, nc, dr, dc = 9, 7, 4, 3
    doc = Document(num_rows=nr, num_cols=nc)
    tb = doc.sheets[0].tables[0]
    for r in range(dr):
        for c in range(dc):
            tb.write(r, c, "r%dc%d" % (r, c))
    for c in rng.sample(range(nc), 3):
        tb.col_width(c, rng.choice([40, 61, 133, 200]))
    for r in rng.sample(range(nr), 3):
        tb.row_height(r, rng.choice([12, 31, 48, 90]))
    path = os.path.join(scratch, "sparse-%d.numbers" % idx)
    doc.save(path)
    pkg = rewrite.Pkg.load(path)
    rows_b, cols_b = set(), set()
    for n, d in pkg.members:
        if n.endswith(".iwa") and rewrite.iwa.is_wellformed(d):
            for info, msgs in rewrite.decode_member(d):
                if info.message_infos and info.message_infos[0].type == NAME_ID_MAP["TST.TableModelArchive"]:
                    tm = TST.TableModelArchive.FromString(msgs[0])
                    rows_b.update(x.identifier for x in tm.base_data_store.rowHeaders.buckets)
                    cols_b.add(tm.base_data_store.columnHeaders.identifier)

    def fn(b, oid):
        first_empty = dr if oid in rows_b else dc if oid in cols_b else None
        if first_empty is None:
            return False
        keep = [h for h in b.headers if h.size != 0.0 or h.index < first_empty]
        if len(keep) == len(b.headers):
            return False
        hs = [TST.HeaderStorageBucket.Header.FromString(h.SerializeToString()) for h in keep]
        del b.headers[:]
        for h in hs:
            b.headers.add().CopyFrom(h)
        return True
    n = rewrite._map_messages(pkg, "TST.HeaderStorageBucket", fn, None)
    pkg.save_single(path)
    return path, n


def random_ops(rng, nr, nc, with_borders, cycles):
    ops = []
    for cyc in range(cycles):
        setters = rng.sample(["rh", "cw", "hr", "hc", "tname", "sname", "cap", "capon", "nameon"], rng.randint(0, 5) if cyc else rng.randint(1, 6))
        for c in setters:
            if c == "rh":
                for _ in range(rng.randint(1, 2)):
                    ops.append({"op": "set", "k": "rh", "i": rng.randint(1, nr), "v": rng.choice([10, 24, 37, 50, 51, 100, 212])})
            elif c == "cw":
                for _ in range(rng.randint(1, 2)):
                    ops.append({"op": "set", "k": "cw", "i": rng.randint(1, nc), "v": rng.choice([20, 64, 98, 99, 120, 305])})
            elif c == "hr":
                ops.append({"op": "set", "k": "hr", "v": rng.randint(0, min(5, nr))})
            elif c == "hc":
                ops.append({"op": "set", "k": "hc", "v": rng.randint(0, min(5, nc))})
            elif c == "tname":
                ops.append({"op": "set", "k": "tname", "v": rng.choice(["Budget", "Übersicht 2", "T-%d" % rng.randint(1, 99), "a b c"])})
            elif c == "sname":
                ops.append({"op": "set", "k": "sname", "v": rng.choice(["Summary", "Blatt ß", "S%d" % rng.randint(1, 99)])})
            elif c == "cap":
                ops.append({"op": "set", "k": "cap", "v": rng.choice(["A caption", "Légende — 1", "x" * 60, "two\nlines"])})
            elif c == "capon":
                ops.append({"op": "set", "k": "capon", "v": rng.random() < 0.5})
            elif c == "nameon":
                ops.append({"op": "set", "k": "nameon", "v": rng.random() < 0.5})
        if with_borders and cyc == 0:
            for _ in range(rng.randint(1, 2)):
                if rng.random() < 0.5:
                    ops.append({"op": "border", "axis": "row", "i": rng.randint(1, nr), "w": rng.choice([1, 2, 3, 4, 8]), "side": rng.choice(["top", "bottom"])})
                else:
                    ops.append({"op": "border", "axis": "col", "i": rng.randint(1, nc), "w": rng.choice([1, 2, 3, 4, 8]), "side": rng.choice(["left", "right"])})
        rng.shuffle(ops[-6:])
        if with_borders and cyc == 0 and rng.random() < 0.6:
            # sizes read BEFORE a border arrives (memoised values of the lines on both sides of the new border must not survive it)
            pre = []
            for o in ops:
                if o["op"] == "border":
                    k, top = ("rh", nr) if o["axis"] == "row" else ("cw", nc)
                    for i in (o["i"] - 1, o["i"], o["i"] + 1):
                        if 1 <= i <= top:
                            pre.append({"op": "query", "k": k, "i": i})
                    pre.append({"op": "query", "k": "height" if o["axis"] == "row" else "width", "i": 1})
            ops[:0] = pre
        for _ in range(rng.randint(0, 3)):
            c = rng.choice(["rh", "cw", "height", "width", "other"])
            ops.append({"op": "query", "k": c, "i": rng.randint(1, nr if c == "rh" else nc)})
        ops.append({"op": "save"})
        if cyc < cycles - 1:
            ops.append({"op": "reopen"})
    return ops


def mechanism_histories(ctx, depth):
    """All bounded behaviours of the Level-B mechanism (Mode = separate) become abstract histories over two adjacent rows
    (or columns): abstract line l = row / column l + 1 (1-based), so that there is a line before the first one"""
    cfg = ('CONSTANTS NL = 2\nSizes = {60, 82}\nWidths = {1, 8}\nDefault = 40\nMode = "separate"\nD = %d\n'
           'SPECIFICATION Spec\nCONSTRAINT Depth\nCHECK_DEADLOCK FALSE\n' % depth)
    dump = os.path.join(ctx.scratch, "geodump")
    res = ctx.tlc("Geometry", cfg, what="Gen_Geometry", dump=dump, timeout=1800)
    fn = dump + ".dump" if os.path.exists(dump + ".dump") else dump
    states = list(tlaval.parse_dump(open(fn).read()))
    for f in glob.glob(dump + "*"):
        os.remove(f)
    prefixes = {json.dumps(st["hist"][:-1], sort_keys=True) for st in states if st["hist"]}
    hs = [st["hist"] for st in states if st["hist"] and json.dumps(st["hist"], sort_keys=True) not in prefixes
          and any(o["op"] == "save" for o in st["hist"])]
    hs.sort(key=lambda h: json.dumps(h, sort_keys=True))
    out = []
    for n, h in enumerate(hs):
        row = n % 2 == 0
        ops = []
        for o in h:
            if o["op"] == "set":
                ops.append({"op": "set", "k": "rh" if row else "cw", "i": o["l"] + 1, "v": o["v"] // 2})       # half points -> points
            elif o["op"] == "query":
                ops.append({"op": "query", "k": "rh" if row else "cw", "i": o["l"] + 1})
            elif o["op"] == "border":
                # edge e lies after line e: drawn as the far side of line e ("lo") or as the near side of line e + 1 ("hi")
                lo = o["from"] == "lo"
                ops.append({"op": "border", "axis": "row" if row else "col", "i": o["e"] + 1 if lo else o["e"] + 2, "w": o["w"],
                            "side": ("bottom" if lo else "top") if row else ("right" if lo else "left")})
            else:
                ops.append({"op": o["op"]})
        if ops[-1]["op"] != "save":
            ops.append({"op": "save"})
        out.append(ops)
    return out, len(states)


def run(ctx):
    q = ctx.quick
    ctx.rule = ("histories = subsets of the 11 setters with values in their documented ranges, optional borders on affected rows/columns, "
                "optional getter calls, 1..3 save/reopen cycles, on new documents and on every readable fixture (values that came from the "
                "source, never queried); distinct_nontrivial = distinct (source, op sequence) pairs containing a setter or a border or "
                "starting from a fixture")
    ctx.assumptions = ["what the open document reports right after a save is taken as 'what it reported before' (saving has no observable "
                       "effect on the open document: C03), so that rows/columns can stay unqueried until the file is written",
                       "structural edits are not mixed with geometry setters (outside C16's quantifier)"]
    ctx.stage("model-check")
    base = 'CONSTANTS NL = 2\nSizes = {60, 82}\nWidths = {0, 1, 8}\nDefault = 40\nMode = "%s"\nD = %d\nSPECIFICATION Spec\nVIEW NoHist\nCONSTRAINT Depth\nINVARIANT SurvivesReload\nPROPERTY QueryIsReadOnly\nCHECK_DEADLOCK FALSE\n'
    ctx.tlc("Geometry", base % ("separate", 7 if q else 9), what="MC_Geometry[separate]", timeout=3000)
    for m in ("SaveFromMemoOnly", "AllowanceSavedBack", "UnflooredAllowance", "ForgetWrongNeighbour"):
        ctx.tlc("Geometry", base % (m, 7), what="Bug_%s" % m, expect_violation="SurvivesReload", count=False)
    ctx.stage("generate")
    mh, nstates = mechanism_histories(ctx, 4 if q else 5)
    rng = random.Random(ctx.seed + 16)
    if q and len(mh) > 250:
        mh = rng.sample(mh, 250)
    jobs = [(i, (4, 3), 0, 0, ops, ctx.scratch) for i, ops in enumerate(mh)]
    n_mech = len(jobs)
    # random setter subsets on new documents
    for i in range(60 if q else 800):
        nr, nc = rng.choice([(4, 3), (6, 5), (12, 8)])
        jobs.append((10000 + i, (nr, nc), 0, 0, random_ops(rng, nr, nc, rng.random() < 0.4, rng.randint(1, 3)), ctx.scratch))
    # fixtures: values that came from the source document, unqueried, 1-3 cycles, plus setter subsets
    fx = fixtures.readable_fixtures(ctx.workers)
    if q:
        fx = [p for p in fx if any(k in os.path.basename(p) for k in ("issue-69", "test-1.", "test-formats", "test-borders", "test-table-size",
                                                                       "test-header", "test-new-table", "issue-49", "test-5", "issue-14"))] or fx[:8]
    fjobs = []
    for p in fx:
        fjobs.append(p)
    shapes = fixtures.pmap(fixture_shapes, fjobs, ctx.workers)
    k = 20000
    for p, tabs in zip(fjobs, shapes):
        # (issue-14 has tables whose header lists skip some rows / columns: all of its tables are taken)
        for (si, ti, nr, nc) in tabs[: (2 if q and "issue-14" not in p else 12 if q else 40)]:
            if nr * nc > 20000 or nr == 0 or nr > 1500 or nc > 1500:   # (TLC reads the size vectors from JSON: very long ones overflow its stack)
                continue
            jobs.append((k, p, si, ti, [{"op": "save"}, {"op": "reopen"}, {"op": "save"}], ctx.scratch))
            k += 1
            jobs.append((k, p, si, ti, random_ops(rng, nr, nc, False, 2), ctx.scratch))
            k += 1
    # documents whose header lists skip the default-sized rows / columns (sizes that came from the source, queried or not)
    nsparse = 0
    for i in range(4 if q else 40):
        sp, changed = sparse_source(ctx.scratch, i, rng)
        if changed:
            nsparse += 1
            jobs.append((k, sp, 0, 0, [{"op": "save"}, {"op": "reopen"}, {"op": "save"}], ctx.scratch))
            jobs.append((k + 1, sp, 0, 0, random_ops(rng, 9, 7, False, 2), ctx.scratch))
            k += 2
    ctx.extra["sparse_header_documents"] = nsparse
    ctx.extra["histories"] = {"from_mechanism_spec": n_mech, "mechanism_states_with_hist": nstates, "total": len(jobs)}
    ctx.stage("record")
    # documents with three tables (one added to the sheet, one on an added sheet): the history runs on one of them, a second one is watched
    for i in range(30 if q else 400):
        nr, nc = rng.choice([(4, 3), (6, 5)])
        jobs.append((20000 + i, (nr, nc, i), 0, 0, random_ops(rng, nr, nc, rng.random() < 0.4, rng.randint(1, 2)), ctx.scratch))
    traces = fixtures.pmap(run_history, jobs, ctx.workers, chunksize=4)
    traces += [t.pop("by") for t in traces if "by" in t]
    ctx.evaluations += len(traces)
    for t, j in zip(traces, jobs):
        ctx.distinct.add(json.dumps([t["meta"]["source"], j[4]], sort_keys=True, default=str))
    skipped = sorted({"%s: %s" % (t["meta"]["source"], x) for t in traces for x in t["meta"].get("skipped", [])})
    for x in skipped[:10]:
        ctx.note("call not applicable to this document, history cut there: " + x)
    ctx.sample({"source": traces[0]["meta"]["source"], "ops": jobs[0][4]})
    ctx.sample({"source": traces[-1]["meta"]["source"], "ops": jobs[-1][4][:8]})
    ctx.stage("validate")

    def on_reject(t, line, op, clause):
        ev = t["ev"][line - 1]
        ops = [{k: v for k, v in e.items() if k not in ("post", "re")} for e in t["ev"][:line]]
        has_border = any(e["op"] == "border" for e in t["ev"][:line])
        comp = clause.split(".")[-1]
        what = ""
        if ev.get("post") and ev.get("re") and comp in ev["post"]:
            what = " open=%s reopened=%s" % (json.dumps(ev["post"][comp])[:200], json.dumps(ev["re"][comp])[:200])
        ctx.fail({"engine": "trace", "clause": clause.split(".")[0], "component": comp, "op": op, "with_border": has_border,
                  "fixture": isinstance(t["meta"]["source"], str), "exc": (ev.get("exc") or "").split(":")[0]},
                 "source %s table %s: rejected at event %d: %s;%s ops %s" % (t["meta"]["source"], t["meta"]["table"], line, clause, what,
                                                                            json.dumps(ops)[:500]),
                 {"source": t["meta"]["source"], "table": t["meta"]["table"], "ops": ops})
    tracecheck.validate(ctx, "Trace_Geometry", "Trace_Geometry.cfg", traces, "geometry", on_reject, batch=200)
    ctx.stage("selftest")
    import copy
    good = run_history((0, (4, 3), 0, 0, [{"op": "set", "k": "rh", "i": 2, "v": 50}, {"op": "save"}], ctx.scratch))
    t1 = copy.deepcopy(good)
    t1["ev"][1]["re"]["rh"][1] = "51"
    t2 = copy.deepcopy(good)
    t2["init"]["cw"][0] = "1"
    rej = []
    tracecheck.validate(ctx, "Trace_Geometry", "Trace_Geometry.cfg", [t1, t2], "selftest", lambda t, l, o, c: rej.append(c), count=False)
    if sorted(r.split(".")[0] for r in rej) != ["open-document-drifted", "reopened-differs"]:
        raise Machinery("binding self-test: corrupted traces judged %s" % rej)
    ctx.extra["binding_selftest"] = "corrupted reopened row height and corrupted source column width both rejected"


def fixture_shapes(path):
    import warnings
    warnings.simplefilter("ignore")
    from numbers_parser import Document
    try:
        d = Document(path)
        return [(si, ti, tb.num_rows, tb.num_cols) for si, sh in enumerate(d.sheets) for ti, tb in enumerate(sh.tables)]
    except Exception:  # noqa: BLE001
        return []


def replay(ctx, data):
    r = data["replay"]
    src = r["source"]
    if isinstance(src, str):
        from ..core import DATA
        src = os.path.join(DATA, src)
    else:
        src = tuple(src)
    t = run_history((0, src, r["table"][0], r["table"][1], [{k: v for k, v in o.items() if k not in ("exc",)} for o in r["ops"]], ctx.scratch))
    for e in t["ev"]:
        print(json.dumps(e)[:800])
    return 0

"""C11 - A1 and row/column addressing reach the same cell in every call; bounds hold.

spec/Workbook.tla (addressing layer: Write/Touch refusals and exact growth, IterRows/IterCols/CellAt),
spec/A1.tla (the A1 text of a position), spec/Trace_Workbook.tla (judge)."""
import itertools
import json
import os
import random

from .. import wb, wbcheck
from ..core import Machinery

NONE_V = wb.NONE_V


def probes_for(nr, nc, rng, full):
    """iterator / cell probes for a table of nr x nc (abstract, 0-based bounds): every combination of
    {None, 0, k, last, last+1} per bound (625 per iterator) when full, a seeded sample otherwise."""
    def cand(n):
        xs = {NONE_V, 0, n - 1, n, -1}
        if n > 2:
            xs.add(1)
        return sorted(xs)
    combos = list(itertools.product(cand(nr), cand(nr), cand(nc), cand(nc)))
    # keep only addressed rectangles that are not inverted (min <= max after resolving None): inverted
    # bounds are outside the documented domain
    def ok(mn, mx, n):
        a = 0 if mn == NONE_V else mn
        b = n - 1 if mx == NONE_V else mx
        return a <= b or a < 0 or b > n - 1
    combos = [c for c in combos if ok(c[0], c[1], nr) and ok(c[2], c[3], nc)]
    if not full and len(combos) > 40:
        combos = rng.sample(combos, 40)
    out = []
    for (a, b, c, d) in combos:
        out.append({"op": "iterrows", "minr": a, "maxr": b, "minc": c, "maxc": d})
        out.append({"op": "itercols", "minr": a, "maxr": b, "minc": c, "maxc": d})
    for r in range(0, nr + 2):
        for c in range(0, nc + 2):
            out.append({"op": "cell", "r": r, "c": c})
    return out


def twin_job(job):
    """Run one spec-generated history twice (row/column arguments, A1 text) and add read-only probes at the end."""
    (idx, ops, seed, scratch, full) = job
    out = []
    # notations: row/column numbers, 'B2', and in turn lower case ('b2') or every '$' placement ('$B$2', 'B$2', '$B2')
    for a1 in (False, True, "lower" if idx % 2 else "dollar"):
        rng = random.Random(seed)
        profile = wb.Profile(rng, a1=a1, tokens=("a", "b"))
        # numeric values only so that number formatting applies to written cells
        profile.values.update({"a": 7.5, "b": -12})
        profile.rev = {wb.canon(v): k for k, v in profile.values.items()}
        trace, env = wb.run_history(scratch, profile, ops, tag="c11-%d-%d-%s" % (os.getpid(), idx, a1))
        tb = env.table(1, 1, 1)
        nr, nc = tb.num_rows, tb.num_cols
        prng = random.Random(seed + 1)
        # (a table of the bounded histories has a handful of rows; one that a changed library grew to thousands is already reported
        # through its dimensions - probing every position of it would only make the trace enormous)
        for pr in (probes_for(nr, nc, prng, full) if nr <= 60 and nc <= 60 else []):
            op = dict(pr, h=1, s=1, t=1)
            o, res = env.apply(op)
            e = dict(op)
            e["out"] = o
            e["res"] = res if res is not None else "Other:" + o
            trace["ev"].append(e)
        trace["ev"].append({"op": "len", "h": 1, "s": 0, "out": "ok", "res": len(env.docs[1].sheets), "post": env.project()})
        import glob
        for f in glob.glob(env.path("*")):
            os.remove(f)
        out.append(trace)
    return idx, out


def run(ctx):
    q = ctx.quick
    ctx.rule = ("spec-generated histories over Write/Touch with row and column arguments from -1 to one past the documented limit, "
                "each run three times (row/column form, A1 text, and A1 text in lower case or with '$' markers) and followed by iterator/cell probes over every bound combination; "
                "distinct_nontrivial counts distinct (history, notation) runs that contain a refusal, a growth or a probe raising IndexError")
    ctx.assumptions = ["abstract limits LimR=LimC=4 are concretised to MAX_ROW_COUNT / MAX_COL_COUNT read from numbers_parser.constants",
                       "a lower-case A1 spelling may be refused (IndexError, nothing changed) or read like the upper-case one: the call is made "
                       "in lower case first and repeated in upper case only after such a refusal"]
    ctx.stage("model-check")
    mc = wbcheck.cfg(maxr=3, maxc=3, maxt=1, depth=4 if q else 5, names=("T1",), rowargs=[0, 1, 2, 3, 5], colargs=[0, 1, 3, 5],
                     counts=(1,), defaults=("e",), ops=["write", "touch", "addrow", "delcol"])
    ctx.tlc("Workbook", mc, what="MC_Workbook[addressing, rows/cols -1..limit+1]", timeout=3000)
    ctx.tlc("Addressing", "MC_Addressing.cfg", what="MC_Addressing (iterators, A1 = RC)", timeout=1200)
    for bug, inv in (("FalsyBound", "IterExact"), ("IterOnePast", "IterExact"), ("NoNegativeCheck", "NegativeRefused")):
        ctx.tlc("Addressing", open(os.path.join(wbcheck_spec_dir(), "MC_Addressing.cfg")).read().replace('Bug = "none"', 'Bug = "%s"' % bug),
                what="Bug_%s" % bug, expect_violation=inv, count=False, timeout=600)
    ctx.stage("generate")
    gen = wbcheck.cfg(maxr=3, maxc=3, maxt=1, depth=3 if q else 4, names=("T1",), rowargs=[0, 1, 3, 5], colargs=[0, 1, 3, 5],
                      counts=(1,), defaults=("e",), ops=["write", "touch", "addrow"], view=False, props=False)
    hist, nstates = wbcheck.histories_from_dump(ctx, gen, "Gen_Workbook[addressing]")
    rng = random.Random(ctx.seed + 11)
    if q and len(hist) > 700:
        hist = rng.sample(hist, 700)
    elif not q and len(hist) > 8000:
        # (each history is replayed in three notations and validated event by event: 8 000 keep the thorough tier within the hour)
        hist = rng.sample(hist, 8000)
    ctx.extra["generated_histories"] = {"states_with_hist": nstates, "replayed_twice": len(hist)}
    ctx.stage("twin-replay")
    from ..fixtures import pmap
    # every history in three notations; the full set of probes (all bound combinations) on every 25th (quick) / 4th (thorough) one
    jobs = [(i, [dict(o) for o in h], ctx.seed * 31 + i, ctx.scratch, i % (25 if q else 4) == 0) for i, (h, _) in enumerate(hist)]
    first = None
    # processed and validated in slices: the recorded traces of a thorough run do not fit into memory at once
    for j0 in range(0, len(jobs), 1500):
        first = twin_slice(ctx, hist, jobs[j0:j0 + 1500], first)
    ctx.sample(first)
    # limits: successful growth to the documented limits (thorough only: a 1-column / 1-row table)
    ctx.stage("limits")
    limit_checks(ctx)
    ctx.stage("selftest")
    wbcheck.selftest(ctx)


def twin_slice(ctx, hist, jobs, first):
    from ..fixtures import pmap
    ctx.stage("twin-replay")
    res = pmap(twin_job, jobs, ctx.workers, chunksize=4)
    traces = []
    for idx, (t_rc, t_a1, t_alt) in res:
        ctx.evaluations += 3
        # twin equality: all notations must have produced the same outcomes, projections and probe results
        a = [{k: v for k, v in e.items()} for e in t_rc["ev"]]
        for t_other in (t_a1, t_alt):
            b = [{k: v for k, v in e.items()} for e in t_other["ev"]]
            if a != b:
                step = next(i for i in range(min(len(a), len(b))) if a[i] != b[i])
                ctx.fail({"engine": "twin", "clause": "a1-vs-rc", "op": a[step]["op"], "notation": str(t_other["profile"]["a1"])},
                         "history %s: row/column form and A1 form (%s) differ at event %d: %s vs %s"
                         % (json.dumps(hist[idx][0])[:300], t_other["profile"]["a1"], step + 1, json.dumps({k: v for k, v in a[step].items() if k != 'post'})[:200],
                            json.dumps({k: v for k, v in b[step].items() if k != 'post'})[:200]),
                         {"ops": hist[idx][0]})
        for t in (t_rc, t_a1, t_alt):
            if any(e["out"] != "ok" or e.get("res") in ("IndexError", [["IndexError"]]) for e in t["ev"]):
                ctx.distinct.add((idx, t["profile"]["a1"]))
            traces.append(t)
    if first is None:
        first = {"history": hist[jobs[0][0]][0], "probe_events_per_run": len(traces[0]["ev"]) - len(hist[jobs[0][0]][0])}
    ctx.stage("validate")
    wbcheck.validate(ctx, traces, nhandles=1, label="twin", batch=200)
    return first


def limit_checks(ctx):
    """Concrete boundary rows/columns beyond what the scaled model reaches: refusals at MAX and MAX+1 in both
    notations for every position-taking method; growth to MAX-1 (thorough).  Recorded as events and judged by
    Trace_Workbook with LimR/LimC set to the real limits."""
    from numbers_parser import RGB, Border, Document
    from numbers_parser.constants import MAX_COL_COUNT, MAX_ROW_COUNT
    prof = wb.Profile(random.Random(1), lim_r=MAX_ROW_COUNT, lim_c=MAX_COL_COUNT, tokens=("a", "b"))
    prof.allow_huge = True          # growth to the documented limits is what these traces are about
    prof.values.update({"a": 7.5, "b": -12})
    prof.rev = {wb.canon(v): k for k, v in prof.values.items()}
    ops = []
    # (growth to the last legal row - a table of 10^6 rows - is exercised by C01's thorough tier, which reads the file back; a trace
    # whose every event carries a 10^6-row grid is beyond what TLC validates in an hour, so the positions here are the refused ones)
    for r in (-2, -1, MAX_ROW_COUNT, MAX_ROW_COUNT + 1):
        ops.append({"op": "write", "h": 1, "s": 1, "t": 1, "r": r + 1, "c": 1, "v": "a"})
        for kind in ("style", "border"):
            ops.append({"op": "touch", "h": 1, "s": 1, "t": 1, "r": r + 1, "c": 1, "kind": kind})
    for c in (-2, -1, MAX_COL_COUNT - 1, MAX_COL_COUNT, MAX_COL_COUNT + 1):
        ops.append({"op": "write", "h": 1, "s": 1, "t": 1, "r": 1, "c": c + 1, "v": "b"})
        for kind in ("style", "border"):
            ops.append({"op": "touch", "h": 1, "s": 1, "t": 1, "r": 1, "c": c + 1, "kind": kind})
    traces = []
    for a1 in (False, True):
        prof.a1 = a1
        env = wb.Env(ctx.scratch, prof, 1, tag="lim%d" % a1)
        env.newdoc(1, 1, 1)
        for op in ops:
            # one trace per op on a fresh 1x1 document: the projection of a table grown to the limit is large
            if op["r"] > 1000 or op["c"] > 0:
                pass
        trace = {"init": env.project(), "ev": [], "profile": prof.describe()}
        big = False
        for op in ops:
            grows_rows = 1 <= op["r"] <= MAX_ROW_COUNT and op["r"] > 1000
            if grows_rows and big:
                continue
            tb = env.table(1, 1, 1)
            if op["c"] > 1 and tb.num_rows > 1000:
                # the column positions are tried on a table that is one row high: after the row positions the table may have
                # 10^6 rows (or, under a changed library, some other large number), and 1000 columns of that do not fit
                traces.append(trace)
                env = wb.Env(ctx.scratch, prof, 1, tag="lim%dc" % a1)
                env.newdoc(1, 1, 1)
                trace = {"init": env.project(), "ev": [], "profile": prof.describe()}
            out, res = env.apply(op)
            e = dict(op)
            e["out"] = out.split(":")[0] if out.startswith("Other") else out
            if isinstance(res, dict):
                e.update(res)
            if grows_rows:
                big = True
                tb = env.table(1, 1, 1)
                # sparse projection of the huge table without walking 10^6 python rows twice
                e["post"] = env.project()
            else:
                e["post"] = env.project()
            trace["ev"].append(e)
            ctx.evaluations += 1
        traces.append(trace)
    wbcheck.validate(ctx, traces, nhandles=1, limr=MAX_ROW_COUNT, limc=MAX_COL_COUNT, label="limits", batch=1)


def wbcheck_spec_dir():
    from .. import tlc
    return tlc.SPEC_DIR


def replay(ctx, data):
    print(json.dumps(data["replay"])[:2000])
    return 0

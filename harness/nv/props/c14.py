"""C14 - displayed dates and durations agree with the stored value.

spec/DateFormat.tla (calendar fields from the ordinal, the directive table, the format scanner, duration reading),
spec/Trace_DateFormat.tla (judge)."""
import json
import os
import random
import re
import warnings
from datetime import datetime, timedelta

from .. import fixtures
from ..core import Machinery

DIRECTIVES = ["a", "EEEE", "EEE", "yyyy", "yy", "y", "MMMM", "MMM", "MM", "M", "d", "dd", "DDD", "DD", "D", "HH", "H", "hh", "h", "k", "kk", "K", "KK",
              "mm", "m", "ss", "s", "W", "ww", "G", "F", "S", "SS", "SSS", "SSSS", "SSSSS"]
UNIT_NAMES = {"week": 1, "weeks": 1, "day": 2, "days": 2, "hour": 4, "hours": 4, "minute": 8, "minutes": 8, "second": 16, "seconds": 16,
              "millisecond": 32, "milliseconds": 32, "w": 1, "d": 2, "h": 4, "m": 8, "s": 16, "ms": 32}


def cps(s):
    return [ord(c) for c in s]


def date_event(fmt, dt, out, route):
    return {"kind": "date", "fmt": cps(fmt), "out": cps(out) if out is not None else [0], "y": dt.year, "mo": dt.month, "d": dt.day, "H": dt.hour, "Mi": dt.minute,
            "S": dt.second, "us": dt.microsecond, "days": dt.toordinal(), "route": route, "f": fmt, "dt": dt.isoformat()}


def dur_event(td, style, largest, smallest, auto, out):
    total_ms = (td.days * 86400 + td.seconds) * 1000 + td.microseconds // 1000
    ev = {"kind": "dur", "style": style, "largest": largest, "smallest": smallest, "auto": auto, "dur": [total_ms // 86400000, total_ms % 86400000],
          "vals": [], "units": [], "ok": True, "text": out, "td": str(td)}
    if out is None:
        ev["ok"] = False
        return ev
    if style == 0:      # compact  w:d:h:mm:ss.mmm
        parts = re.split(r"[:.]", out)
        if not all(p.isdigit() for p in parts):
            ev["ok"] = False
        else:
            ev["vals"] = [int(p) for p in parts]
    else:
        toks = re.findall(r"(\d+)\s*([a-z]+)", out)
        rest = re.sub(r"(\d+)\s*([a-z]+)", "", out).strip()
        if rest or not toks or any(u not in UNIT_NAMES for _, u in toks):
            ev["ok"] = False
        else:
            ev["vals"] = [int(n) for n, _ in toks]
            ev["units"] = [UNIT_NAMES[u] for _, u in toks]
    if any(v >= 2 ** 31 for v in ev["vals"]):
        ev["ok"] = False
    return ev


def public_job(job):
    """dates through the public route: write, set_cell_formatting('datetime'), save, reopen, formatted_value;
    durations through injected duration formats"""
    (idx, dates, durs, scratch) = job
    warnings.simplefilter("ignore")
    from numbers_parser import Document
    from numbers_parser.constants import FormatType
    from numbers_parser.generated import TSKArchives_pb2 as TSK
    nrows = max(1, len(dates), len(durs))
    doc = Document(num_rows=nrows, num_cols=2, num_header_rows=0, num_header_cols=0)
    tables = [doc.sheets[0].tables[0]]
    if idx % 2:
        # several tables in one document (one added to the sheet, one on an added sheet): their formats are independent
        tables.append(doc.sheets[0].add_table("Second", num_rows=nrows, num_cols=2, num_header_rows=0, num_header_cols=0))
        doc.add_sheet("Other", "Third", nrows, 2)
        tables.append(doc.sheets[1].tables[0])
    model = doc._model
    ok_dates = []
    for i, (fmt, dt, custom) in enumerate(dates):
        tb = tables[i % len(tables)]
        tb.write(i, 0, dt)
        if i % 7 == 3:
            # the cell had another format before and its display was read once: what counts is the format it has now
            try:
                tb.set_cell_formatting(i, 0, "datetime", date_time_format="yyyy-MM-dd")
                _ = tb.cell(i, 0).formatted_value
            except Exception:  # noqa: BLE001
                pass
        try:
            if custom:
                cf = doc.add_custom_format(name="cf %d %d" % (idx, i), type="datetime", format=fmt)
                tb.set_cell_formatting(i, 0, "custom", format=cf)
            else:
                tb.set_cell_formatting(i, 0, "datetime", date_time_format=fmt)
            ok_dates.append((i, fmt, dt, custom))
        except Exception as e:  # noqa: BLE001
            ok_dates.append((i, fmt, dt, "REFUSED:%s" % type(e).__name__))
    for i, (td, style, largest, smallest, auto) in enumerate(durs):
        tb = tables[i % len(tables)]
        tb.write(i, 1, td)
        fa = TSK.FormatStructArchive(format_type=FormatType.DURATION, duration_style=style, duration_unit_largest=largest, duration_unit_smallest=smallest,
                                     use_automatic_duration_units=auto)
        tb.rows()[i][1]._duration_format_id = model._table_formats.lookup_key(tb._table_id, fa)
    path = os.path.join(scratch, "c14-%d-%d.numbers" % (os.getpid(), idx))
    events = []
    try:
        doc.save(path)
        d2 = Document(path)
        rt = [d2.sheets[0].tables[0]] + ([d2.sheets[0].tables[1], d2.sheets[1].tables[0]] if len(tables) == 3 else [])
        for (i, fmt, dt, custom) in ok_dates:
            t2 = rt[i % len(rt)]
            if isinstance(custom, str):
                continue
            try:
                out = t2.cell(i, 0).formatted_value
                dt = t2.cell(i, 0).value        # the cell's date-time as stored (sub-second digits of far years do not survive a double)
            except Exception as e:  # noqa: BLE001
                out = None
            events.append(date_event(fmt, dt, out, "custom" if custom else "public"))
        for i, (td, style, largest, smallest, auto) in enumerate(durs):
            t2 = rt[i % len(rt)]
            try:
                out = t2.cell(i, 1).formatted_value
            except Exception as e:  # noqa: BLE001
                out = None
            events.append(dur_event(td, style, largest, smallest, auto, out))
        # the loaded document goes on being used: a custom format created NOW (after displays were read) and applied to a cell that
        # came from the file must be displayed like any other - at once, and after another save
        later = [(i, fmt, dt) for (i, fmt, dt, custom) in ok_dates if not isinstance(custom, str)][: 12]
        for n, (i, fmt, dt) in enumerate(later):
            t2 = rt[i % len(rt)]
            try:
                cf = d2.add_custom_format(name="later %d %d" % (idx, n), type="datetime", format=fmt)
                t2.set_cell_formatting(i, 0, "custom", format=cf)
            except Exception:  # noqa: BLE001
                continue
            try:
                out = t2.cell(i, 0).formatted_value
                dt2 = t2.cell(i, 0).value
            except Exception:  # noqa: BLE001
                out, dt2 = None, dt
            events.append(date_event(fmt, dt2, out, "custom-later"))
    finally:
        if os.path.exists(path):
            os.remove(path)
    return events


def judge(ctx, events, count=True):
    B = 20000
    for b0 in range(0, len(events), B):
        part = events[b0:b0 + B]
        path = os.path.join(ctx.scratch, "df-%d.ndjson" % b0)
        with open(path, "w") as fh:
            for e in part:
                fh.write(json.dumps({k: v for k, v in e.items() if k not in ("route", "f", "dt", "text", "td")}) + "\n")
        res = ctx.tlc("Trace_DateFormat", "Trace_DateFormat.cfg", what="Trace_DateFormat[%d]" % b0, env={"TRACE_FILE": path}, timeout=3000, count=count)
        os.remove(path)
        seen = {int(m.group(1)): m.group(2) for m in re.finditer(r'^"V (\d+) ([\w.\-]+)"$', res.out, re.M)}
        if len(seen) != len(part):
            raise Machinery("Trace_DateFormat: %d verdicts for %d events\n%s" % (len(seen), len(part), res.out[-1500:]))
        if count:
            ctx.traces += len(part)
        for tid, v in seen.items():
            if v != "ok":
                e = part[tid - 1]
                if e["kind"] == "date":
                    fields = re.findall(r"[A-Za-z]+", re.sub(r"'[^']*'", "", e["f"]))
                    ctx.fail({"engine": "trace", "clause": v, "directive": fields[0] if len(fields) == 1 else "composition", "route": e["route"]},
                             "format %r of %s displays %r" % (e["f"], e["dt"], "".join(chr(c) for c in e["out"])), {"fmt": e["f"], "dt": e["dt"]})
                else:
                    ctx.fail({"engine": "trace", "clause": v, "style": e["style"], "auto": e["auto"], "largest": e["largest"], "smallest": e["smallest"]},
                             "duration %s (style %d, units %d..%d, auto %s) displays %r" % (e["td"], e["style"], e["largest"], e["smallest"], e["auto"], e["text"]),
                             {"td": e["td"], "style": e["style"], "largest": e["largest"], "smallest": e["smallest"], "auto": e["auto"]})


def run(ctx):
    warnings.simplefilter("ignore")
    from numbers_parser.cell import _decode_date_format
    q = ctx.quick
    ctx.rule = ("date cases: every documented directive on every value of the field it depends on (24 hours, 60 minutes, 60 seconds, every day of a leap and a "
                "non-leap year, 12 months, 7 weekdays, sub-second digits, sampled years) through _decode_date_format and through the public formatting route "
                "with save/reopen, plus random compositions with literals and quoted text; duration cases: values at and around every unit multiple x all "
                "largest/smallest unit pairs x three styles x automatic units; distinct_nontrivial = distinct (format, value) / (duration, units, style) cases")
    ctx.assumptions = ["month and weekday names are the C-locale English names", "where the documentation contradicts itself (y, ww, yyyy below 1000) both readings are accepted",
                       "formats use documented directives only, as maximal runs of letters"]
    ctx.stage("model-check")
    mc = "CONSTANTS Bug = \"%s\"\nSPECIFICATION Spec\nINVARIANT ShapeOK\nINVARIANT ScanOK\nCHECK_DEADLOCK FALSE\n"
    ctx.tlc("DateFormat", mc % "none", what="MC_DateFormat[36 directives x calendar of cases]", timeout=3000)
    ctx.tlc("DateFormat", mc % "K24Replace", what="Bug_K24Replace", expect_violation="ShapeOK", count=False)
    ctx.tlc("DateFormat", mc % "NoQuoteUnescape", what="Bug_NoQuoteUnescape", expect_violation="ScanOK", count=False)
    ctx.stage("dates")
    rng = random.Random(ctx.seed + 14)
    values = []
    for h in range(24):
        values.append(datetime(2021, 3, 14, h, 15, 9, 265358))
    for m in range(60):
        values.append(datetime(2022, 11, 5, 10, m, m, m * 16661))
    for y in (2023, 2024):
        d = datetime(y, 1, 1, 20, 0, 0)
        while d.year == y:
            values.append(d.replace(hour=(d.timetuple().tm_yday * 7) % 24))
            d += timedelta(days=1)
    for y in (1, 99, 100, 999, 1000, 1900, 2000, 2001, 9999):
        values.append(datetime(y, 12, 31, 0, 0, 0))
        values.append(datetime(y, 1, 1, 12, 30, 45, 999999))
    # the library's date epoch and its neighbours: the stored number is 0 there (a date like any other), and small around it
    zero_dates = [datetime(2001, 1, 1, 0, 0, 0), datetime(2001, 1, 1, 0, 0, 1), datetime(2000, 12, 31, 23, 59, 59), datetime(2001, 1, 1, 0, 0, 0, 1000)]
    values += zero_dates
    events = []
    for dt in values:
        for f in DIRECTIVES:
            try:
                out = _decode_date_format(f, dt)
            except Exception as e:  # noqa: BLE001
                out = None
            events.append(date_event(f, dt, out, "direct"))
    # compositions with literals and quoted text
    lits = [" ", ":", "/", "-", ", ", ".", " 'at' ", "'T'", " 'o''clock' ", "''", " (", ") ", "'day' "]
    comps = []
    for _ in range(400 if q else 6000):
        n = rng.randint(2, 5)
        fmt = ""
        for i in range(n):
            fmt += rng.choice(DIRECTIVES)
            if i < n - 1:
                fmt += rng.choice(lits)
        dt = rng.choice(values)
        comps.append((fmt, dt))
        try:
            out = _decode_date_format(fmt, dt)
        except Exception:  # noqa: BLE001
            out = None
        events.append(date_event(fmt, dt, out, "direct"))
    # the public route (set_cell_formatting / custom format, save, reopen)
    pub = []
    for f in DIRECTIVES:
        for dt in rng.sample(values, 6 if q else 40):
            pub.append((f, dt, False))
    for fmt, dt in comps[: (150 if q else 2000)]:
        pub.append((fmt, dt, "'" in fmt))
    for f in rng.sample(DIRECTIVES, 8 if q else len(DIRECTIVES)):
        for dt in zero_dates:
            pub.append((f, dt, False))
    ctx.stage("durations")
    durs = []
    unit_ms = {1: 604800000, 2: 86400000, 4: 3600000, 8: 60000, 16: 1000, 32: 1}
    base = [0, 1, 999, 1000, 1001, 59999, 60000, 60001, 3599999, 3600000, 3600001, 86399999, 86400000, 86400001, 604799999, 604800000, 604800001,
            90061001, 694861001, 10 * 365 * 86400000 - 1, 1234567890]
    base += [rng.randrange(0, 10 * 365 * 86400000) for _ in range(20 if q else 400)]
    pairs = [(l, s) for l in (1, 2, 4, 8, 16, 32) for s in (1, 2, 4, 8, 16, 32) if l <= s]
    for ms in base:
        td = timedelta(milliseconds=ms)
        for style in (0, 1, 2):
            for (l, s) in (pairs if not q else rng.sample(pairs, 6)):
                if l == 32 and ms >= 2 ** 31 or (l == 16 and ms // 1000 >= 2 ** 31):
                    continue
                durs.append((td, style, l, s, False))
            durs.append((td, style, 1, 32, True))
    per = 400
    jobs = []
    k = 0
    for i in range(0, max(len(pub), len(durs)), per):
        jobs.append((k, pub[i:i + per], durs[i:i + per], ctx.scratch))
        k += 1
    res = fixtures.pmap(public_job, jobs, ctx.workers)
    for lst in res:
        events += lst
    ctx.evaluations += len(events)
    for e in events:
        ctx.distinct.add((e.get("f"), e.get("dt")) if e["kind"] == "date" else (e["td"], e["style"], e["largest"], e["smallest"], e["auto"]))
    ctx.sample({"format": events[0]["f"], "value": events[0]["dt"], "displayed": "".join(chr(c) for c in events[0]["out"])})
    d0 = next(e for e in events if e["kind"] == "dur")
    ctx.sample({"duration": d0["td"], "style": d0["style"], "units": [d0["largest"], d0["smallest"]], "displayed": d0["text"]})
    ctx.extra["cases"] = {"date_direct": sum(1 for e in events if e.get("route") == "direct"), "date_public": sum(1 for e in events if e.get("route") in ("public", "custom")),
                          "durations": sum(1 for e in events if e["kind"] == "dur")}
    ctx.stage("judge")
    judge(ctx, events)
    ctx.stage("selftest")
    import copy
    g = next(e for e in events if e["kind"] == "date" and e["f"] == "HH")
    b1 = copy.deepcopy(g)
    b1["out"] = cps("24")
    b2 = copy.deepcopy(d0)
    b2["vals"] = [v + 1 for v in b2["vals"]] or [1]
    saved = ctx.failures
    ctx.failures = []
    judge(ctx, [b1, b2], count=False)
    got = sorted(f[0]["clause"].split(".")[0] for f in ctx.failures)
    ctx.failures = saved
    if got != ["date", "dur"]:
        raise Machinery("binding self-test: corrupted events judged %s" % got)
    ctx.extra["binding_selftest"] = "a wrong hour text and a wrong duration reading are both rejected"


def replay(ctx, data):
    print(json.dumps(data["replay"])[:2000])
    return 0

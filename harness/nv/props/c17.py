"""C17 - damaged or foreign files fail only with the library's own error types.

spec/Loader.tla (load pipeline with fault injection), spec/Trace_Loader.tla (judge), spec/IWAFrame.tla (member framing)."""
import glob
import json
import os
import random
import re
import shutil
import warnings

from .. import faults, fixtures, gendocs, tlaval
from ..core import Machinery


def ld_cfg(mode="repaired", emit=False):
    return ("CONSTANTS Members = {1, 2, 3}\nMode = \"%s\"\nSPECIFICATION Spec\nINVARIANT Total\n%sCHECK_DEADLOCK FALSE\n" % (mode, "INVARIANT EmitCase\n" if emit else ""))


def classify(fn):
    from numbers_parser.exceptions import FileError, FileFormatError, UnsupportedError
    try:
        fn()
        return "Document", ""
    except FileError:
        return "FileError", ""
    except FileFormatError:
        return "FileFormatError", ""
    except UnsupportedError:
        return "UnsupportedError", ""
    except Exception as e:  # noqa: BLE001
        import traceback
        tb = traceback.extract_tb(e.__traceback__)
        lib = [f for f in tb if "numbers_parser" in f.filename]
        where = "%s:%d %s" % (os.path.basename(lib[-1].filename), lib[-1].lineno, lib[-1].name) if lib else "?"
        return "Other:" + type(e).__name__, where


def attempt(path):
    """-> (loading class, where, document class)"""
    warnings.simplefilter("ignore")
    from pathlib import Path
    from numbers_parser import Document
    from numbers_parser.containers import ObjectStore
    loading, where = classify(lambda: ObjectStore(Path(path)))
    after, _ = classify(lambda: Document(path))
    return loading, where, after


def case_job(job):
    (idx, src, fset, predicted, seed, scratch, nested) = job
    rng = random.Random(seed)
    base = os.path.join(scratch, "ld-%d-%d" % (os.getpid(), idx))
    ev = {"src": os.path.basename(src), "faults": fset, "predicted": predicted, "nested": nested}
    try:
        if fset and fset[0]["kind"] in ("rnd-truncate", "rnd-flip"):
            path, desc = faults.random_damage(src, rng, base, "truncate" if fset[0]["kind"] == "rnd-truncate" else "flip")
            ev["desc"] = desc
        else:
            path, _ = faults.materialise(src, fset, rng, base, nested=nested)
    except Exception as e:  # noqa: BLE001
        ev["machinery"] = "%s:%s" % (type(e).__name__, str(e)[:100])
        return ev
    ev["loading"], ev["where"], ev["after"] = attempt(path)
    for f in glob.glob(base + "*"):
        if os.path.isdir(f):
            shutil.rmtree(f, ignore_errors=True)
        else:
            os.remove(f)
    return ev


def judge(ctx, events, count=True):
    B = 20000
    for b0 in range(0, len(events), B):
        part = events[b0:b0 + B]
        path = os.path.join(ctx.scratch, "ld-%d.ndjson" % b0)
        with open(path, "w") as fh:
            for e in part:
                fh.write(json.dumps({"loading": e["loading"].split(":")[0] if e["loading"].startswith("Other") else e["loading"], "predicted": e["predicted"]}) + "\n")
        res = ctx.tlc("Trace_Loader", "Trace_Loader.cfg", what="Trace_Loader[%d]" % b0, env={"TRACE_FILE": path}, timeout=1800, count=count)
        os.remove(path)
        seen = {int(m.group(1)): (m.group(2), m.group(3)) for m in re.finditer(r'^"V (\d+) ([\w-]+) ([\w-]+)"$', res.out, re.M)}
        if len(seen) != len(part):
            raise Machinery("Trace_Loader: %d verdicts for %d events\n%s" % (len(seen), len(part), res.out[-1500:]))
        if count:
            ctx.traces += len(part)
        for tid, (a, b) in seen.items():
            e = part[tid - 1]
            kinds = "+".join(sorted(f["kind"] for f in e["faults"]))
            if a != "ok":
                ctx.fail({"engine": "trace", "clause": "escaped", "exc": e["loading"].split(":")[-1], "where": e["where"].split(" ")[-1], "fault": kinds},
                         "%s with faults %s%s: %s escaped from %s" % (e["src"], json.dumps(e["faults"]), " " + json.dumps(e.get("desc")) if e.get("desc") else "",
                                                                      e["loading"], e["where"]), {"src": e["src"], "faults": e["faults"], "nested": e["nested"]})
            elif b != "ok":
                ctx.drifted("%s faults %s: loader gives %s, the pipeline model predicts %s" % (e["src"], kinds, e["loading"], e["predicted"]))


def run(ctx):
    q = ctx.quick
    ctx.rule = ("a case is (document, fault set): every single fault and pair of faults of Loader.tla (container faults, 14 member faults at the first, "
                "middle and last archive member) materialised on real documents, plus truncation at random lengths and 1-4 random bit flips stratified "
                "by zip region; distinct_nontrivial = distinct (document, fault set / damage) cases")
    ctx.assumptions = ["'loading the container' is ObjectStore(path): unzip, un-frame, decode archives, initialise the store; exceptions raised later while "
                       "interpreting a document whose objects are missing are outside C17 and only noted",
                       "which of the three library error types is raised is Level B (DRIFT), not part of the property"]
    ctx.stage("model-check")
    cases = []

    def handle(line):
        m = re.match(r'^"F (.*) -> (\w+)"$', line)
        if m:
            fs = re.findall(r'\[kind \|-> \\?"([\w-]+)\\?", at \|-> (\d+)\]', m.group(1))
            cases.append(([{"kind": k, "at": int(a)} for k, a in fs], m.group(2)))
            return True
        return False
    ctx.tlc("Loader", ld_cfg(emit=True), what="MC_Loader[all single faults and pairs]", stream_to=handle, timeout=600)
    ctx.tlc("Loader", ld_cfg("pinned"), what="Bug_pinned (untranslated paths)", expect_violation="Total", count=False, timeout=600)
    cases.sort(key=lambda c: json.dumps(c[0], sort_keys=True))
    ctx.extra["fault_sets_from_tlc"] = len(cases)
    if len(cases) < 1000:
        raise Machinery("only %d fault sets parsed from TLC's output" % len(cases))
    ctx.stage("inject")
    rng = random.Random(ctx.seed + 17)
    docs = [os.path.join(os.path.dirname(fixtures.TEMPLATE), "empty.numbers")]
    fx = fixtures.readable_fixtures(ctx.workers)
    pick = [p for p in fx if os.path.basename(p) in ("test-1.numbers", "issue-32.numbers", "test-7.numbers", "test-formats.numbers", "issue-14.numbers")]
    docs += pick if q else fx
    big = [p for p in fx if os.path.isfile(p) and os.path.getsize(p) > 300000][:1]
    docs += [b for b in big if b not in docs]
    singles = [c for c in cases if len(c[0]) <= 1]
    pairs = [c for c in cases if len(c[0]) == 2]
    jobs = []
    k = 0
    for d in docs:
        use = singles + rng.sample(pairs, 40 if q else 600)
        for (fs, pred) in use:
            nested = (k % 7 == 0) and not any(f["kind"].startswith("trunc") for f in fs)
            if any(f["kind"] == "nested-index-damaged" for f in fs):
                if any(f["kind"].startswith("trunc") or f["kind"] in ("missing", "wrong-suffix") for f in fs):
                    continue          # the inner zip only exists in the nested form; outer truncations are separate cases
                nested = True
            # the folder form of a document (a package: Index.zip plus loose members), for the faults that do not live in the outer zip
            zip_only = ("crc", "zip-feature", "nested-index-damaged")
            if k % 7 == 3 and not nested and not any(f["kind"].startswith("trunc") or f["kind"] in zip_only for f in fs):
                nested = "package"
            jobs.append((k, d, fs, pred, ctx.seed * 5 + k, ctx.scratch, nested))
            k += 1
        # every metadata fault once more in the folder form
        for (fs, pred) in singles:
            if len(fs) == 1 and fs[0]["kind"] in ("missing-plist", "missing-build-history", "bad-plist", "plist-xml-garbage", "plist-no-version", "plist-version-type", "no-objects"):
                jobs.append((k, d, fs, pred, ctx.seed * 5 + k, ctx.scratch, "package"))
                k += 1
        # the zip-feature fault has several variants (version needed, method, encrypted member, patched data) at any directory record
        zf_case = next(((fs, pred) for fs, pred in singles if len(fs) == 1 and fs[0]["kind"] == "zip-feature"), None)
        for j in range(10 if q else 60):
            if zf_case is not None:
                jobs.append((k, d, zf_case[0], zf_case[1], ctx.seed * 5 + k, ctx.scratch, j % 5 == 4))
                k += 1
        for _ in range(40 if q else 300):
            jobs.append((k, d, [{"kind": "rnd-truncate", "at": 0}], "", ctx.seed * 5 + k, ctx.scratch, False))
            k += 1
        for _ in range(80 if q else 500):
            jobs.append((k, d, [{"kind": "rnd-flip", "at": 0}], "", ctx.seed * 5 + k, ctx.scratch, False))
            k += 1
    events = fixtures.pmap(case_job, jobs, ctx.workers, chunksize=8)
    bad = [e for e in events if "machinery" in e]
    if bad:
        raise Machinery("fault injector failed: %s on %s %s" % (bad[0]["machinery"], bad[0]["src"], bad[0]["faults"]))
    ctx.evaluations += len(events)
    for e in events:
        ctx.distinct.add((e["src"], json.dumps(e["faults"]), json.dumps(e.get("desc"))))
    later = sum(1 for e in events if e["loading"] == "Document" and e["after"].startswith("Other"))
    ctx.extra["cases"] = {"documents": len(docs), "cases": len(events), "loaded_but_interpretation_failed_later": later}
    if later:
        ex = next(e for e in events if e["loading"] == "Document" and e["after"].startswith("Other"))
        ctx.note("NOTE: %d damaged files load as containers but Document() fails later while interpreting them (outside C17), e.g. %s %s -> %s"
                 % (later, ex["src"], json.dumps(ex["faults"]), ex["after"]))
    ctx.sample({"document": events[0]["src"], "faults": events[0]["faults"], "loading": events[0]["loading"], "model": events[0]["predicted"]})
    ctx.sample({"document": events[-1]["src"], "damage": events[-1].get("desc"), "loading": events[-1]["loading"]})
    ctx.stage("judge")
    judge(ctx, events)
    ctx.stage("selftest")
    saved = ctx.failures
    ctx.failures = []
    judge(ctx, [{"src": "x", "faults": [], "predicted": "", "loading": "Other:IndexError", "where": "iwork.py:1 f", "nested": False}], count=False)
    n = len(ctx.failures)
    ctx.failures = saved
    if n != 1:
        raise Machinery("binding self-test: an escaping exception was accepted")
    ctx.extra["binding_selftest"] = "an event whose loading outcome is a foreign exception class is rejected"


def replay(ctx, data):
    from ..core import DATA
    r = data["replay"]
    src = os.path.join(DATA, r["src"]) if os.path.exists(os.path.join(DATA, r["src"])) else fixtures.TEMPLATE
    ev = case_job((0, src, r["faults"], "", 0, ctx.scratch, r.get("nested", False)))
    print(json.dumps(ev)[:1000])
    return 0

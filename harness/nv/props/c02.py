"""C02 - re-saving an unmodified document preserves everything the library reads.

spec/Lifecycle.tla (open/access/save cycles over opaque observations), spec/Trace_Lifecycle.tla (judge)."""
import glob
import json
import os
import random
import re
import shutil
import warnings

from .. import fixtures, gendocs, observe, tlaval, tracecheck
from ..core import Machinery

KINDS = ["formula", "formatted", "style", "border", "rowheight", "colwidth", "bullets"]


def lc_cfg(depth, bug="none", view=True, kinds=KINDS, rewrites=(), forms=("zip", "package")):
    return ("CONSTANTS Files = {\"src\", \"a\", \"b\"}\nKinds = {%s}\nRewrites = {%s}\nForms = {%s}\nD = %d\nBug = \"%s\"\nSPECIFICATION Spec\n%sCONSTRAINT Depth\n"
            "INVARIANT Idempotent\nINVARIANT AccessIsReadOnly\nINVARIANT FormBlind\nPROPERTY SaveIsIdentity\nPROPERTY LayoutBlind\nPROPERTY RefusalKeeps\n"
            "CHECK_DEADLOCK FALSE\n"
            % (", ".join('"%s"' % k for k in kinds), ", ".join('"%s"' % k for k in rewrites), ", ".join('"%s"' % k for k in forms), depth, bug,
               "VIEW NoHist\n" if view else ""))


def schedules(ctx, depth, kinds):
    dump = os.path.join(ctx.scratch, "lcdump")
    ctx.tlc("Lifecycle", lc_cfg(depth, view=False, kinds=kinds), what="Gen_Lifecycle", dump=dump, timeout=1800)
    fn = dump + ".dump" if os.path.exists(dump + ".dump") else dump
    states = list(tlaval.parse_dump(open(fn).read()))
    for f in glob.glob(dump + "*"):
        os.remove(f)
    prefixes = {json.dumps(st["hist"][:-1], sort_keys=True) for st in states if st["hist"]}
    hs = [st["hist"] for st in states if st["hist"] and json.dumps(st["hist"], sort_keys=True) not in prefixes
          and st["hist"][0]["op"] == "open" and st["hist"][0]["f"] == "src" and any(o["op"] == "save" for o in st["hist"])
          and st["hist"][-1]["op"] in ("save", "refused")]
    hs.sort(key=lambda h: json.dumps(h, sort_keys=True))
    return hs, len(states)


def do_access(doc, k):
    for sh in doc.sheets:
        for tb in sh.tables:
            if k == "rowheight":
                for r in range(tb.num_rows):
                    tb.row_height(r)
                _ = tb.height
            elif k == "colwidth":
                for c in range(tb.num_cols):
                    tb.col_width(c)
                _ = tb.width
            else:
                for row in tb.rows():
                    for c in row:
                        if k == "formula":
                            try:
                                _ = c.formula
                            except Exception:  # noqa: BLE001
                                pass
                        elif k == "formatted":
                            try:
                                _ = c.formatted_value
                            except Exception:  # noqa: BLE001
                                pass
                        elif k == "style":
                            _ = c.style
                        elif k == "border":
                            _ = c.border
                        elif k == "bullets":
                            _ = getattr(c, "bullets", None)
                            _ = c.is_bulleted


def run_schedule(job):
    (idx, source, sched, scratch) = job
    warnings.simplefilter("ignore")
    from numbers_parser import Document
    from numbers_parser.exceptions import UnsupportedWarning
    base = os.path.join(scratch, "lc-%d-%d" % (os.getpid(), idx))
    files = {"src": source}
    obs0 = observe.observe_doc(Document(source))
    trace = {"meta": {"source": os.path.basename(source), "idx": idx, "sched": sched}, "ev": []}
    exempt_cells, exempt_tables = set(), set()
    raw = []
    doc = None
    for op in sched:
        e = {"op": op["op"], "exc": ""}
        try:
            if op["op"] == "open":
                doc = Document(files[op["f"]])
            elif op["op"] == "access":
                e["k"] = op["k"]
                try:
                    do_access(doc, op["k"])
                except Exception as ax:  # noqa: BLE001
                    # an accessor that raises (e.g. Cell.style on a font the library does not know) is a limitation of that
                    # accessor, not a statement of C02; it is recorded and the schedule goes on with the object in that state
                    e["note"] = "%s:%s" % (type(ax).__name__, str(ax)[:60])
            elif op["op"] == "refused":
                # writing one form over the other: iwork.py refuses; whatever happens, the existing file must still show the document
                path = files[op["f"]]
                e["fm"] = op["fm"]
                try:
                    doc.save(path, package=(op["fm"] == "package"))
                    e["op"] = "save"        # not refused by this tree: then it is an ordinary save
                except Exception as rx:  # noqa: BLE001
                    e["refusal"] = type(rx).__name__
                raw.append((len(trace["ev"]), observe.observe_doc(Document(path))))
            elif op["op"] == "save":
                path = base + "-" + op["f"] + ".numbers"
                e["fm"] = op.get("fm", "zip")
                with warnings.catch_warnings(record=True) as w:
                    warnings.simplefilter("always")
                    if e["fm"] == "package":
                        doc.save(path, package=True)
                    else:
                        doc.save(path)
                for x in w:
                    msg = str(x.message)
                    m = re.match(r"@(.*):\[(\d+),(\d+)\]: unsupported data type (\w+) for save", msg)
                    if m and issubclass(x.category, UnsupportedWarning):
                        for sh in doc.sheets:
                            for tb in sh.tables:
                                if tb.name == m.group(1):
                                    exempt_cells.add((sh.name, tb.name, int(m.group(2)), int(m.group(3))))
                    m = re.match(r"Not modifying pivot table '(.*)'", msg)
                    if m:
                        exempt_tables.add(m.group(1))
                files[op["f"]] = path
                raw.append((len(trace["ev"]), observe.observe_doc(Document(path))))
        except Exception as ex:  # noqa: BLE001
            e["exc"] = "%s:%s" % (type(ex).__name__, str(ex)[:100])
            trace["ev"].append(e)
            break
        trace["ev"].append(e)
    trace["init"] = observe.summarize(obs0, exempt_cells, exempt_tables)
    for i, o in raw:
        trace["ev"][i]["obs"] = observe.summarize(o, exempt_cells, exempt_tables)
        d = observe.diff(obs0, o, exempt_cells)
        if d:
            trace["ev"][i]["diff"] = d
    for e in trace["ev"]:
        if e["op"] in ("save", "refused") and "obs" not in e:
            e["obs"] = []
    trace["meta"]["exempt"] = [len(exempt_cells), sorted(exempt_tables)]
    for f in glob.glob(base + "-*"):
        if os.path.isdir(f):
            shutil.rmtree(f)
        else:
            os.remove(f)
    return trace


def run(ctx):
    q = ctx.quick
    ctx.rule = ("a case is (document, schedule): documents = every fixture that opens without a warning, the bundled template and API-built "
                "documents; schedules = behaviours of Lifecycle.tla (open, any subset/order of read-only accessors, save, reopen from the saved "
                "copy, up to 3 saves); distinct_nontrivial = distinct (document, schedule) pairs")
    ctx.assumptions = ["exemptions are computed only from the library's own save-time warnings (ErrorCell cells, pivot tables)",
                       "observations are taken from separate, fresh instances so that observing never disturbs the document under test"]
    ctx.stage("model-check")
    ctx.tlc("Lifecycle", lc_cfg(7 if q else 9), what="MC_Lifecycle", timeout=3000)
    ctx.tlc("Lifecycle", lc_cfg(7, bug="AccessMutates"), what="Bug_AccessMutates", expect_violation="AccessIsReadOnly", count=False)
    ctx.tlc("Lifecycle", lc_cfg(7, bug="DirtySave"), what="Bug_DirtySave", expect_violation="Idempotent", count=False)
    ctx.tlc("Lifecycle", lc_cfg(7, bug="PackageDropsLooseFiles"), what="Bug_PackageDropsLooseFiles", expect_violation=True, count=False)
    ctx.stage("schedules")
    hs, nst = schedules(ctx, 5 if q else 7, ["formatted", "style", "rowheight"] if q else ["formula", "formatted", "style", "border", "rowheight"])
    rng = random.Random(ctx.seed + 2)
    # the plain cycle first; then schedules with accessors; extra accessor kinds are substituted so that all seven occur
    plain = [{"op": "open", "f": "src"}, {"op": "save", "f": "a", "fm": "zip"}, {"op": "open", "f": "a"}, {"op": "save", "f": "b", "fm": "zip"}]
    # the package form: written, read back, written over itself, crossed with the zip form in both directions
    plain_pkg = [{"op": "open", "f": "src"}, {"op": "save", "f": "a", "fm": "package"}, {"op": "open", "f": "a"}, {"op": "save", "f": "b", "fm": "zip"},
                 {"op": "save", "f": "a", "fm": "package"}, {"op": "refused", "f": "b", "fm": "package"}, {"op": "refused", "f": "a", "fm": "zip"},
                 {"op": "open", "f": "a"}, {"op": "save", "f": "b", "fm": "zip"}]
    allacc = [{"op": "open", "f": "src"}] + [{"op": "access", "k": k} for k in KINDS] + [{"op": "save", "f": "a", "fm": "zip"}]
    pool = [h for h in hs if any(o["op"] == "access" for o in h)]
    ctx.extra["schedules"] = {"states_with_hist": nst, "maximal": len(hs), "with_access": len(pool)}
    ctx.stage("documents")
    docs = fixtures.readable_fixtures(ctx.workers) + [fixtures.TEMPLATE]
    gen = gendocs.save_generated(ctx.scratch, 8 if q else 27, ctx.seed, kinds=[k for k in gendocs.KINDS if k != "large"] if q else None)
    docs += gen
    jobs = []
    k = 0
    for p in docs:
        chosen = [plain, plain_pkg, allacc] + rng.sample(pool, min(len(pool), 1 if q else 6))
        for s in chosen:
            s2 = []
            for o in s:
                o = dict(o)
                if o["op"] == "access" and rng.random() < 0.3:
                    o["k"] = rng.choice(KINDS)
                s2.append(o)
            jobs.append((k, p, s2, ctx.scratch))
            k += 1
    ctx.extra["documents"] = {"fixtures_and_template": len(docs) - len(gen), "api_built": len(gen), "cases": len(jobs)}
    ctx.stage("record")
    traces = fixtures.pmap(run_schedule, jobs, ctx.workers, chunksize=2)
    ctx.evaluations += len(traces)
    for t in traces:
        ctx.distinct.add((t["meta"]["source"], json.dumps(t["meta"]["sched"], sort_keys=True)))
    notes = sorted({"%s: %s accessor raised %s" % (t["meta"]["source"], e.get("k"), e["note"]) for t in traces for e in t["ev"] if e.get("note")})
    for n in notes[:30]:
        ctx.note(n)
    ctx.extra["accessor_exceptions"] = len(notes)
    ctx.sample({"document": traces[0]["meta"]["source"], "schedule": traces[0]["meta"]["sched"]})
    ctx.sample({"document": traces[-1]["meta"]["source"], "schedule": traces[-1]["meta"]["sched"]})
    ctx.stage("validate")

    def on_reject(t, line, op, clause):
        ev = t["ev"][line - 1]
        acc = sorted({e.get("k") for e in t["ev"][:line] if e["op"] == "access"})
        nsave = sum(1 for e in t["ev"][:line] if e["op"] == "save")
        if op == "refused":
            # Level B: what a refused save leaves behind is the mechanism's business (Lifecycle!RefusalKeeps), not C02's statement
            ctx.drifted("%s: a refused save (%s over the other form) left the target changed: %s %s" % (t["meta"]["source"], ev.get("fm"), clause, ev["exc"]))
            return
        ctx.fail({"engine": "trace", "clause": clause.split(".")[1] if "." in clause else clause, "component": clause.split(".")[-1], "op": op,
                  "fixture": t["meta"]["source"], "exc": ev["exc"].split(":")[0], "accessed": ",".join(acc), "save_no": nsave},
                 "%s: schedule %s rejected at event %d (%s): %s %s %s" % (t["meta"]["source"], "/".join(e["op"] + (":" + e["k"] if "k" in e else "") for e in t["ev"][:line]),
                                                                          line, op, clause, ev["exc"], "; ".join(ev.get("diff", [])[:3])[:600]),
                 {"source": t["meta"]["source"], "sched": t["meta"]["sched"]})
    tracecheck.validate(ctx, "Trace_Lifecycle", "Trace_Lifecycle.cfg", traces, "lifecycle", on_reject, batch=100,
                        payload=lambda t: {"init": t["init"], "ev": [{k: v for k, v in e.items() if k not in ("diff", "note")} for e in t["ev"]]})
    ctx.stage("selftest")
    import copy
    good = next((t for t in traces if t["ev"] and t["ev"][-1]["op"] == "save" and t["ev"][-1]["exc"] == "" and t["init"] and t["init"][0]["tables"]), None)
    if good is None:
        raise Machinery("no accepted trace to corrupt")
    b1 = copy.deepcopy(good)
    b1["ev"][-1]["obs"][0]["tables"][0]["formulas"] = "corrupt"
    b2 = copy.deepcopy(good)
    b2["ev"][-1]["obs"][0]["tables"][0]["nr"] += 1
    rej = []
    tracecheck.validate(ctx, "Trace_Lifecycle", "Trace_Lifecycle.cfg", [b1, b2], "selftest", lambda t, l, o, c: rej.append(c), count=False,
                        payload=lambda t: {"init": t["init"], "ev": [{k: v for k, v in e.items() if k != "diff"} for e in t["ev"]]})
    if sorted(rej) != ["save.differs.dimensions", "save.differs.formulas"]:
        raise Machinery("binding self-test: corrupted traces judged %s" % rej)
    ctx.extra["binding_selftest"] = "altered formulas digest and altered row count of the reopened copy both rejected"


def replay(ctx, data):
    from ..core import DATA
    r = data["replay"]
    src = os.path.join(DATA, r["source"]) if os.path.exists(os.path.join(DATA, r["source"])) else fixtures.TEMPLATE
    t = run_schedule((0, src, r["sched"], ctx.scratch))
    for e in t["ev"]:
        print({k: v for k, v in e.items() if k not in ("obs",)})
    return 0

"""C20 - CSV import followed by CSV export reproduces the cell grid.

spec/CsvPipeline.tla (grids of cell classes, options; Level A relation vs the converter's representation),
spec/Trace_CsvPipeline.tla (judge, with spec/Decimal.tla for numeric equality)."""
import contextlib
import csv
import io
import json
import math
import os
import random
import re
import sys
import warnings

from .. import fixtures
from ..core import Machinery
from .c01 import num_form

TEXTS = ["alpha", "two words", "béta ü", "😀 astral", "x" * 40, "semi;colon", "tab\there", "O'Brien", "a=b", "#hash", "percent 5%", "ID-0042", "1-2-3",
         # characters that str.splitlines() takes for line ends but CSV does not (they stay unquoted in the file)
         "vt\x0bx", "ff\x0cx", "fs\x1cx", "gs\x1dx", "rs\x1ex", "nel\x85x", "ls\u2028x", "ps\u2029x"]
TEXT_DELIM = ["a,b", "comma, space", ",lead", "trail,"]
TEXT_QUOTE = ['say "hi"', '"quoted"', 'a""b', '"']
TEXT_BREAK = ["line1\nline2", "cr\rlf", "crlf\r\nend", "\n"]
NUMS = ["0", "12", "-7", "+3", "3.25", "-0.5", "1,234", "1,234,567.89", "1e5", "2.5E-3", "1_000", " 42 ", "٣", "007", ".5", "5.", "1e-7", "123456789012345",
        "9.1093837e-31", "-1.602176634e-19", "2.5E-16", "0.000000123456789012", "1e22", "6.02214076e23", "-0.0",
        # whole numbers far beyond 2^112 (the width of a decimal128 coefficient is 34 digits)
        "6e40", "-7.5e35", "9" + "0" * 33, "8.25e300", "5.2e33", "1e40", "7e34", "99e33"]
SPECIAL = ["nan", "NaN", "inf", "-inf", "Infinity", "-INFINITY", "+nan", "1e400", "-1e999", "iNf"]
WS_TEXTS = ["  padded  ", "double  space", " lead", "trail ", "a \t b"]


def concretise(cls, rng, ws):
    if cls == "empty":
        return ""
    if cls == "num":
        return rng.choice(NUMS)
    if cls == "special":
        return rng.choice(SPECIAL)
    if cls == "dup":
        return "DUP"
    k = rng.random()
    pool = TEXTS if k < 0.4 else TEXT_DELIM if k < 0.55 else TEXT_QUOTE if k < 0.7 else TEXT_BREAK if k < 0.85 else WS_TEXTS
    return rng.choice(pool)


def classify(text, whitespace):
    """the documented conversion: -> (class, expected text, value)"""
    t = re.sub(r"\s+", " ", text.strip()) if whitespace else text
    try:
        f = float(text.replace(",", ""))
    except ValueError:
        return ("empty" if t == "" else "text"), t, None
    if math.isfinite(f):
        return "num", t, f
    return "special", t, None


def run_case(job):
    (idx, grid, header, reverse, whitespace, seed, scratch) = job
    warnings.simplefilter("ignore")
    rng = random.Random(seed)
    nr, nc = len(grid), len(grid[0])
    cells = [[concretise(grid[i][j], rng, whitespace) for j in range(nc)] for i in range(nr)]
    if header:
        # header names: distinct unless the abstract grid says "dup" (then the name of column 1 is repeated)
        for j in range(nc):
            cells[0][j] = cells[0][0] if (grid[0][j] == "dup" and j > 0) else "col%d %s" % (j, cells[0][j].replace("\n", " ").replace("\r", " "))
    base = os.path.join(scratch, "csv-%d-%d" % (os.getpid(), idx))
    src = base + ".csv"
    with open(src, "w", newline="", encoding="utf-8") as fh:
        csv.writer(fh, dialect="excel").writerows(cells)
    ev = {"grid": grid, "header": header, "reverse": reverse, "whitespace": whitespace, "input": cells, "status": "ok", "stderr": "", "exc": ""}
    argv = ["csv2numbers"] + (["--no-header"] if not header else []) + (["--reverse"] if reverse else []) + (["--whitespace"] if whitespace else []) \
        + [src, "-o", base + ".numbers"]
    from numbers_parser import _cat_numbers, _csv2numbers
    err = io.StringIO()
    code = 0
    old = sys.argv
    try:
        sys.argv = argv
        with contextlib.redirect_stderr(err), contextlib.redirect_stdout(io.StringIO()):
            try:
                _csv2numbers.main()
            except SystemExit as e:
                code = e.code or 0
    except BaseException as e:  # noqa: BLE001
        ev["status"] = "crash"
        ev["exc"] = "csv2numbers %s:%s" % (type(e).__name__, str(e)[:80])
    finally:
        sys.argv = old
    ev["stderr"] = err.getvalue()[:300]
    out_rows = []
    if ev["status"] == "ok":
        if code != 0:
            lines = [ln for ln in err.getvalue().splitlines() if ln.strip()]
            ev["status"] = "error" if len(lines) == 1 else "crash"
            ev["exc"] = "exit %s with %d lines on stderr" % (code, len(lines))
        else:
            out = io.StringIO()
            try:
                sys.argv = ["cat-numbers", "-b", base + ".numbers"]
                with contextlib.redirect_stdout(out), contextlib.redirect_stderr(io.StringIO()):
                    try:
                        _cat_numbers.main()
                    except SystemExit:
                        pass
                out_rows = list(csv.reader(io.StringIO(out.getvalue()), dialect="excel"))
            except BaseException as e:  # noqa: BLE001
                ev["status"] = "crash"
                ev["exc"] = "cat-numbers %s:%s" % (type(e).__name__, str(e)[:80])
            finally:
                sys.argv = old
    for f in (src, base + ".numbers"):
        if os.path.exists(f):
            os.remove(f)
    # expected reading order (Level A): header row first, data rows reversed iff --reverse
    body = cells[1:] if header else cells
    if reverse:
        body = body[::-1]
    exp_rows = ([cells[0]] if header else []) + body
    ev["inshape"] = [len(exp_rows), nc]
    ev["outshape"] = [len(out_rows), len(out_rows[0]) if out_rows else 0]
    if out_rows and any(len(r) != len(out_rows[0]) for r in out_rows):
        ev["outshape"] = [len(out_rows), -1]
    tr = []
    for i, row in enumerate(exp_rows):
        for j, text in enumerate(row):
            is_header = header and i == 0
            cls, want, val = ("text", text, None) if is_header else classify(text, whitespace)
            if is_header and text == "":
                cls = "empty"
            got = out_rows[i][j] if i < len(out_rows) and j < len(out_rows[i]) else None
            if cls == "num":
                try:
                    g = num_form(float(got)) if got is not None else [-1]
                except ValueError:
                    g = [-1]
                tr.append(["num", num_form(val), g])
            else:
                tr.append([cls, [ord(c) for c in want], [ord(c) for c in got] if got is not None else [-1]])
    ev["cells"] = tr
    ev["output"] = out_rows[:6]
    return ev


def judge(ctx, events, count=True):
    B = 1000
    for b0 in range(0, len(events), B):
        part = events[b0:b0 + B]
        path = os.path.join(ctx.scratch, "csv-%d.ndjson" % b0)
        with open(path, "w") as fh:
            for e in part:
                fh.write(json.dumps({"status": e["status"], "inshape": e["inshape"], "outshape": e["outshape"], "cells": e["cells"]}) + "\n")
        res = ctx.tlc("Trace_CsvPipeline", "Trace_CsvPipeline.cfg", what="Trace_CsvPipeline[%d]" % b0, env={"TRACE_FILE": path}, timeout=1800, count=count)
        os.remove(path)
        seen = {int(m.group(1)): m.group(2) for m in re.finditer(r'^"V (\d+) ([\w.\-]+)"$', res.out, re.M)}
        if len(seen) != len(part):
            raise Machinery("Trace_CsvPipeline: %d verdicts for %d events\n%s" % (len(seen), len(part), res.out[-1500:]))
        if count:
            ctx.traces += len(part)
        for tid, v in seen.items():
            if v != "ok":
                e = part[tid - 1]
                has_special = any(c[0] == "special" for c in e["cells"])
                hdr_dup = e["header"] and len(set(e["input"][0])) < len(e["input"][0])
                small = e["inshape"][0] < 2 or e["inshape"][1] < 2
                ctx.fail({"engine": "trace", "clause": v, "special": has_special, "header_dup": bool(hdr_dup), "shape_below_2x2": small, "header": e["header"],
                          "exc": e["exc"].split(":")[0]},
                         "grid %s header=%s reverse=%s whitespace=%s: %s %s; input %s -> output %s %s" % (e["inshape"], e["header"], e["reverse"], e["whitespace"], v, e["exc"],
                                                                                                       json.dumps(e["input"])[:300], json.dumps(e["output"])[:300], e["stderr"][:120]),
                         {"input": e["input"], "header": e["header"], "reverse": e["reverse"], "whitespace": e["whitespace"]})


def run(ctx):
    q = ctx.quick
    ctx.rule = ("a case is one conversion run: an abstract grid of cell classes from CsvPipeline.tla with option flags, concretised with seeded spellings "
                "(quotes, delimiters, line breaks, non-ASCII, numeric spellings, special floats, empties) and optionally tiled to 1..40 x 1..12; "
                "distinct_nontrivial = distinct (abstract grid, options, concrete input) runs")
    ctx.assumptions = ["cells are classified by the documented conversion float(text without commas); numeric spellings have at most 15 significant digits",
                       "Python's csv module (excel dialect) is the reference reader/writer; grids are rectangular; header names are distinct unless the model says 'dup'"]
    ctx.stage("model-check")
    grids = []

    def handle(line):
        m = re.match(r'^"G (TRUE|FALSE) (TRUE|FALSE) (<<.*>>)"$', line)
        if m:
            rows = re.findall(r"<<((?:\\?\"\w+\\?\"(?:, )?)+)>>", m.group(3))
            g = [re.findall(r"(\w+)", r) for r in rows]
            grids.append((g, m.group(1) == "TRUE", m.group(2) == "TRUE"))
            return True
        return False
    mc = "CONSTANTS MaxR = %d\nMaxC = %d\nClasses = {%s}\nBug = \"%s\"\nSPECIFICATION Spec\nINVARIANT Conforms\n%sCHECK_DEADLOCK FALSE\n"
    cl = '"empty", "num", "special", "text", "dup"'
    ctx.tlc("CsvPipeline", mc % (2, 3, cl, "none", "INVARIANT EmitGrid\n"), what="MC_CsvPipeline[<=2x3, 5 classes, header x reverse]", stream_to=handle, timeout=1800)
    if not q:
        ctx.tlc("CsvPipeline", mc % (3, 3, '"empty", "num", "special", "text"', "none", ""), what="MC_CsvPipeline[<=3x3]", timeout=3000)
    for bug in ("DuplicateHeaderCollapse", "MinShape", "SpecialFloatCoerced"):
        ctx.tlc("CsvPipeline", mc % (2, 2, cl, bug, ""), what="Bug_%s" % bug, expect_violation="Conforms", count=False)
    if len(grids) < 1000:
        raise Machinery("only %d grids parsed from TLC" % len(grids))
    rng = random.Random(ctx.seed + 20)
    grids.sort(key=lambda g: json.dumps(g))
    # 'dup' is meaningful only in a header row; elsewhere it is plain text
    use = rng.sample(grids, 250 if q else 4000)
    jobs = []
    k = 0
    for (g, header, reverse) in use:
        g2 = [row[:] for row in g]
        if not header or len(g2) < 2:
            g2 = [[("text" if c == "dup" else c) for c in row] for row in g2]
        jobs.append((k, g2, header, reverse, rng.random() < 0.3, ctx.seed * 11 + k, ctx.scratch))
        k += 1
    # larger shapes: tile an abstract grid to 1..40 x 1..12
    for _ in range(40 if q else 800):
        (g, header, reverse) = rng.choice(grids)
        nr, nc = rng.randint(1, 40), rng.randint(1, 12)
        big = [[("text" if g[i % len(g)][j % len(g[0])] == "dup" else g[i % len(g)][j % len(g[0])]) for j in range(nc)] for i in range(nr)]
        jobs.append((k, big, header, reverse, rng.random() < 0.3, ctx.seed * 11 + k, ctx.scratch))
        k += 1
    # the smallest shapes in every option combination: a header line only, one data row, one column
    for (nr, nc) in ((1, 1), (1, 4), (2, 1), (1, 12), (2, 12)):
        for header in (True, False):
            for reverse in (False, True):
                jobs.append((k, [["text"] * nc for _ in range(nr)], header, reverse, False, ctx.seed * 11 + k, ctx.scratch))
                k += 1
    ctx.stage("convert")
    events = fixtures.pmap(run_case, jobs, ctx.workers, chunksize=4)
    ctx.evaluations += len(events)
    for e in events:
        ctx.distinct.add(json.dumps([e["grid"], e["header"], e["reverse"], e["whitespace"], e["input"]])[:4000])
    ctx.sample({"input_csv_rows": events[0]["input"], "options": {"header": events[0]["header"], "reverse": events[0]["reverse"], "whitespace": events[0]["whitespace"]},
                "exported_rows": events[0]["output"]})
    ctx.extra["runs"] = {"model_grids": len(use), "tiled_grids": len(events) - len(use), "errors_reported_cleanly": sum(1 for e in events if e["status"] == "error")}
    ctx.stage("judge")
    judge(ctx, events)
    ctx.stage("selftest")
    import copy
    # (the event to corrupt must itself be an accepted one: under a changed library the first candidates may already be rejected)
    good = None
    saved = ctx.failures
    for cand in [e for e in events if e["status"] == "ok" and any(c[0] == "text" for c in e["cells"])][:40]:
        ctx.failures = []
        judge(ctx, [cand], count=False)
        if not ctx.failures:
            good = cand
            break
    ctx.failures = saved
    if good is None:
        if ctx.failures:
            ctx.extra["binding_selftest"] = "skipped: no accepted event to corrupt (violations are reported)"
            return
        raise Machinery("binding self-test: no accepted event to corrupt")
    b1 = copy.deepcopy(good)
    i = next(i for i, c in enumerate(b1["cells"]) if c[0] == "text")
    b1["cells"][i][2] = b1["cells"][i][2] + [33]
    b2 = copy.deepcopy(good)
    b2["outshape"] = [b2["outshape"][0] + 1, b2["outshape"][1]]
    b3 = copy.deepcopy(good)
    b3["status"] = "crash"
    saved = ctx.failures
    ctx.failures = []
    judge(ctx, [b1, b2, b3], count=False)
    got = sorted(f[0]["clause"] for f in ctx.failures)
    ctx.failures = saved
    if got != ["cell.text", "crash", "shape"]:
        raise Machinery("binding self-test: corrupted events judged %s" % got)
    ctx.extra["binding_selftest"] = "an altered text cell, an extra output row and a crash status are all rejected"


def replay(ctx, data):
    print(json.dumps(data["replay"])[:2000])
    return 0

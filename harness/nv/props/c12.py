"""C12 - merged regions are reported consistently, immediately and after reload.

spec/Merges.tla (grid + set of rectangles, derived picture), spec/Trace_Merges.tla (judge)."""
import glob
import json
import os
import random
import re

from .. import tlaval, wb
from ..core import Machinery


def cfg(initr=3, initc=3, maxr=4, maxc=4, depth=4, ops=None, view=True, props=True, rectsets="MCRectSets", defs=("e", "c")):
    ops = ops or ["merge", "write", "addrow", "addcol", "delrow", "delcol", "save", "reopen"]
    lines = ["CONSTANTS InitR = %d" % initr, "InitC = %d" % initc, "MaxR = %d" % maxr, "MaxC = %d" % maxc, 'Vals = {"c"}',
             "D = %d" % depth, "OpsOn = {%s}" % ", ".join('"%s"' % o for o in ops), "RectSets <- %s" % rectsets,
             "Defs = {%s}" % ", ".join('"%s"' % d for d in defs),
             "SPECIFICATION Spec", "CONSTRAINT Depth", "CHECK_DEADLOCK FALSE"]
    if view:
        lines.append("VIEW NoHist")
    if props:
        lines += ["INVARIANT WellFormed", "INVARIANT PlaceholdersEmpty", "INVARIANT DiskWellFormed", "PROPERTY OutsideUntouched",
                  "PROPERTY MovesOnly"]
    return "\n".join(lines) + "\n"


TRACE_CFG = """CONSTANTS InitR = 1
InitC = 1
MaxR = 1000
MaxC = 1000
Vals = {"c"}
D = 1
OpsOn = {}
RectSets <- MCRectSets
Defs = {"e"}
SPECIFICATION TSpec
INVARIANT Done
CHECK_DEADLOCK FALSE
"""
VALS = {"a": "alpha", "b": 7.5, "c": "new", "e": None}


def picture(tb):
    from numbers_parser import MergedCell
    from numbers_parser.xrefs import xl_range
    anchors, place, cells, bad = [], [], [], 0
    rows = tb.rows()
    if len(rows) != tb.num_rows:
        bad += 1
    for i, row in enumerate(rows):
        if len(row) != tb.num_cols:
            bad += 1
        for j, c in enumerate(row):
            if c.row != i or c.col != j:
                bad += 1
            if isinstance(c, MergedCell):
                rect = c.rect
                if rect is None:
                    bad += 1
                    place.append([i + 1, j + 1, 0, 0, 0, 0])
                else:
                    place.append([i + 1, j + 1, rect[0] + 1, rect[1] + 1, rect[2] + 1, rect[3] + 1])
                    if c.merge_range != xl_range(*rect):
                        bad += 1
                if c.value is not None or c.is_merged:
                    bad += 1
            else:
                if c.is_merged:
                    anchors.append([i + 1, j + 1, c.size[0], c.size[1]])
                elif c.size != (1, 1) or c.rect is not None or c.merge_range is not None:
                    bad += 1
                if c.value is not None:
                    cells.append([i + 1, j + 1, REV.get(wb.canon(c.value), wb.canon(c.value))])
    ranges = []
    for rg in tb.merge_ranges:
        m = re.match(r"^([A-Z]+)(\d+):([A-Z]+)(\d+)$", rg)
        if not m:
            bad += 1
            continue
        ranges.append([int(m.group(2)), col_index(m.group(1)) + 1, int(m.group(4)), col_index(m.group(3)) + 1])
    return {"nr": tb.num_rows, "nc": tb.num_cols, "anchors": anchors, "place": place, "ranges": ranges, "cells": cells, "bad": bad}


REV = {wb.canon(v): k for k, v in VALS.items()}


def col_index(name):
    n = 0
    for ch in name:
        n = n * 26 + (ord(ch) - 64)
    return n - 1


def rect_a1(x):
    return "%s%d:%s%d" % (wb.colname(x[1] - 1), x[0], wb.colname(x[3] - 1), x[2])


def run_history(job):
    (idx, ops, init, scratch, as_list) = job
    import warnings
    warnings.simplefilter("ignore")
    from numbers_parser import Document
    nr, nc = init
    doc = Document(num_rows=nr, num_cols=nc, num_header_rows=0, num_header_cols=0)
    tb = doc.sheets[0].tables[0]
    for i in range(nr):
        for j in range(nc):
            tb.write(i, j, VALS["a"] if (i + j) % 2 == 0 else VALS["b"])
    path = os.path.join(scratch, "mg-%d-%d.numbers" % (os.getpid(), idx))
    trace = {"init": picture(tb), "ev": [], "meta": {"idx": idx}}
    for op in ops:
        op = {k: v for k, v in op.items() if k not in ("cut", "ph")}
        e = dict(op)
        k = op["op"]
        try:
            if k == "merge":
                rs = [rect_a1(x) for x in op["rs"]]
                tb.merge_cells(rs if (len(rs) > 1 or as_list) else rs[0])
            elif k == "write":
                from numbers_parser import MergedCell
                e["ph"] = isinstance(tb.cell(op["r"] - 1, op["c"] - 1), MergedCell)
                tb.write(op["r"] - 1, op["c"] - 1, VALS[op["v"]])
            elif k == "addrow":
                tb.add_row(op["n"], None if op["at"] == tb.num_rows + 1 else op["at"] - 1, VALS[op["d"]])
            elif k == "addcol":
                tb.add_column(op["n"], None if op["at"] == tb.num_cols + 1 else op["at"] - 1, VALS[op["d"]])
            elif k == "delrow":
                tb.delete_row(op["n"], op["at"] - 1)
            elif k == "delcol":
                tb.delete_column(op["n"], op["at"] - 1)
            elif k == "addtable":
                t2 = doc.sheets[0].add_table(num_rows=tb.num_rows, num_cols=tb.num_cols, num_header_rows=0, num_header_cols=0)
                e["fresh"] = picture(t2)
            elif k == "save":
                doc.save(path)
                e["re"] = picture(Document(path).sheets[0].tables[0])
            elif k == "reopen":
                doc = Document(path)
                tb = doc.sheets[0].tables[0]
            e["post"] = picture(tb)
        except Exception as ex:  # noqa: BLE001
            e["exc"] = "%s:%s" % (type(ex).__name__, str(ex)[:100])
            e["post"] = {"nr": 0, "nc": 0, "anchors": [], "place": [], "ranges": [], "cells": [], "bad": 99}
            if k == "save":
                e["re"] = e["post"]
            trace["ev"].append(e)
            break
        trace["ev"].append(e)
    for f in glob.glob(path):
        os.remove(f)
    return trace


def validate(ctx, traces, label):
    rejected = 0
    B = 300
    for b0 in range(0, len(traces), B):
        part = traces[b0:b0 + B]
        path = os.path.join(ctx.scratch, "mgtrace-%d.ndjson" % random.getrandbits(30))
        with open(path, "w") as fh:
            for t in part:
                fh.write(json.dumps({"init": t["init"], "ev": t["ev"]}) + "\n")
        res = ctx.tlc("Trace_Merges", TRACE_CFG, what="Trace_Merges[%s,%d]" % (label, b0), env={"TRACE_FILE": path}, timeout=3000)
        os.remove(path)
        verdict = {}
        for ln in res.printed:
            m = re.match(r'^<<"(ACCEPT|REJECT)", (\d+), (\d+)(?:, "(\w+)", "([\w.\-]+)")?>>$', ln)
            if m:
                verdict[int(m.group(2))] = (m.group(1), int(m.group(3)), m.group(4), m.group(5))
            elif ln.startswith('<<"DRIFT"'):
                ctx.drifted("%s: rectangles after a structural edit differ from 'move with their cells': %s" % (label, ln))
        if len(verdict) != len(part):
            raise Machinery("Trace_Merges[%s]: %d verdicts for %d traces\n%s" % (label, len(verdict), len(part), res.out[-1500:]))
        for tid, (v, l, op, clause) in verdict.items():
            t = part[tid - 1]
            ctx.traces += 1
            if v == "REJECT":
                rejected += 1
                ev = t["ev"][l - 1]
                prior = [e["op"] for e in t["ev"][:l]]
                wrote_ph = any(e.get("ph") for e in t["ev"][:l])
                key = {"engine": "trace", "clause": clause, "label": label, "op": op, "exc": (ev.get("exc") or "").split(":")[0], "wrote_into_placeholder": wrote_ph,
                       "merge_then_structural": "merge" in prior and any(o in ("addrow", "addcol", "delrow", "delcol") for o in prior[prior.index("merge"):])}
                ctx.fail(key, "trace rejected at event %d (%s): %s; ops %s; post %s%s"
                         % (l, op, clause, json.dumps([{k: v for k, v in e.items() if k not in ("post", "re", "fresh")} for e in t["ev"][:l]])[:500],
                            json.dumps(ev.get("post"))[:400], (" reopened " + json.dumps(ev["re"])[:300]) if "re" in ev else ""),
                         {"ops": [{k: v for k, v in e.items() if k not in ("post", "re", "fresh")} for e in t["ev"]], "init": [t["init"]["nr"], t["init"]["nc"]]})
    return rejected


def histories(ctx, cfgtext, what):
    dump = os.path.join(ctx.scratch, "mgdump-%d" % random.getrandbits(30))
    res = ctx.tlc("Merges", cfgtext, what=what, dump=dump, timeout=3000)
    if res.violated:
        raise Machinery("%s: %s violated" % (what, res.violated))
    fn = dump + ".dump" if os.path.exists(dump + ".dump") else dump
    states = list(tlaval.parse_dump(open(fn).read()))
    for f in glob.glob(dump + "*"):
        os.remove(f)
    keys = {json.dumps(st["hist"], sort_keys=True) for st in states}
    prefixes = {json.dumps(st["hist"][:-1], sort_keys=True) for st in states if st["hist"]}
    out = [st["hist"] for st in states if st["hist"] and json.dumps(st["hist"], sort_keys=True) not in prefixes]
    out.sort(key=lambda h: json.dumps(h, sort_keys=True))
    return out, len(states)


def run(ctx):
    q = ctx.quick
    ctx.rule = ("histories = merge (single range or list of disjoint ranges) followed by writes, row/column insertions and deletions "
                "before/inside/after the rectangles, save and reopen; all maximal bounded behaviours of Merges.tla are generated by TLC; "
                "distinct_nontrivial = distinct op sequences with at least one merge")
    ctx.assumptions = ["merging overlapping ranges is outside the documented domain and not generated",
                       "after an edit that follows a merge Level A only demands a self-consistent picture that is the same after reload; "
                       "where the rectangles end up is Level B (DRIFT)"]
    ctx.stage("model-check")
    if q:
        ctx.tlc("Merges", cfg(depth=4, defs=("e",)), what="MC_Merges[3x3..4x4, all rectangles and disjoint pairs]", timeout=3000)
        ctx.tlc("Merges", cfg(depth=4, rectsets="GenRectSets"), what="MC_Merges[defaults, reduced rectangle family]", timeout=3000)
    else:
        ctx.tlc("Merges", cfg(depth=4), what="MC_Merges[3x3..4x4, all rectangles and disjoint pairs, defaults]", timeout=6000)
        ctx.tlc("Merges", cfg(depth=5, defs=("e",)), what="MC_Merges[depth 5, no defaults]", timeout=9000)
    ctx.stage("generate")
    # quick: four levels with defaults on a reduced rectangle family; thorough: the same on the full family, plus five levels without defaults
    # on the reduced one (the dump of five levels with defaults and all rectangles does not fit)
    gen = cfg(depth=4, view=False, props=False, rectsets="GenRectSets" if q else "MCRectSets",
              ops=["merge", "write", "addrow", "delcol", "save", "reopen"] if q else None)
    hist, nstates = histories(ctx, gen, "Gen_Merges")
    if not q:
        h5, n5 = histories(ctx, cfg(depth=5, view=False, props=False, rectsets="GenRectSets", defs=("e",),
                                    ops=["merge", "write", "addrow", "addcol", "delrow", "delcol", "save", "reopen"]), "Gen_Merges[depth 5]")
        hist += h5
        nstates += n5
    rng = random.Random(ctx.seed + 12)
    hist = [h for h in hist if any(o["op"] == "merge" for o in h)]
    total = len(hist)
    if len(hist) > (1500 if q else 30000):
        hist = rng.sample(hist, 1500 if q else 30000)
    ctx.extra["generated_histories"] = {"states_with_hist": nstates, "maximal_with_merge": total, "replayed": len(hist)}
    ctx.stage("replay")
    from ..fixtures import pmap
    jobs = [(i, h, (3, 3), ctx.scratch, i % 2 == 0) for i, h in enumerate(hist)]
    # larger tables: the same rectangles at table edges of 5x6 / 12x9 tables, and N x 1 / 1 x N tables
    extra = []
    for i in range(120 if q else 1200):
        nr, nc = rng.choice([(5, 6), (12, 9), (1, 6), (7, 1), (6, 6)])
        ops, used = [], []
        for _ in range(rng.randint(1, 3)):
            for _try in range(20):
                r1, c1 = rng.randint(1, nr), rng.randint(1, nc)
                r2, c2 = rng.randint(r1, min(nr, r1 + 3)), rng.randint(c1, min(nc, c1 + 3))
                x = [r1, c1, r2, c2]
                if (r2 > r1 or c2 > c1) and all(x[2] < y[0] or y[2] < x[0] or x[3] < y[1] or y[3] < x[1] for y in used):
                    used.append(x)
                    ops.append({"op": "merge", "rs": [x]})
                    break
        if not ops:
            continue
        if rng.random() < 0.5:
            ops = [{"op": "merge", "rs": [o["rs"][0] for o in ops]}]
        cnr, cnc = nr, nc
        for _ in range(rng.randint(0, 3)):
            k = rng.random()
            free = [(r, c) for r in range(1, cnr + 1) for c in range(1, cnc + 1)]
            if k < 0.3 and cnr == nr and cnc == nc:
                r, c = rng.choice(free)
                if not any(y[0] <= r <= y[2] and y[1] <= c <= y[3] and (r, c) != (y[0], y[1]) for y in used):
                    ops.append({"op": "write", "r": r, "c": c, "v": "c"})
            elif k < 0.5:
                # only edits that do not cut a rectangle (before the first / after the last one), one or two lines at a time, on either axis;
                # "at the first row / left edge of a rectangle" is such a position: the rectangle moves as a whole
                if cnr == nr and cnc == nc:
                    n = rng.choice([1, 1, 2])
                    if rng.random() < 0.5:
                        top = min(y[0] for y in used)
                        ops.append({"op": "addrow", "n": n, "d": rng.choice(["e", "c"]), "at": rng.choice([a for a in range(1, nr + 2) if a <= top or a > max(y[2] for y in used)])})
                        cnr += n
                    else:
                        left = min(y[1] for y in used)
                        ops.append({"op": "addcol", "n": n, "d": rng.choice(["e", "c"]), "at": rng.choice([left] * 3 + [a for a in range(1, nc + 2) if a <= left or a > max(y[3] for y in used)])})
                        cnc += n
                    break
            elif k < 0.62:
                # a deletion wholly before the rectangles (first row / column included): they move up / left as a whole
                if cnr == nr and cnc == nc:
                    top, left = min(y[0] for y in used), min(y[1] for y in used)
                    if rng.random() < 0.5 and top > 1:
                        n = rng.randint(1, min(2, top - 1))
                        ops.append({"op": "delrow", "n": n, "at": rng.choice([1, rng.randint(1, top - n)])})
                        cnr -= n
                        break
                    if left > 1:
                        n = rng.randint(1, min(2, left - 1))
                        ops.append({"op": "delcol", "n": n, "at": rng.choice([1, rng.randint(1, left - n)])})
                        cnc -= n
                        break
            elif k < 0.7:
                ops.append({"op": "save"})
        ops.append({"op": "save"})
        if i % 3 == 0:
            # a sibling table added once the merges have been written to a file (and, after the reopen, to a loaded document)
            ops.append({"op": "addtable"})
        ops.append({"op": "reopen"})
        if i % 3 == 1:
            ops += [{"op": "addtable"}, {"op": "save"}]
        extra.append((100000 + i, ops, (nr, nc), ctx.scratch, False))
    # a persisted merge that later disappears altogether: merge, save, delete every row (or column) of the rectangle, save, reopen -
    # the second file must not show the rectangle of the first
    for i in range(12 if q else 200):
        nr, nc = rng.choice([(5, 6), (6, 6), (7, 4)])
        r1, c1 = rng.randint(1, nr - 1), rng.randint(1, nc - 1)
        r2, c2 = rng.randint(r1, min(nr, r1 + 2)), rng.randint(c1, min(nc, c1 + 2))
        if (r1, c1) == (r2, c2):
            r2 = min(nr, r1 + 1)
            if r2 == r1:
                continue
        ops = [{"op": "merge", "rs": [[r1, c1, r2, c2]]}, {"op": "save"}]
        if i % 4 == 0:
            ops.append({"op": "reopen"})
        if i % 2 == 0 and r2 - r1 + 1 < nr:
            ops.append({"op": "delrow", "n": r2 - r1 + 1, "at": r1})
        elif c2 - c1 + 1 < nc:
            ops.append({"op": "delcol", "n": c2 - c1 + 1, "at": c1})
        else:
            continue
        ops += [{"op": "save"}, {"op": "reopen"}, {"op": "save"}]
        extra.append((200000 + i, ops, (nr, nc), ctx.scratch, False))
    traces = pmap(run_history, jobs + extra, ctx.workers, chunksize=8)
    ctx.evaluations += len(traces)
    for t in traces:
        ctx.distinct.add(json.dumps([{k: v for k, v in e.items() if k not in ("post", "re", "fresh")} for e in t["ev"]], sort_keys=True))
    ctx.sample({"history": hist[0]})
    ctx.sample({"history_on_larger_table": extra[0][1], "shape": extra[0][2]})
    ctx.stage("validate")
    validate(ctx, traces[:len(jobs)], "generated")
    validate(ctx, traces[len(jobs):], "edges")
    ctx.stage("fixtures")
    fx_check(ctx)
    ctx.stage("selftest")
    import copy
    good = run_history((0, [{"op": "merge", "rs": [[1, 1, 2, 2]]}, {"op": "save"}], (3, 3), ctx.scratch, False))
    t1 = copy.deepcopy(good)
    t1["ev"][0]["post"]["place"] = t1["ev"][0]["post"]["place"][1:]
    t2 = copy.deepcopy(good)
    t2["ev"][1]["re"]["ranges"] = []
    saved = (ctx.failures, ctx.traces)
    ctx.failures = []
    validate(ctx, [good], "selftest-intact")
    n0 = len(ctx.failures)
    ctx.failures = []
    validate(ctx, [t1, t2], "selftest-corrupt")
    n = len(ctx.failures)
    ctx.failures, ctx.traces = saved
    if n0 != 0:
        ctx.note("self-test: the intact merge trace is rejected on this tree (the library violates C12 on it)")
    if n != 2:
        raise Machinery("binding self-test: %d of 2 corrupted traces rejected" % n)
    ctx.extra["binding_selftest"] = "dropped placeholder and emptied reopened merge list both rejected"


def fx_check(ctx):
    """code -> spec on loaded documents: the merge picture of every fixture table must be self-consistent, and the same after a re-save"""
    from .. import fixtures
    keep = ("merge", "test-9", "test-styles", "test-titles", "issue-77", "issue-59", "test-4.")
    fx = [p for p in fixtures.readable_fixtures(ctx.workers) if any(k in os.path.basename(p).lower() for k in keep) or not ctx.quick]
    res = fixtures.pmap(fx_job, [(p, ctx.scratch) for p in fx], ctx.workers)
    traces = [t for lst in res for t in lst]
    ctx.evaluations += len(traces)
    ctx.extra["fixture_tables_checked"] = len(traces)
    if traces:
        validate(ctx, traces, "fixture-tables")


def fx_job(j):
    (path, scratch) = j
    import warnings
    warnings.simplefilter("ignore")
    from numbers_parser import Document
    out = []
    try:
        doc = Document(path)
        pics = [(si, ti, picture(tb)) for si, sh in enumerate(doc.sheets) for ti, tb in enumerate(sh.tables) if tb.num_rows * tb.num_cols <= 4000]
        pics = [p for p in pics if p[2]["ranges"] or p[2]["place"] or p[2]["anchors"]]
        if not pics:
            return []
        tmp = os.path.join(scratch, "fxm-%d.numbers" % os.getpid())
        doc.save(tmp)
        doc2 = Document(tmp)
        os.remove(tmp)
        for si, ti, pic in pics:
            re_pic = picture(doc2.sheets[si].tables[ti])
            out.append({"init": pic, "ev": [{"op": "save", "post": pic, "re": re_pic}], "meta": {"fixture": os.path.basename(path), "sheet": si, "table": ti}})
        # merges that came with the document follow an insertion before them like any others, also in the file saved afterwards
        for si, ti, pic in pics:
            if pic["bad"] or pic["nr"] * pic["nc"] > 1500:
                continue
            d3 = Document(path)
            t3 = d3.sheets[si].tables[ti]
            evs = []
            if min(r[1] for r in pic["ranges"]) > 1 and si % 2:
                t3.add_column(1, 0)
                evs.append({"op": "addcol", "n": 1, "at": 1, "d": "e", "post": picture(t3)})
            else:
                t3.add_row(1, 0)
                evs.append({"op": "addrow", "n": 1, "at": 1, "d": "e", "post": picture(t3)})
            d3.save(tmp)
            evs.append({"op": "save", "post": picture(t3), "re": picture(Document(tmp).sheets[si].tables[ti])})
            os.remove(tmp)
            out.append({"init": pic, "ev": evs, "meta": {"fixture": os.path.basename(path), "sheet": si, "table": ti, "edit": evs[0]["op"]}})
        # ... and they disappear with their rows: every row that belongs to a merged rectangle is deleted (whole rectangles, bottom-up);
        # the table, now without any merge, is saved and must reopen without any
        for si, ti, pic in pics:
            if pic["bad"] or pic["nr"] * pic["nc"] > 1500 or not pic["ranges"]:
                continue
            spans = sorted([r[0], r[2]] for r in pic["ranges"])
            merged = [spans[0]]
            for a, b in spans[1:]:
                if a <= merged[-1][1]:
                    merged[-1][1] = max(merged[-1][1], b)
                else:
                    merged.append([a, b])
            if sum(b - a + 1 for a, b in merged) >= pic["nr"]:
                continue
            d3 = Document(path)
            t3 = d3.sheets[si].tables[ti]
            evs = []
            for a, b in reversed(merged):
                t3.delete_row(b - a + 1, start_row=a - 1)
                evs.append({"op": "delrow", "n": b - a + 1, "at": a, "post": picture(t3)})
            d3.save(tmp)
            evs.append({"op": "save", "post": picture(t3), "re": picture(Document(tmp).sheets[si].tables[ti])})
            os.remove(tmp)
            out.append({"init": pic, "ev": evs, "meta": {"fixture": os.path.basename(path), "sheet": si, "table": ti, "edit": "delete-all-merged-rows"}})
    except Exception as e:  # noqa: BLE001
        out.append({"init": {"nr": 1, "nc": 1, "anchors": [], "place": [], "ranges": [], "cells": [], "bad": 0},
                    "ev": [{"op": "save", "exc": type(e).__name__, "post": {"nr": 0, "nc": 0, "anchors": [], "place": [], "ranges": [], "cells": [], "bad": 99},
                            "re": {"nr": 0, "nc": 0, "anchors": [], "place": [], "ranges": [], "cells": [], "bad": 99}}], "meta": {"fixture": os.path.basename(path)}})
    return out


def replay(ctx, data):
    r = data["replay"]
    t = run_history((0, r["ops"], tuple(r.get("init", (3, 3))), ctx.scratch, False))
    for e in t["ev"]:
        print(json.dumps(e)[:600])
    return 0

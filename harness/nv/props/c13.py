"""C13 - displayed numbers agree numerically with the stored value.

spec/NumFormat.tla (digit-sequence rounding, notation readers, base conversion by long division),
spec/Trace_NumFormat.tla (judge)."""
import json
import os
import random
import re
import warnings
from decimal import Decimal
from fractions import Fraction

from .. import fixtures
from ..core import Machinery
from .c01 import num_form


def cps(s):
    return [ord(c) for c in s]


def values(rng, n):
    out = [0.0, 1.0, -1.0, 0.5, -0.5, 1.5, -1.5, 2.5, 0.125, 0.375, 999.995, 0.995, 9.995, 99.5, 0.045, 1e14, 123456789012345.0, 1234.5678, -1234.5678,
           0.001, 0.0005, 1e-7, 12345.0, 1000000.0, 999999.5, 0.9999999, 5e-5, 1e15 - 1, 0.3, 0.666666666666667, 0.1, 7.0, 255.0, -255.0, 65535.0, -2147483648.0, 4294967296.0]
    # tiny magnitudes (C01's domain reaches down to 1e-290): automatic decimals show them with an exponent - incl. exponents ending in 0
    out += [2.5e-10, 1e-10, -4.5e-20, 1e-20, 3.25e-30, 1.5e-100, -7.5e-200, 1.25e-9, 9.5e-11, 1e-19, 6.5e-101, 2e-290]
    for k in range(-6, 15):
        out += [10.0 ** k, -(10.0 ** k), float(Decimal(10) ** k - Decimal(10) ** (k - 14)) if k > -1 else 10.0 ** k]
    for _ in range(n):
        d = rng.randint(1, 15)
        m = rng.randrange(10 ** (d - 1), 10 ** d)
        e = rng.randrange(-8, 15 - d)
        x = float("%de%d" % (m, e))
        if abs(x) < 1e15:
            out.append(x * rng.choice([1, -1]))
    for _ in range(n // 4):       # exact decimal ties at various places
        p = rng.randint(0, 8)
        k = rng.randrange(0, 10 ** rng.randint(1, 6))
        out.append(float(Decimal(k * 10 + 5).scaleb(-(p + 1))) * rng.choice([1, -1]))
    return out


def job(j):
    (idx, cases, scratch, reopen) = j
    warnings.simplefilter("ignore")
    from numbers_parser import Document, FractionAccuracy, NegativeNumberStyle
    doc = Document(num_rows=len(cases), num_cols=1, num_header_rows=0, num_header_cols=0)
    tables = [doc.sheets[0].tables[0]]
    if idx % 2:
        # the formats of one document's tables are independent: cases alternate between the first table, a table added to the same
        # sheet and a table on an added sheet, so that their formats are allocated interleaved
        tables.append(doc.sheets[0].add_table("Second", num_rows=len(cases), num_cols=1, num_header_rows=0, num_header_cols=0))
        doc.add_sheet("Other", "Third", len(cases), 1)
        tables.append(doc.sheets[1].tables[0])
    events = []
    for i, (v, fmt) in enumerate(cases):
        ti = i % len(tables)
        tb = tables[ti]
        tb.write(i, 0, v)
        kw = dict(fmt)
        kind = kw.pop("kind")
        if i % 7 == 3:
            # the cell had another format before, and its display was already read once: what counts is the format it has now
            try:
                tb.set_cell_formatting(i, 0, "number", decimal_places=(i // 7) % 6, show_thousands_separator=bool(i % 2))
                _ = tb.cell(i, 0).formatted_value
            except Exception:  # noqa: BLE001
                pass
        try:
            if kind == "dec":
                tb.set_cell_formatting(i, 0, "number", decimal_places=kw["places"], show_thousands_separator=kw["sep"], negative_style=NegativeNumberStyle(kw["neg"]))
            elif kind == "cur":
                tb.set_cell_formatting(i, 0, "currency", currency_code=kw["code"], decimal_places=kw["places"], show_thousands_separator=kw["sep"],
                                       negative_style=NegativeNumberStyle(kw["neg"]), use_accounting_style=kw["acc"])
            elif kind == "pct":
                tb.set_cell_formatting(i, 0, "percentage", decimal_places=kw["places"], show_thousands_separator=kw["sep"], negative_style=NegativeNumberStyle(kw["neg"]))
            elif kind == "sci":
                tb.set_cell_formatting(i, 0, "scientific", decimal_places=kw["places"])
            elif kind == "base":
                tb.set_cell_formatting(i, 0, "base", base=kw["base"], base_places=kw["places"], base_use_minus_sign=kw["minus"])
            elif kind in ("frac", "fracn"):
                tb.set_cell_formatting(i, 0, "fraction", fraction_accuracy=FractionAccuracy(kw["acc"]))
            elif kind == "rating":
                tb.set_cell_formatting(i, 0, "rating")
        except Exception as e:  # noqa: BLE001
            events.append({"kind": kind, "fmt": fmt, "value": v, "refused": "%s:%s" % (type(e).__name__, str(e)[:60])})
            continue
        events.append({"kind": kind, "fmt": fmt, "value": v, "row": i, "t": ti})
    path = os.path.join(scratch, "c13-%d-%d.numbers" % (os.getpid(), idx))
    if reopen:
        doc.save(path)
        d2 = Document(path)
        tables = [d2.sheets[0].tables[0]] + ([d2.sheets[0].tables[1], d2.sheets[1].tables[0]] if len(tables) == 3 else [])
        os.remove(path)
    for e in events:
        if "row" not in e:
            continue
        try:
            c = tables[e["t"]].cell(e["row"], 0)
            e["text"] = c.formatted_value
            e["cellvalue"] = c.value
        except Exception as ex:  # noqa: BLE001
            e["exc"] = "%s:%s" % (type(ex).__name__, str(ex)[:60])
    return events


def to_event(e):
    fmt, v, text = e["fmt"], e["cellvalue"], e["text"]
    vf = num_form(float(v))
    if all(x == 0 for x in vf[1]):
        vf = [vf[0], [], 0]
    while vf[1] and vf[1][-1] == 0:        # canonical form: no trailing zeros (repr spells 1e12 as 1000000000000.0)
        vf = [vf[0], vf[1][:-1], vf[2] + 1]
    kind = e["kind"]
    ev = {"kind": kind, "v": vf, "text": cps(text), "places": fmt.get("places", -1) if fmt.get("places") is not None else -1, "sep": bool(fmt.get("sep", False)),
          "neg": 1 if (fmt.get("acc") and False) else fmt.get("neg", 0)}
    if kind == "cur" and fmt.get("acc"):
        ev["neg"] = 0 if fmt.get("neg", 0) == 0 else fmt.get("neg", 0)
    if kind == "base":
        ev.update({"base": fmt["base"], "minus": bool(fmt["minus"]), "places": fmt["places"]})
    if kind in ("frac", "fracn"):
        m = re.match(r"^(-?)(?:(\d+) )?(\d+)/(\d+)$", text) or re.match(r"^(-?)(\d+)()()$", text)
        D = fmt["acc"]
        if m:
            neg = m.group(1) == "-"
            if m.lastindex and m.group(3) != "" and m.group(4) != "":
                w, n, dn = m.group(2) or "", int(m.group(3)), int(m.group(4))
            else:
                w, n, dn = m.group(2), 0, 1
            wd = [int(c) for c in w.lstrip("0")] if w else []
            ev.update({"wellformed": True, "negtext": neg, "w": wd, "n": n, "dn": dn, "D": D if kind == "frac" else 1, "zero": (not wd) and n == 0})
            if kind == "fracn":
                Q = 10 ** {0xFFFFFFFD: 3, 0xFFFFFFFE: 2, 0xFFFFFFFF: 1}[D] - 1
                read = Fraction(int(w or 0)) + Fraction(n, dn)
                ev["within"] = bool(dn <= Q and abs(abs(Fraction(Decimal(repr(float(v))))) - read) * Q < 1)
        else:
            ev.update({"wellformed": False, "negtext": False, "w": [], "n": 0, "dn": 1, "D": 1, "zero": False, "within": False})
    return ev


def judge(ctx, events, raw, count=True):
    B = 20000
    for b0 in range(0, len(events), B):
        part = events[b0:b0 + B]
        path = os.path.join(ctx.scratch, "nf-%d.ndjson" % b0)
        with open(path, "w") as fh:
            for e in part:
                fh.write(json.dumps(e) + "\n")
        try:
            res = ctx.tlc("Trace_NumFormat", "Trace_NumFormat.cfg", what="Trace_NumFormat[%d]" % b0, env={"TRACE_FILE": path}, timeout=3000, count=count)
        except Machinery:
            if os.environ.get("NV_KEEP"):
                import shutil
                shutil.copy(path, os.environ["NV_KEEP"])
            raise
        os.remove(path)
        if res.exit != 0:
            raise Machinery("Trace_NumFormat failed: %s" % res.out[-1500:])
        seen = {int(m.group(1)): m.group(2) for m in re.finditer(r'^"V (\d+) ([\w.\-]+)"$', res.out, re.M)}
        if len(seen) != len(part):
            raise Machinery("Trace_NumFormat: %d verdicts for %d events\n%s" % (len(seen), len(part), res.out[-1500:]))
        if count:
            ctx.traces += len(part)
        for tid, v in seen.items():
            if v != "ok":
                r = raw[b0 + tid - 1]
                f = r["fmt"]
                val = float(r["cellvalue"])
                rounds_to_zero = bool(re.fullmatch(r"[^1-9]*", r["text"] or ""))
                ctx.fail({"engine": "trace", "clause": v, "kind": r["kind"], "negative": val < 0, "sep": bool(f.get("sep")), "neg_style": f.get("neg", 0),
                          "accounting": bool(f.get("acc")) if r["kind"] == "cur" else False, "displays_zero": rounds_to_zero, "acc": f.get("acc") if r["kind"].startswith("frac") else None,
                          "minus": f.get("minus")},
                         "value %r with format %s displays %r" % (r["cellvalue"], json.dumps(f), r["text"]), {"value": r["cellvalue"], "fmt": f})


def run(ctx):
    q = ctx.quick
    ctx.rule = ("one event per (value, format): values from C01's numeric domain with |x| < 10^15 plus exact ties, powers of ten and neighbours, x decimal places "
                "0..10/automatic x separator x four negative styles x accounting x currencies x bases 2..36 with 0..8 places with/without two's complement x nine "
                "fraction accuracies x ratings; distinct_nontrivial = distinct (value, format) pairs")
    ctx.assumptions = ["the cell's value is taken as its shortest round-trip decimal (<= 15 significant digits)", "at an exact decimal tie either neighbour is accepted",
                       "negative style 1 (red) shows no sign in the text: only the magnitude is judged", "n-digit fraction accuracies: closeness |value - read| * (10^n - 1) < 1 is computed by the harness with Fraction"]
    ctx.stage("model-check")
    mc = "CONSTANTS Bug = \"%s\"\nSPECIFICATION Spec\nINVARIANT ReaderAgrees\nINVARIANT BaseLaw\nCHECK_DEADLOCK FALSE\n"
    ctx.tlc("NumFormat", mc % "none", what="MC_NumFormat[reader vs reference formatter]", timeout=3000)
    ctx.tlc("NumFormat", mc % "Truncate", what="Bug_Truncate", expect_violation="ReaderAgrees", count=False)
    ctx.tlc("NumFormat", mc % "CommaInDecimals", what="Bug_CommaInDecimals", expect_violation="ReaderAgrees", count=False)
    ctx.stage("format")
    from numbers_parser.currencies import CURRENCIES
    rng = random.Random(ctx.seed + 13)
    vals = values(rng, 300 if q else 6000)
    cases = []
    codes = sorted(CURRENCIES)
    target = 30000 if q else 500000
    while len(cases) < target:
        v = rng.choice(vals)
        k = rng.random()
        places = rng.choice([None, 0, 1, 2, 3, 4, 5, 6, 7, 8, 9, 10])
        if k < 0.3:
            f = {"kind": "dec", "places": places, "sep": rng.random() < 0.5, "neg": rng.randrange(4)}
        elif k < 0.45:
            acc = rng.random() < 0.4
            f = {"kind": "cur", "places": places if places is not None else 2, "sep": rng.random() < 0.5, "neg": 0 if acc else rng.randrange(4), "acc": acc, "code": rng.choice(codes)}
        elif k < 0.58:
            f = {"kind": "pct", "places": places, "sep": rng.random() < 0.5, "neg": rng.randrange(4)}
            if abs(v) >= 1e13:
                continue
        elif k < 0.68:
            f = {"kind": "sci", "places": rng.randrange(0, 11)}
        elif k < 0.83:
            base = rng.choice([2, 8, 10, 16, 36, rng.randint(2, 36)])
            minus = True if base not in (2, 8, 16) else rng.random() < 0.5
            f = {"kind": "base", "base": base, "places": rng.randrange(0, 9), "minus": minus}
            if abs(v) >= 2 ** 48:
                continue
        elif k < 0.97:
            acc = rng.choice([2, 4, 8, 16, 10, 100, 0xFFFFFFFD, 0xFFFFFFFE, 0xFFFFFFFF])
            f = {"kind": "frac" if acc < 1000 else "fracn", "acc": acc}
            if abs(v) >= 1e9:
                continue
        else:
            v = float(rng.randint(0, 5))
            f = {"kind": "rating"}
        cases.append((v, f))
    per = 2500
    jobs = [(i, cases[i * per:(i + 1) * per], ctx.scratch, i % 5 == 0) for i in range((len(cases) + per - 1) // per)]
    res = fixtures.pmap(job, jobs, ctx.workers)
    raw = [e for lst in res for e in lst]
    refused = [e for e in raw if "refused" in e]
    if refused:
        ctx.note("%d format requests refused by the API, e.g. %s %s" % (len(refused), json.dumps(refused[0]["fmt"]), refused[0]["refused"]))
    for e in raw:
        if "exc" in e:
            ctx.fail({"engine": "format", "clause": "raised", "kind": e["kind"], "exc": e["exc"].split(":")[0]}, "value %r format %s: %s" % (e["value"], json.dumps(e["fmt"]), e["exc"]),
                     {"value": e["value"], "fmt": e["fmt"]})
    ok = [e for e in raw if "text" in e]
    events = [to_event(e) for e in ok]
    ctx.evaluations += len(events)
    for e in ok:
        ctx.distinct.add((repr(e["value"]), json.dumps(e["fmt"], sort_keys=True)))
    for e in ok[:3]:
        ctx.sample({"value": e["cellvalue"], "format": e["fmt"], "displayed": e["text"]})
    ctx.stage("judge")
    judge(ctx, events, ok)
    ctx.stage("selftest")
    good = next(i for i, e in enumerate(ok) if e["kind"] == "dec" and e["fmt"]["places"] == 2 and e["text"] and e["text"][-1].isdigit())
    import copy
    b = copy.deepcopy(events[good])
    b["text"][-1] = 48 + (b["text"][-1] - 48 + 1) % 10
    saved = ctx.failures
    ctx.failures = []
    judge(ctx, [b], [ok[good]], count=False)
    n = len(ctx.failures)
    ctx.failures = saved
    if n != 1:
        raise Machinery("binding self-test: an altered last digit was accepted")
    ctx.extra["binding_selftest"] = "a displayed number with its last digit altered is rejected"


def replay(ctx, data):
    print(json.dumps(data["replay"])[:2000])
    return 0

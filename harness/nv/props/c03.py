"""C03 - any edit history leaves each table equal to a plain grid, before and after save.

spec/Workbook.tla (Level A plain-grid semantics + design properties), spec/GridImpl.tla (Level B: the
renumbering loops of add/delete row/column refine the plain grid), spec/Trace_Workbook.tla (judge)."""
import json
import os
import random
from datetime import timedelta

from .. import wb, wbcheck
from ..core import Machinery


def random_history(job):
    """An op sequence produced by a driver that is NOT derived from the spec: random walk over the real
    API on 1-2 documents, typed values all distinct, saves and reopens at random points."""
    (idx, seed, scratch, nhandles, steps, big) = job
    from datetime import datetime, timedelta
    rng = random.Random(seed)
    profile = wb.Profile(rng, tokens=())
    env = wb.Env(scratch, profile, nhandles, tag="r%d-%d" % (os.getpid(), idx))
    counter = [0]

    def fresh():
        counter[0] += 1
        k = counter[0]
        kind = rng.randrange(7)
        v = [k + 0.5, "s%d" % k, k, "ünï %d\n" % k, datetime(2001, 1, 1) + timedelta(seconds=k * 3601),
             timedelta(seconds=k, microseconds=k % 1000), bool(k % 2)][kind]
        if isinstance(v, bool) and rng.random() < 0.7:
            v = k * 1.25
        tok = wb.canon(v)
        profile.values[tok] = v
        profile.rev[tok] = tok
        return tok

    r0, c0 = (rng.randint(25, 28), rng.randint(25, 28)) if big else (rng.randint(1, 5), rng.randint(1, 5))
    env.newdoc(1, r0, c0)
    trace = {"init": env.project(), "ev": [], "profile": profile.describe(), "meta": {"seed": seed, "big": big}}
    files = ["f", "g"]
    saved = set()

    def do(op):
        out, res = env.apply(op)
        e = dict(op)
        e["out"] = out.split(":")[0] if out.startswith("Other") else out
        if out.startswith("Other"):
            e["exc"] = out
        e["post"] = env.project()
        trace["ev"].append(e)

    if big:
        tb = env.table(1, 1, 1)
        for r in range(1, r0 + 1):
            for c in range(1, c0 + 1):
                if rng.random() < 0.9:
                    tok = fresh()
                    tb.write(r - 1, c - 1, profile.values[tok])
        trace["init"] = env.project()
    for _ in range(steps):
        hs = [h for h in env.docs if env.docs[h] is not None]
        h = rng.choice(hs)
        d = env.docs[h]
        s = rng.randint(1, len(d.sheets))
        t = rng.randint(1, len(d.sheets[s - 1].tables))
        tb = env.table(h, s, t)
        nr, nc = tb.num_rows, tb.num_cols
        if nr < 1 or nc < 1:
            break             # the table reports an impossible size (already recorded by the last event): nothing sensible can follow
        k = rng.random()
        if k < 0.35:
            r = rng.randint(1, nr + (2 if rng.random() < 0.2 else 0))
            c = rng.randint(1, nc + (2 if rng.random() < 0.2 else 0))
            do({"op": "write", "h": h, "s": s, "t": t, "r": r, "c": c, "v": fresh()})
        elif k < 0.47:
            do({"op": "addrow", "h": h, "s": s, "t": t, "n": rng.choice([0, 1, 1, 1, 2, 2, 3, 3]), "at": rng.choice([0] + list(range(1, nr + 1))),
                "d": fresh() if rng.random() < 0.4 else "e"})
        elif k < 0.59:
            do({"op": "addcol", "h": h, "s": s, "t": t, "n": rng.choice([0, 1, 1, 1, 2, 2, 3, 3]), "at": rng.choice([0] + list(range(1, nc + 1))),
                "d": fresh() if rng.random() < 0.4 else "e"})
        elif k < 0.69 and nr > 1:
            n = rng.randint(0 if rng.random() < 0.12 else 1, min(3, nr - 1))
            at = rng.choice([0] + list(range(1, nr - n + 2)))
            if rng.random() < 0.15:
                at = rng.randint(1, nr)
                n = nr - at + 2                                           # one more than there are from `at` on: refused, nothing deleted
            do({"op": "delrow", "h": h, "s": s, "t": t, "n": n, "at": at})
        elif k < 0.79 and nc > 1:
            n = rng.randint(0 if rng.random() < 0.12 else 1, min(3, nc - 1))
            at = rng.choice([0] + list(range(1, nc - n + 2)))
            if rng.random() < 0.15:
                at = rng.randint(1, nc)
                n = nc - at + 2                                           # one more than there are from `at` on
            do({"op": "delcol", "h": h, "s": s, "t": t, "n": n, "at": at})
        elif k < 0.83 and len(d.sheets[s - 1].tables) < 3:
            nm = rng.choice(["AUTO", "T2", "T3", "X", "t1", "x"])
            do({"op": "addtable", "h": h, "s": s, "nm": nm, "nr": rng.randint(1, 4), "nc": rng.randint(1, 4)})
        elif k < 0.86 and len(d.sheets) < 3:
            nm = rng.choice(["AUTO", "T2", "T3", "X", "t1"])
            do({"op": "addsheet", "h": h, "nm": nm, "nr": rng.randint(1, 4), "nc": rng.randint(1, 4)})
        elif k < 0.88:
            do({"op": "renametable", "h": h, "s": s, "t": t, "nm": rng.choice(["T5", "T6", "X", "x", "T7"])})
        elif k < 0.94:
            f = rng.choice(files)
            do({"op": "save", "h": h, "f": f})
            saved.add(f)
        elif k < 0.98 and saved:
            do({"op": "open", "h": rng.randint(1, nhandles), "f": rng.choice(sorted(saved))})
        elif nhandles > 1 and any(env.docs[x] is None for x in env.docs):
            hh = [x for x in env.docs if env.docs[x] is None][0]
            do({"op": "newdoc", "h": hh, "nr": rng.randint(1, 2), "nc": rng.randint(1, 2)})
    import glob
    for f in glob.glob(env.path("*")):
        os.remove(f)
    return trace


def fixture_history(job):
    """a random edit history on a LOADED document (a shipped fixture): the plain-grid model starts from what the document shows"""
    (idx, path, seed, scratch, steps) = job
    import warnings
    warnings.simplefilter("ignore")
    from numbers_parser import Document
    rng = random.Random(seed)
    profile = wb.Profile(rng, tokens=())
    env = wb.Env(scratch, profile, 1, tag="fx%d-%d" % (os.getpid(), idx))
    counter = [0]

    def fresh():
        counter[0] += 1
        k = counter[0]
        v = [k + 0.25, "new %d" % k, k, timedelta(seconds=k)][rng.randrange(4)]
        tok = wb.canon(v)
        profile.values[tok] = v
        profile.rev[tok] = tok
        return tok
    try:
        env.docs[1] = Document(path)
        d = env.docs[1]
        ncells = sum(tb.num_rows * tb.num_cols for sh in d.sheets for tb in sh.tables)
        if ncells > 1500 or len(d.sheets) > 4:
            return None
        # only documents the library can write back unchanged are in the domain (C02 decides which those are)
        first = env.project()
        with warnings.catch_warnings(record=True) as caught:
            warnings.simplefilter("always")
            d.save(env.path("pre"))
        if any("pivot" in str(w.message).lower() for w in caught):
            return None          # the library says it does not write pivot tables: edits on such documents are outside the domain
        warnings.simplefilter("ignore")
        env.docs[1] = Document(env.path("pre"))
        if env.project() != first:
            return None
        env.docs[1] = Document(path)
        d = env.docs[1]
        plain = [(s + 1, t + 1) for s, sh in enumerate(d.sheets) for t, tb in enumerate(sh.tables)
                 if not tb.merge_ranges and tb.num_rows * tb.num_cols <= 400 and tb.num_rows >= 1 and tb.num_cols >= 1]
    except Exception:  # noqa: BLE001
        return None
    if not plain:
        return None
    trace = {"init": env.project(), "ev": [], "profile": profile.describe(), "meta": {"seed": seed, "fixture": os.path.basename(path)}}
    saved = False

    def do(op):
        out, res = env.apply(op)
        e = dict(op)
        e["out"] = out.split(":")[0] if out.startswith("Other") else out
        if out.startswith("Other"):
            e["exc"] = out
        e["post"] = env.project()
        trace["ev"].append(e)
    for _ in range(steps):
        s, t = rng.choice(plain)
        tb = env.table(1, s, t)
        nr, nc = tb.num_rows, tb.num_cols
        if nr < 1 or nc < 1:
            break
        k = rng.random()
        if k < 0.35:
            do({"op": "write", "h": 1, "s": s, "t": t, "r": rng.randint(1, nr + (1 if rng.random() < 0.2 else 0)), "c": rng.randint(1, nc + (1 if rng.random() < 0.2 else 0)), "v": fresh()})
        elif k < 0.47:
            do({"op": "addrow", "h": 1, "s": s, "t": t, "n": rng.randint(1, 2), "at": rng.choice([0] + list(range(1, nr + 1))), "d": fresh() if rng.random() < 0.4 else "e"})
        elif k < 0.59:
            do({"op": "addcol", "h": 1, "s": s, "t": t, "n": rng.randint(1, 2), "at": rng.choice([0] + list(range(1, nc + 1))), "d": fresh() if rng.random() < 0.4 else "e"})
        elif k < 0.68 and nr > 2:
            n = rng.randint(1, min(2, nr - 1))
            do({"op": "delrow", "h": 1, "s": s, "t": t, "n": n, "at": rng.choice([0] + list(range(1, nr - n + 2)))})
        elif k < 0.77 and nc > 2:
            n = rng.randint(1, min(2, nc - 1))
            do({"op": "delcol", "h": 1, "s": s, "t": t, "n": n, "at": rng.choice([0] + list(range(1, nc - n + 2)))})
        elif k < 0.9:
            do({"op": "save", "h": 1, "f": "f"})
            saved = True
        elif saved:
            do({"op": "open", "h": 1, "f": "f"})
        if trace["ev"] and trace["ev"][-1]["out"] not in ("ok", "IndexError"):
            break
    import glob
    for f in glob.glob(env.path("*")):
        if os.path.isdir(f):
            import shutil
            shutil.rmtree(f, ignore_errors=True)
        else:
            os.remove(f)
    return trace


def run(ctx):
    ctx.rule = ("histories = sequences of public calls; spec-generated ones are all bounded behaviours of Workbook.tla "
                "(maximal histories of the -dump, plus -simulate behaviours), recorded ones come from a random driver; "
                "distinct_nontrivial counts distinct op sequences (by JSON) containing at least one structural edit or save")
    ctx.assumptions = ["value tokens are instantiated with typed values drawn from a seeded pool (C01 decides value fidelity)",
                       "ops outside the documented domain (deleting all rows, start index out of range for delete) are not generated"]
    q = ctx.quick
    # 1. design-level model checking (hist hidden by VIEW)
    ctx.stage("model-check")
    ctx.tlc("Workbook", wbcheck.cfg(depth=5 if q else 6, maxr=2, maxc=2), what="MC_Workbook[1 doc, <=2x2, 2 tables]", timeout=3000)
    ctx.tlc("Workbook", wbcheck.cfg(handles=(1, 2), files=("f",), vals=("a",), names=("T1", "t1"), maxr=2, maxc=1, depth=5 if q else 6,
                                    counts=(1,), defaults=("e",), ops=["write", "addrow", "delrow", "addtable", "save", "open", "newdoc"]),
            what="MC_Workbook[2 docs, frame]", timeout=3000)
    ctx.tlc("Workbook", wbcheck.cfg(maxr=3, maxc=3, maxt=1, depth=4 if q else 6, names=("T1",),
                                    ops=["write", "addrow", "addcol", "delrow", "delcol", "save", "open"]),
            what="MC_Workbook[1 table, <=3x3]", timeout=3000)
    # 1b. Level B: the code-shaped renumbering refines the plain grid; its mutants are caught
    ctx.stage("level-B")
    ctx.tlc("GridImpl", "MC_GridImpl.cfg", what="MC_GridImpl (refinement of the plain grid)", timeout=1200)
    for bug, inv in (("RenumberFromNext", "CellPos"), ("DeleteNoRenumber", "CellPos"), ("ColsNotRenumbered", "CellPos"),
                     ("DefaultBeforeInsert", "RefinesGrid")):
        ctx.tlc("GridImpl", open(os.path.join(wbcheck_spec_dir(), "MC_GridImpl.cfg")).read().replace('Bug = "none"', 'Bug = "%s"' % bug),
                what="Bug_%s" % bug, expect_violation=inv, count=False, timeout=600)
    # 2. spec -> code: every bounded behaviour replayed, abstract state compared after every op
    ctx.stage("generate")
    gen = wbcheck.cfg(depth=3 if q else 4, maxr=3, maxc=3, maxt=2, view=False, props=False,
                      names=("t1", "T2"), ops=["write", "addrow", "addcol", "delrow", "delcol", "addtable", "save", "open"],
                      rowargs=[1, 3] if q else [1, 2, 3], colargs=[1, 3] if q else [1, 2, 3])
    hist, nstates = wbcheck.histories_from_dump(ctx, gen, "Gen_Workbook[dump]")
    ctx.extra["generated_histories_exhaustive"] = {"states_with_hist": nstates, "maximal_histories": len(hist)}
    simcfg = wbcheck.cfg(depth=14, maxr=5, maxc=5, maxt=2, maxs=2, view=False, props=False, names=("t1", "T2", "X"),
                         ops=["write", "addrow", "addcol", "delrow", "delcol", "addtable", "addsheet", "rename", "save", "open"],
                         handles=(1, 2), files=("f", "g"))
    sim = wbcheck.histories_from_simulation(ctx, simcfg + "", "Gen_Workbook[simulate]", 300 if q else 3000, 14, ctx.seed + 3)
    ctx.extra["generated_histories_simulated"] = len(sim)
    ctx.stage("replay")
    rng = random.Random(ctx.seed)
    if not q or len(hist) <= 2500:
        part = hist
    else:
        part = rng.sample(hist, 2500)
    traces = wbcheck.replay(ctx, part, dict(hdr=(0, 0)), label="dump")
    traces += wbcheck.replay(ctx, sim, dict(hdr=(1, 1)), nhandles=2, label="simulate")
    # counts of zero: inserting or deleting nothing, at the end or at an index, is a no-op of the plain grid
    zgen = wbcheck.cfg(depth=4, maxr=2, maxc=2, maxt=1, view=False, props=False, names=("T2",), counts=(0,),
                       ops=["write", "addrow", "addcol", "delrow", "delcol", "save", "open"])
    zhist, _ = wbcheck.histories_from_dump(ctx, zgen, "Gen_Workbook[zero counts]")
    zhist = [h for h in zhist if any(o["op"] in ("addrow", "addcol", "delrow", "delcol") for o in h[0])]
    ctx.extra["generated_histories_zero_counts"] = len(zhist)
    traces += wbcheck.replay(ctx, zhist if len(zhist) <= 1500 else rng.sample(zhist, 1500), dict(hdr=(0, 0)), label="zero")
    # boundary profiles: the same abstract histories embedded at tile / column-block boundaries (no default fill)
    bgen = wbcheck.cfg(depth=4, maxr=3, maxc=3, maxt=1, view=False, props=False, names=("T2",), defaults=("e",), counts=(1, 2),
                       ops=["write", "addrow", "addcol", "delrow", "delcol", "save", "open"], rowargs=[1, 2, 3], colargs=[1, 2, 3])
    bhist, _ = wbcheck.histories_from_dump(ctx, bgen, "Gen_Workbook[boundary]")
    # histories that write, save and open again are the ones a boundary can hurt: they come first
    def round_trip(h):
        ops = [o["op"] for o in h[0]]
        return "write" in ops and "save" in ops and "open" in ops and ops.index("write") < ops.index("save") < len(ops) - 1 - ops[::-1].index("open")
    # (a deletion refused in the abstract table - start or count outside it - is not refused once the table is embedded behind
    # 254 leading rows / columns: such histories make no sense under a boundary profile)
    bhist = [h for h in bhist if not any(o["op"] in ("delrow", "delcol") and o["out"] == "IndexError" for o in h[0])]
    brt = [h for h in bhist if round_trip(h)]
    rest = [h for h in bhist if not round_trip(h)]
    nb = 60 if q else 600
    bsel = rng.sample(brt, min(len(brt), nb * 2 // 3))
    bsel += rng.sample(rest, min(len(rest), nb - len(bsel)))
    btraces = []
    for (ro, co) in ((254, 0), (0, 254)) if q else ((254, 0), (255, 0), (0, 254), (0, 255), (510, 0), (254, 254)):
        btraces += wbcheck.replay(ctx, bsel, dict(row_off=ro, col_off=co, hdr=(1, 1)), label="boundary-%d-%d" % (ro, co))
    for h, _ in part[:2]:
        ctx.sample({"history": [{k: v for k, v in o.items()} for o in h]})
    ctx.stage("validate-generated")
    for t in traces + btraces:
        if t:
            key = json.dumps([{k: v for k, v in e.items() if k not in ("post",)} for e in t["ev"]], sort_keys=True)
            if any(e["op"] not in ("write",) for e in t["ev"]):
                ctx.distinct.add(hash(key))
    wbcheck.validate(ctx, [t for t in traces if t and len(t["init"]) == 1], nhandles=1, label="dump")
    wbcheck.validate(ctx, [t for t in traces if t and len(t["init"]) == 2], nhandles=2, files=("f", "g"), label="simulate")
    wbcheck.validate(ctx, btraces, nhandles=1, label="boundary")
    # 3. code -> spec: random long histories from a driver not derived from the spec
    ctx.stage("record-random")
    from ..fixtures import pmap
    n_small, n_big = (60, 4) if q else (600, 40)
    jobs = [(i, ctx.seed * 7 + i, ctx.scratch, 2, 60 if q else 120, False) for i in range(n_small)]
    jobs += [(1000 + i, ctx.seed * 11 + i, ctx.scratch, 1, 40 if q else 80, True) for i in range(n_big)]
    rtraces = pmap(random_history, jobs, ctx.workers)
    ctx.evaluations += len(rtraces)
    for t in rtraces:
        ctx.distinct.add(hash(json.dumps([{k: v for k, v in e.items() if k != "post"} for e in t["ev"]], sort_keys=True)))
    ctx.sample({"random_history_ops": [e["op"] for e in rtraces[0]["ev"]][:30]})
    ctx.stage("validate-random")
    wbcheck.validate(ctx, rtraces[:n_small], nhandles=2, files=("f", "g"), label="random", batch=100)
    wbcheck.validate(ctx, rtraces[n_small:], nhandles=1, files=("f", "g"), label="random-big", batch=10)
    # 3b. the same driver on LOADED documents: every shipped fixture the library can write back unchanged
    ctx.stage("record-fixtures")
    from .. import fixtures
    fx = fixtures.readable_fixtures(ctx.workers)
    if q:
        fx = fx[::3]
    fjobs = [(i, p, ctx.seed * 13 + i, ctx.scratch, 8 if q else 14) for i, p in enumerate(fx)]
    if not q:
        fjobs += [(1000 + i, p, ctx.seed * 17 + i, ctx.scratch, 14) for i, p in enumerate(fx)]
    ftraces = [t for t in pmap(fixture_history, fjobs, ctx.workers) if t is not None]
    ctx.evaluations += len(ftraces)
    for t in ftraces:
        ctx.distinct.add(("fx", t["meta"]["fixture"], hash(json.dumps([{k: v for k, v in e.items() if k != "post"} for e in t["ev"]], sort_keys=True))))
    ctx.extra["fixture_histories"] = {"documents_tried": len(fx), "histories": len(ftraces)}
    ctx.stage("validate-fixtures")
    wbcheck.validate(ctx, ftraces, nhandles=1, files=("f", "g"), label="fixtures", batch=5)
    # 4. binding self-test
    ctx.stage("selftest")
    wbcheck.selftest(ctx)


def wbcheck_spec_dir():
    from .. import tlc
    return tlc.SPEC_DIR


def replay(ctx, data):
    r = data["replay"]
    prof = r.get("prof_kw") or {}
    rng = random.Random(0)
    p = wb.Profile(rng, **prof)
    ops = r["ops"]
    for k, v in (r.get("profile") or {}).get("values", {}).items():
        pass
    trace, env = wb.run_history(ctx.scratch, p, [o for o in ops if o["op"] not in ()], nhandles=r.get("nhandles", 1))
    for e in trace["ev"]:
        print({k: v for k, v in e.items() if k != "post"}, "->", json.dumps(wb.dense(e["post"]))[:300])
    return 0

"""C05 - IWA archive decoding and encoding are mutually inverse and chunking-independent.

spec/IWAFrame.tla (streams, chunks, cuts; encoder/decoder loops), spec/Trace_IWAFrame.tla (judge)."""
import json
import os
import random
import re
import warnings

from .. import fixtures, iwa
from ..core import Machinery

INV = ["RoundTrip", "ChunkRules", "DataComplete", "ChunkingIndependent"]


def cfg(chunk=4, segs=2, msgs=2, mlen=2, bug="none", emit=False, empties=False):
    return ("CONSTANTS CHUNK = %d\nMaxSegs = %d\nMaxMsgs = %d\nMaxLen = %d\nBug = \"%s\"\nEmpties = %s\nSPECIFICATION Spec\n%s%sCHECK_DEADLOCK FALSE\n"
            % (chunk, segs, msgs, mlen, bug, "TRUE" if empties else "FALSE", "".join("INVARIANT %s\n" % i for i in INV), "INVARIANT Emit\n" if emit else ""))


def member_event(name, data):
    """decode and re-encode one member with the library; observe both sides with the harness's own reader"""
    from numbers_parser.iwafile import IWAFile
    ev = {"n": name, "exc": "", "src": [], "dec": [], "out": [], "chunks": [], "decl": [], "actual": [], "outlen": 0}
    try:
        src_stream = iwa.stream_of(data)
        src = iwa.walk_segments(src_stream)
    except Exception:  # noqa: BLE001
        return None           # not a well-formed member by the harness's reader: outside the quantifier
    ev["src"] = [iwa.seg_digest(h, m) for h, m, _ in src]
    try:
        f = IWAFile.from_buffer(data, name)
        for ch in f.chunks:
            for seg in ch.archives:
                ev["dec"].append(iwa.seg_digest(seg.header.SerializeToString(), [o.SerializeToString() for o in seg.objects]))
        out = f.to_buffer()
        chunks = iwa.read_chunks(out)
        stream = b""
        for marker, ln, payload in chunks:
            d, stored = iwa.chunk_data(payload)
            ev["chunks"].append([marker, ln, len(payload), len(d)])
            stream += d
        segs = iwa.walk_segments(stream)
        ev["out"] = [iwa.seg_digest(h, m) for h, m, _ in segs]
        ev["decl"] = [d for _, _, d in segs]
        ev["actual"] = [[len(x) for x in m] for _, m, _ in segs]
        ev["outlen"] = len(stream)
    except Exception as e:  # noqa: BLE001
        ev["exc"] = "%s:%s" % (type(e).__name__, str(e)[:80])
    return ev


def fixture_job(path):
    warnings.simplefilter("ignore")
    out = []
    try:
        members = fixtures.iwa_members(path)
    except Exception:  # noqa: BLE001
        return out
    for name, data in members:
        ev = member_event(os.path.basename(path) + ":" + name, data)
        if ev is not None:
            ev["size"] = len(data)
            out.append(ev)
    return out


def generated_docs(scratch, n, seed):
    """documents produced through the editing API (their members are part of the quantifier)"""
    warnings.simplefilter("ignore")
    from datetime import datetime, timedelta
    from numbers_parser import Document
    rng = random.Random(seed)
    paths = []
    for i in range(n):
        doc = Document(num_rows=rng.randint(1, 40), num_cols=rng.randint(1, 12))
        tb = doc.sheets[0].tables[0]
        for _ in range(rng.randint(5, 400)):
            v = rng.choice([round(rng.random() * 1000, 4), "text %d" % rng.randint(0, 50), True, datetime(2020, 1, 1) + timedelta(hours=rng.randint(0, 9999)),
                            timedelta(seconds=rng.randint(0, 99999)), rng.randint(-5000, 5000)])
            tb.write(rng.randint(0, 299) if i % 3 == 0 else rng.randint(0, 30), rng.randint(0, 11), v)
        if i % 2:
            doc.add_sheet("Second")
            doc.sheets[1].add_table("Extra", num_rows=3, num_cols=3)
        if i % 4 == 0:
            big = "long text " * 2000
            for r in range(12):
                tb.write(r, 0, big + str(r))
        p = os.path.join(scratch, "gen-%d.numbers" % i)
        doc.save(p)
        paths.append(p)
    return paths


def synth_segments(rng, msg_sizes_per_segment, base_id, noise=False):
    """real segments: real ArchiveInfo headers and real messages padded with an unknown field to the requested size"""
    from numbers_parser.generated import TSTArchives_pb2 as TST
    from numbers_parser.generated.mapping import NAME_ID_MAP
    from numbers_parser.generated.TSPArchiveMessages_pb2 import ArchiveInfo
    tid = NAME_ID_MAP["TST.HeaderStorageBucket"]
    stream = b""
    segs = []
    for s, sizes in enumerate(msg_sizes_per_segment):
        info = ArchiveInfo(identifier=base_id + s)
        msgs = []
        for size in sizes:
            m = TST.HeaderStorageBucket(bucketHashFunction=1)
            m.headers.add(index=s, numberOfCells=3, size=20.0, hidingState=0)
            raw = m.SerializeToString()
            pad = size - len(raw)
            if pad >= 4:
                # unknown field 1000, wire type 2 (length-delimited), payload random bytes
                body_len = pad - 2 - len(iwa.varint(pad))      # tag is 2 bytes (1000 << 3 | 2 = 8002 -> 0xC2 0x3E)
                while 2 + len(iwa.varint(body_len)) + body_len < pad:
                    body_len += 1
                while 2 + len(iwa.varint(body_len)) + body_len > pad:
                    body_len -= 1
                # noise: incompressible padding, so that a compressed chunk is as long as its data (a reader meets payloads >= 64 KiB)
                raw += b"\xc2\x3e" + iwa.varint(body_len) + (rng.randbytes(body_len) if noise else bytes(rng.getrandbits(8) for _ in range(min(body_len, 64))) + bytes(max(0, body_len - 64)))
            mi = info.message_infos.add(type=tid, length=len(raw))
            mi.version.extend([1, 0, 5])
            msgs.append(raw)
        hdr = info.SerializeToString()
        stream += iwa.varint(len(hdr)) + hdr + b"".join(msgs)
        segs.append((hdr, msgs))
    return stream, segs


def header_sized_segment(L, ident):
    """one real segment whose ArchiveInfo header is exactly L bytes long (object references of one- and two-byte varints fill it up)"""
    from numbers_parser.generated import TSTArchives_pb2 as TST
    from numbers_parser.generated.mapping import NAME_ID_MAP
    from numbers_parser.generated.TSPArchiveMessages_pb2 import ArchiveInfo
    m = TST.HeaderStorageBucket(bucketHashFunction=1)
    m.headers.add(index=1, numberOfCells=3, size=20.0, hidingState=0)
    raw = m.SerializeToString()

    def build(k, wide):
        info = ArchiveInfo(identifier=ident)
        mi = info.message_infos.add(type=NAME_ID_MAP["TST.HeaderStorageBucket"], length=len(raw))
        mi.version.extend([1, 0, 5])
        mi.object_references.extend([300] * wide + [1] * (k - wide))
        return info.SerializeToString()
    lo, hi = 0, L
    while lo < hi:                       # sizes grow with the number of references: bisect to the neighbourhood, then search exactly
        mid = (lo + hi) // 2
        if len(build(mid, 0)) < L:
            lo = mid + 1
        else:
            hi = mid
    for k in range(max(0, lo - 6), lo + 2):
        for wide in range(0, min(k, 5) + 1):
            hdr = build(k, wide)
            if len(hdr) == L:
                return iwa.varint(L) + hdr + raw
    return None


def class_pair():
    """two real message classes with fully initialised sample payloads such that decoding a payload with the OTHER class and
    re-encoding it silently changes the bytes (known fields first, unknown fields last) - checked here, not assumed"""
    from google.protobuf.descriptor import FieldDescriptor as FD
    from numbers_parser.generated.mapping import ID_NAME_MAP

    def sample(k):
        m = k()
        n = 0
        for f in m.DESCRIPTOR.fields:
            if getattr(f, "is_repeated", False):
                continue
            try:
                if f.cpp_type in (FD.CPPTYPE_INT32, FD.CPPTYPE_INT64, FD.CPPTYPE_UINT32, FD.CPPTYPE_UINT64):
                    setattr(m, f.name, 7 + n)
                elif f.cpp_type == FD.CPPTYPE_BOOL:
                    setattr(m, f.name, True)
                elif f.cpp_type == FD.CPPTYPE_STRING:
                    setattr(m, f.name, "s%d" % n if f.type == FD.TYPE_STRING else b"b")
                elif f.cpp_type in (FD.CPPTYPE_FLOAT, FD.CPPTYPE_DOUBLE):
                    setattr(m, f.name, 1.5)
                else:
                    continue
                n += 1
            except Exception:  # noqa: BLE001
                continue
        return m.SerializeToString() if n >= 2 and m.IsInitialized() else None

    def via(k, pl):
        try:
            return k.FromString(pl).SerializePartialToString()
        except Exception:  # noqa: BLE001
            return None
    want = [(200, 201)] + [(a, b) for a in sorted(ID_NAME_MAP) for b in sorted(ID_NAME_MAP) if a < b]
    for a, b in want:
        try:
            pa, pb = sample(ID_NAME_MAP[a]), sample(ID_NAME_MAP[b])
        except Exception:  # noqa: BLE001
            continue
        if pa and pb and via(ID_NAME_MAP[a], pa) == pa and via(ID_NAME_MAP[b], pb) == pb:
            x, y = via(ID_NAME_MAP[b], pa), via(ID_NAME_MAP[a], pb)
            if x is not None and y is not None and x != pa and y != pb:
                return {1: (a, pa), 2: (b, pb)}
    raise Machinery("no pair of message classes found whose payloads change under the other class")


def message_segment(merge, msgs, pair, ident):
    """IWAMessages.tla state -> the bytes of one real segment: header (ArchiveInfo with should_merge, message types, patch base
    indices, lengths) followed by the payloads"""
    from numbers_parser.generated.TSPArchiveMessages_pb2 import ArchiveInfo
    info = ArchiveInfo(identifier=ident)
    if merge:
        info.should_merge = True
    payloads = []
    for (t, base) in msgs:
        if t == 0:
            (_, pl) = pair[msgs[base - 1][0]]
            mi = info.message_infos.add(type=0, length=len(pl), base_message_index=base - 1)
        else:
            (tid, pl) = pair[t]
            mi = info.message_infos.add(type=tid, length=len(pl))
        mi.version.extend([1, 0, 5])
        payloads.append(pl)
    hdr = info.SerializeToString()
    return iwa.varint(len(hdr)) + hdr + b"".join(payloads)


def run(ctx):
    warnings.simplefilter("ignore")
    from numbers_parser.iwafile import IWAFile
    q = ctx.quick
    ctx.rule = ("every IWA member of the fixtures / template / API-generated documents is one event (decode, re-encode, both sides read by "
                "the harness's own framing code); synthetic archives of generated size are framed at cuts taken from TLC's enumeration of "
                "compositions; distinct_nontrivial = distinct members (by content digest) + distinct (stream shape, cuts, stored flags) cases")
    ctx.assumptions = ["snappy and protobuf are trusted codecs: observed only through lengths and SHA-256 digests of exact bytes",
                       "the encoder's own choice of chunk boundaries is not constrained beyond the container rules"]
    ctx.stage("model-check")
    res = ctx.tlc("IWAFrame", cfg(4, 2, 2, 2), what="MC_IWAFrame[CHUNK=4, <=2 segs x <=2 msgs, all re-chunkings]", timeout=3000)
    if res.violated:
        raise Machinery("IWAFrame.tla violates %s" % res.violated)
    ctx.tlc("IWAFrame", cfg(4, 2, 1, 2, empties=True), what="MC_IWAFrame[re-chunkings with an empty chunk anywhere]", timeout=3000)
    for bug, inv in (("StaleLength", "RoundTrip"), ("LenField2Bytes", True), ("Boundary", "ChunkRules"), ("DecLen2Bytes", True),
                     ("EmptyChunkEndsStream", "ChunkingIndependent")):
        ctx.tlc("IWAFrame", cfg(4, 1, 2, 2, bug=bug, empties=(bug == "EmptyChunkEndsStream")), what="Bug_%s" % bug, expect_violation=inv, count=False)
    # ---- spec -> code: synthetic archives, framed by the harness at TLC's cuts, decoded by the library
    ctx.stage("synthetic")
    rng = random.Random(ctx.seed + 5)
    comps = []

    def handle(line):
        m = re.match(r'^"C (\d+) <<([\d, ]*)>>"$', line)
        if m:
            comps.append((int(m.group(1)), [int(x) for x in m.group(2).split(",")] if m.group(2).strip() else []))
            return True
        return False
    gen = cfg(4, 1, 1, 3, emit=True).replace("INVARIANT Emit", "INVARIANT EmitCuts")
    ctx.tlc("IWAFrame", gen, what="Gen_IWAFrame[compositions]", stream_to=handle, timeout=600)
    comps = sorted(set((t, tuple(c)) for t, c in comps if c))
    ctx.extra["tlc_compositions"] = len(comps)
    CH = 65536
    shapes = [[[0]], [[1]], [[CH - 40]], [[CH - 1]], [[CH]], [[CH + 1]], [[2 * CH - 1]], [[2 * CH]], [[2 * CH + 1]], [[3 * CH + 17]],
              [[10] * 1] * 40, [[100, 0, 70000]], [[CH, CH], [5], [CH - 1, 1]], [[30000, 30000, 30000, 30000]], [[]], [[], [7]]]
    # streams whose TOTAL length is an exact multiple of the chunk size (and one byte around it): message sizes are adjusted
    # until the serialised stream (varint + header + messages) has exactly the requested length
    def exact(total, nseg):
        sizes = [[max(8, total // nseg - 40)] for _ in range(nseg)]
        for _ in range(12):
            st, _ = synth_segments(random.Random(1), sizes, 5000)
            d = total - len(st)
            if d == 0:
                return sizes
            sizes[-1][0] += d
        return None
    for total in (CH, 2 * CH, 3 * CH, CH - 1, CH + 1, 2 * CH - 1, 2 * CH + 1):
        for nseg in (1, 19):
            sz = exact(total, nseg)
            if sz is not None:
                shapes.append(sz)
    # incompressible streams (marked by a leading "noise"): their compressed chunks are as long as the data they hold
    shapes += [["noise", [150000]], ["noise", [70000], [70000]], ["noise", [65536 + 40]]]
    ncase = 0
    for shp in shapes:
        noise = bool(shp) and shp[0] == "noise"
        if noise:
            shp = shp[1:]
        stream, segs = synth_segments(rng, shp, 5000, noise=noise)
        want = [iwa.seg_digest(h, m) for h, m in segs]
        T = len(stream)
        cutsets = [[min(CH, T - i) for i in range(0, T, CH)]] if T else [[]]
        use = comps if not q else rng.sample(comps, min(len(comps), 6))
        for (tabs, comp) in use:
            # scale the composition of tabs units (each part <= 4 units) to the real length, then perturb cut points by -1/0/+1
            if T == 0:
                continue
            pts = []
            acc = 0
            for c in comp[:-1]:
                acc += c
                pts.append(min(T - 1, max(1, round(acc * T / tabs) + rng.choice([-1, 0, 1]))))
            pts = sorted(set(pts))
            sizes = [b - a for a, b in zip([0] + pts, pts + [T])]
            fixed = []
            for s, part in zip(sizes, comp):
                # a piece that is larger than CHUNK in the model stays in one piece (readers accept chunks beyond 64 KiB: the length
                # field has three bytes); the others are cut down to what a writer may emit
                while s > CH and part <= 4:
                    fixed.append(CH)
                    s -= CH
                if s:
                    fixed.append(s)
            cutsets.append(fixed)
        if T:
            cutsets.append([1] * min(T, 50) + ([T - 50] if T > 50 and T - 50 <= CH else [min(CH, T - 50 - i) for i in range(0, max(0, T - 50), CH)] if T > 50 else []))
        if T:
            # coinciding cut points: an empty chunk at the start, between two segments' worth of data, in the middle of the stream
            # (stored: length field 0 and no payload; compressed: the one-byte snappy block of nothing)
            half = min(CH, T // 2) or T
            rest = [min(CH, T - half - i) for i in range(0, T - half, CH)]
            cutsets.append([0] + [half] + rest)
            cutsets.append([half, 0] + rest)
            if len(rest) >= 1:
                cutsets.append([half] + rest[:1] + [0, 0] + rest[1:])
        if CH < T < 2 ** 24:
            cutsets.append([T])                       # the whole stream as one chunk
            cutsets.append([T - CH // 2, CH // 2])
        for cuts in cutsets:
            if sum(cuts) != T or any(c >= 2 ** 24 or c < 0 for c in cuts):
                continue
            for stored_mode in (0, 1, 2):
                stored = set() if stored_mode == 0 else (set(range(len(cuts))) if stored_mode == 1 else {k for k in range(len(cuts)) if rng.random() < 0.5})
                ncase += 1
                ctx.evaluations += 1
                ctx.distinct.add(("syn", json.dumps(shp), tuple(cuts), tuple(sorted(stored))))
                framed = iwa.frame(stream, cuts, stored)
                if iwa.stream_of(framed) != stream:
                    raise Machinery("synthetic framing: the harness's own reader does not reproduce its stream")
                key = {"engine": "synthetic", "shape": json.dumps(shp)[:60]}
                try:
                    f = IWAFile.from_buffer(framed, "synthetic")
                    got = [iwa.seg_digest(seg.header.SerializeToString(), [o.SerializeToString() for o in seg.objects]) for ch in f.chunks for seg in ch.archives]
                except Exception as e:  # noqa: BLE001
                    ctx.fail(dict(key, clause="decode.exception", exc=type(e).__name__), "stream %s cuts %s stored %s: %s" % (shp, cuts[:8], sorted(stored)[:8], e),
                             {"shape": shp, "cuts": cuts, "stored": sorted(stored)})
                    continue
                if got != want:
                    ctx.fail(dict(key, clause="decode-differs"), "stream %s cuts %s (stored %s): decoded segments differ from the original" % (shp, cuts[:8], sorted(stored)[:8]),
                             {"shape": shp, "cuts": cuts, "stored": sorted(stored)})
                    continue
                ev = member_event("synthetic", framed)
                ev["size"] = len(framed)
                syn_events.append(ev)
        if ncase % 7 == 0:
            ctx.sample({"synthetic_stream_message_sizes": shp, "stream_bytes": T, "example_cuts": cutsets[-1][:6]})
    ctx.extra["synthetic_cases"] = ncase
    # ---- the varint in front of every segment (Varint.tla): every carry pattern of the model as a real header length
    ctx.stage("varint")
    vcfg = 'CONSTANTS B = 4\nMaxN = 63\nBug = "%s"\nSPECIFICATION Spec\nINVARIANT RoundTrip\nINVARIANT Minimal\nINVARIANT Framed\n%sCHECK_DEADLOCK FALSE\n'
    vectors = []

    def vhandle(line):
        m = re.match(r'^"N (\d+) <<([\d, ]*)>>"$', line)
        if m:
            vectors.append((int(m.group(1)), [int(x) for x in m.group(2).split(",")]))
            return True
        return False
    ctx.tlc("Varint", vcfg % ("none", "INVARIANT Emit\n"), what="MC_Varint", stream_to=vhandle, timeout=300)
    ctx.tlc("Varint", vcfg % ("StopOneLate", ""), what="Bug_StopOneLate", expect_violation=True, count=False)
    real_digit = {0: 0, 1: 1, 2: 64, 3: 127}
    lengths = sorted({sum(real_digit[d] * 128 ** i for i, d in enumerate(ds)) for _, ds in vectors})
    lengths = [L for L in lengths if 16 <= L <= 40000]
    lengths = sorted(set(lengths + [126, 127, 128, 129, 130, 255, 256, 16383, 16384, 16385, 16511, 16512]))
    if q:
        keep = {127, 128, 129, 16383, 16384, 16385, 16511, 16512}
        lengths = [L for L in lengths if L in keep] + rng.sample([L for L in lengths if L not in keep], 6)
    built = 0
    for L in lengths:
        seg = header_sized_segment(L, 7000 + built)
        if seg is None:
            continue
        built += 1
        tail, _ = synth_segments(rng, [[12]], 7900)
        for stream in (seg, seg + tail, tail + seg):
            T = len(stream)
            framed = iwa.frame(stream, [min(65536, T - i) for i in range(0, T, 65536)], set())
            ctx.evaluations += 1
            ctx.distinct.add(("varint", L, T))
            ev = member_event("synthetic", framed)
            if ev is None:
                raise Machinery("varint stage: the harness's own reader does not read its archive")
            ev["size"] = len(framed)
            syn_events.append(ev)
    ctx.extra["varint_header_lengths"] = {"model_values": len(vectors), "real_header_lengths": built}
    # ---- message classes: every segment of IWAMessages.tla (regular messages of two classes, patches with every legal base) as a real archive
    ctx.stage("messages")
    segstates = []

    def h_seg(line):
        m = re.match(r'^"G (TRUE|FALSE) <<(.*)>>"$', line)
        if m:
            segstates.append((m.group(1) == "TRUE", [(int(a), int(b)) for a, b in re.findall(r"<<(\d+), (\d+)>>", m.group(2))]))
            return True
        return False
    mcfg = 'CONSTANTS Types = {1, 2}\nMaxMsgs = %d\nBug = "%s"\nSPECIFICATION Spec\nINVARIANT BytesReproduced\n%sCHECK_DEADLOCK FALSE\n'
    ctx.tlc("IWAMessages", mcfg % (4, "none", "INVARIANT EmitSegment\n"), what="MC_IWAMessages[<=4 messages, 2 classes, patches]", stream_to=h_seg, timeout=600)
    for bug in ("PatchBaseFirst", "PatchLikeBasePosition"):
        ctx.tlc("IWAMessages", mcfg % (3, bug, ""), what="Bug_" + bug, expect_violation="BytesReproduced", count=False)
    segstates = sorted(set((mg, tuple(ms)) for mg, ms in segstates))
    if len(segstates) < 100:
        raise Machinery("only %d segment states parsed" % len(segstates))
    pair = class_pair()
    ctx.extra["message_class_cases"] = {"segments_from_tlc": len(segstates), "classes": [pair[1][0], pair[2][0]]}
    for n, (mg, ms) in enumerate(segstates):
        # the segment alone, and between two plain segments
        plain, _ = synth_segments(rng, [[30]], 9000 + 3 * n)
        plain2, _ = synth_segments(rng, [[12, 40]], 9001 + 3 * n)
        for stream in (message_segment(mg, ms, pair, 9002 + 3 * n), plain + message_segment(mg, ms, pair, 9002 + 3 * n) + plain2):
            T = len(stream)
            for cuts, stored in (([T], set()), ([T], {0}), ([T // 2, T - T // 2], {1})):
                framed = iwa.frame(stream, cuts, stored)
                ctx.evaluations += 1
                ctx.distinct.add(("msg", mg, ms, len(stream), tuple(cuts), tuple(sorted(stored))))
                ev = member_event("segment merge=%s messages(type, base)=%s" % (mg, list(ms)), framed)
                if ev is None:
                    raise Machinery("message segment not readable by the harness's own reader: %s %s" % (mg, ms))
                ev["size"] = len(framed)
                syn_events.append(ev)
    ctx.sample({"segment": {"should_merge": segstates[len(segstates) // 2][0], "messages_type_base": list(segstates[len(segstates) // 2][1])}})
    # stale declared lengths: grow a decoded object, encode, the header must declare the new size
    stream, segs = synth_segments(rng, [[50, 60], [70]], 7000)
    f = IWAFile.from_buffer(iwa.frame(stream, [len(stream)]), "stale")
    f.chunks[0].archives[0].objects[1].headers.add(index=99, numberOfCells=1, size=1.0, hidingState=0)
    out = f.to_buffer()
    segs2 = iwa.walk_segments(iwa.stream_of(out))
    ctx.evaluations += 1
    if [d for _, _, d in segs2] != [[len(x) for x in m] for _, m, _ in segs2] or len(segs2) != 2:
        ctx.fail({"engine": "synthetic", "clause": "header-length"}, "declared lengths %s, actual %s after growing an object" %
                 ([d for _, _, d in segs2], [[len(x) for x in m] for _, m, _ in segs2]), {})
    # ---- code -> spec: every member of fixtures, template, generated documents
    ctx.stage("members")
    paths = fixtures.all_numbers_files() + [fixtures.TEMPLATE]
    if q:
        paths = paths[::4] + [fixtures.TEMPLATE]
    paths += generated_docs(ctx.scratch, 4 if q else 40, ctx.seed)
    res = fixtures.pmap(fixture_job, paths, ctx.workers)
    events = [e for lst in res for e in lst] + syn_events
    ctx.extra["members"] = {"documents": len(paths), "members": len(events), "over_64KiB": sum(1 for e in events if e["size"] > 65536)}
    ctx.evaluations += len(events)
    for e in events:
        ctx.distinct.add(("m", json.dumps(e["src"])[:2000], e["size"]))
    ctx.sample({"member": events[0]["n"], "segments": len(events[0]["src"]), "chunks": events[0]["chunks"][:3]})
    judge(ctx, events)
    ctx.stage("selftest")
    import copy
    good = next(e for e in events if e["src"] and e["chunks"])
    b1 = copy.deepcopy(good)
    b1["out"][0][0] += 1
    b2 = copy.deepcopy(good)
    b2["chunks"][0][1] += 1
    b3 = copy.deepcopy(good)
    b3["dec"] = b3["dec"][1:]
    saved = ctx.failures
    ctx.failures = []
    judge(ctx, [b1, b2, b3], count=False)
    got = sorted(f[0]["clause"] for f in ctx.failures)
    ctx.failures = saved
    if got != ["chunk-rule", "decode-differs", "encode-differs"]:
        raise Machinery("binding self-test: corrupted events judged %s" % got)
    ctx.extra["binding_selftest"] = "altered output digest, altered length field, dropped decoded segment all rejected"


syn_events = []


def judge(ctx, events, count=True):
    B = 4000
    for b0 in range(0, len(events), B):
        part = events[b0:b0 + B]
        path = os.path.join(ctx.scratch, "iwa-%d.ndjson" % b0)
        with open(path, "w") as fh:
            for e in part:
                fh.write(json.dumps({k: v for k, v in e.items() if k not in ("n", "size")}) + "\n")
        res = ctx.tlc("Trace_IWAFrame", "Trace_IWAFrame.cfg", what="Trace_IWAFrame[%d]" % b0, env={"TRACE_FILE": path}, timeout=3000, count=count)
        os.remove(path)
        seen = {int(m.group(1)): m.group(2) for m in re.finditer(r'^"V (\d+) ([\w-]+)"$', res.out, re.M)}
        if len(seen) != len(part):
            raise Machinery("Trace_IWAFrame: %d verdicts for %d events\n%s" % (len(seen), len(part), res.out[-1500:]))
        if count:
            ctx.traces += len(part)
        for tid, v in seen.items():
            if v != "ok":
                e = part[tid - 1]
                ctx.fail({"engine": "trace", "clause": v, "exc": e["exc"].split(":")[0]}, "member %s (%d bytes): %s %s" % (e["n"], e.get("size", 0), v, e["exc"]),
                         {"member": e["n"]})


def replay(ctx, data):
    print(json.dumps(data["replay"])[:2000])
    return 0

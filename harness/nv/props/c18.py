"""C18 - formula tokenizer is lossless, total, and accepts every formula the reader emits.

spec/Tokenizer.tla (scanner model, Level A invariants), spec/Trace_Tokenizer.tla (judge).
"""
import json
import os
import random
import warnings
import re

from .. import fixtures
from ..core import Machinery

FULL = ["a", "E", "0", "1", ".", " ", "+", "-", "*", "/", "^", "&", "=", "<", ">", "%", "x", "g",
        "(", ")", "{", "}", ",", ";", "Q", "'", ":", "$", "#", "!"]
CORE = ["(", ")", "{", "}", "Q", "'", "+", "a", "1", "E", ",", ":"]
QUOTE = ["Q", "'", ":", " ", "a", "(", ")", ","]
VARIANTS = {
    "a": ["a", "b", "Z", "é", "_", "?"], "1": ["1", "2", "9", "5"], "x": ["×", "÷"], "g": ["≥", "≤", "≠"],
    "Q": ['"'], " ": [" "], "#": ["#"],
}
ERRCODES = ["#REF!", "#NULL!", "#DIV/0!", "#VALUE!", "#NAME?", "#NUM!", "#N/A"]
INV = ["LosslessInv", "LosslessDone", "Total", "NoQuotedSplit"]
LINE = re.compile(r'^<<"([^"]*)", "(\w+)", "([^"]*)">>$')


def cfg(alphabet, L, bug="none", emit=False):
    return ("CONSTANTS Alphabet = {%s}\nL = %d\nBug = \"%s\"\nSPECIFICATION Spec\n%s%sCHECK_DEADLOCK FALSE\n"
            % (", ".join('"%s"' % c for c in alphabet), L, bug,
               "".join("INVARIANT %s\n" % i for i in INV), "INVARIANT Emit\n" if emit else ""))


def concretize(classes, variant, rng=None):
    """class string -> (concrete text, list of concrete piece per class position)."""
    pieces = []
    i = 0
    n = len(classes)
    while i < n:
        c = classes[i]
        if c == "#" and i + 1 < n and classes[i + 1] == "!":
            code = ERRCODES[variant % len(ERRCODES)] if variant else "#REF!"
            pieces.append(code)
            pieces.append("")
            i += 2
            continue
        v = VARIANTS.get(c)
        if v is None:
            pieces.append(c)
        elif variant == 0:
            pieces.append(v[0])
        else:
            pieces.append(rng.choice(v))
        i += 1
    return "".join(pieces), pieces


def classify(text):
    """concrete text -> (class list, list of code-point offsets where each class starts)."""
    cls, starts = [], []
    i, n = 0, len(text)
    while i < n:
        ch = text[i]
        hit = None
        if ch == "#":
            for code in ERRCODES:
                if text.startswith(code, i):
                    hit = code
                    break
        if hit:
            cls += ["#", "!"]
            starts += [i, -1]   # the "!" class has no own start (inside the code)
            i += len(hit)
            continue
        starts.append(i)
        if ch == '"':
            cls.append("Q")
        elif ch in "×÷":
            cls.append("x")
        elif ch in "≥≤≠":
            cls.append("g")
        elif ch == "E":
            cls.append("E")
        elif ch == "0":
            cls.append("0")
        elif ch in "123456789":
            cls.append("1")
        elif ch == "!" and cls and cls[-1] == "#":
            cls.append("a")      # "#!" is not an error code: keep the model's pair abstraction sound
        elif ch in ".+-*/^&=<>%(){},;':$#!":
            cls.append(ch)
        elif re.match(r"\s", ch):
            cls.append(" ")
        else:
            cls.append("a")
        i += 1
    return cls, starts


def run_real(text):
    from numbers_parser.tokenizer import Tokenizer, TokenizerError
    try:
        t = Tokenizer(text)
        return "done", [x.value for x in t.items]
    except TokenizerError:
        return "TokenizerError", None
    except Exception as e:  # noqa: BLE001
        return "Other:" + type(e).__name__, None


def event(text, outcome, items, must=False):
    cls, starts = classify(text)
    ilen = []
    if items is not None:
        # item lengths in class units
        bounds = set()
        for k, s in enumerate(starts):
            if s >= 0:
                bounds.add(s)
        pos2cls = {}
        for k, s in enumerate(starts):
            if s >= 0:
                pos2cls[s] = k
        pos2cls[len(text)] = len(cls)
        p = 0
        for it in items:
            q = p + len(it)
            if p in pos2cls and q in pos2cls:
                ilen.append(pos2cls[q] - pos2cls[p])
            else:
                ilen.append(-1)
            p = q
    return {"cls": cls, "cp": [ord(c) for c in text], "items": [[ord(c) for c in it] for it in (items or [])],
            "ilen": ilen, "outcome": outcome.split(":")[0], "must": bool(must)}


def judge(ctx, events, texts, origin):
    """Validate recorded events with Trace_Tokenizer; returns number of rejects."""
    if not events:
        return 0
    rejects = 0
    B = 20000
    for b0 in range(0, len(events), B):
        batch = events[b0:b0 + B]
        path = os.path.join(ctx.scratch, "tok-trace-%d.ndjson" % b0)
        with open(path, "w") as fh:
            for e in batch:
                fh.write(json.dumps(e) + "\n")
        res = ctx.tlc("Trace_Tokenizer", "Trace_Tokenizer.cfg", what="Trace_Tokenizer[%s,%d]" % (origin, b0),
                      env={"TRACE_FILE": path}, timeout=1800)
        if res.violated:
            raise Machinery("Trace_Tokenizer: spec invariant %s violated on a recorded input\n%s" % (res.violated, res.out[-1500:]))
        seen = {}
        for ln in res.printed:
            m = re.match(r'^<<"V", (\d+), "([\w-]+)", "([\w-]+)">>$', ln)
            if m:
                seen[int(m.group(1))] = (m.group(2), m.group(3))
        if len(seen) != len(batch):
            raise Machinery("Trace_Tokenizer: %d verdicts for %d traces" % (len(seen), len(batch)))
        ctx.traces += len(batch)
        for tid, (a, b) in seen.items():
            text = texts[b0 + tid - 1]
            if a != "ok":
                rejects += 1
                real = run_real(text)
                ctx.fail({"engine": "trace", "clause": a, "origin": origin, "exc": real[0]},
                         "input %r -> %s %r" % (text, real[0], real[1]), {"input": text})
            elif b != "ok":
                ctx.drifted("%s: item %s differ from the scanner model on %r" % (origin, b, text))
        os.remove(path)
    return rejects


def replay_enumeration(ctx, alphabet, L, label, variants):
    """TLC enumerates every string of length <= L (checking the invariants on the model) and emits each
    final state; every one is replayed into the real Tokenizer."""
    rng = random.Random(ctx.seed * 7919 + L)
    stats = {"strings": 0, "conform": 0}
    mism_events, mism_texts = [], []

    def handle(line):
        m = LINE.match(line)
        if not m:
            return False
        classes, status, joined = m.group(1), m.group(2), m.group(3)
        spec_items_cls = joined.split("|") if joined else []
        stats["strings"] += 1
        for v in range(variants):
            text, pieces = concretize(classes, v, rng)
            outcome, items = run_real(text)
            # spec items in concrete terms
            exp = None
            if status == "done":
                exp, p = [], 0
                for it in spec_items_cls:
                    exp.append("".join(pieces[p:p + len(it)]))
                    p += len(it)
            ctx.evaluations += 1
            if outcome == status and items == exp:
                stats["conform"] += 1
            else:
                mism_events.append(event(text, outcome, items))
                mism_texts.append(text)
        if stats["strings"] % 50000 == 1:
            ctx.sample({"classes": classes, "spec_status": status, "spec_items": spec_items_cls})
        return True

    res = ctx.tlc("Tokenizer", cfg(alphabet, L, emit=True), what="MC_Tokenizer[%s,L=%d]" % (label, L),
                  stream_to=handle, timeout=3600, extra=("-maxSetSize", "50000000"))
    if res.violated:
        raise Machinery("Tokenizer.tla violates its own Level-A invariant %s: %s" % (res.violated, res.out[-1200:]))
    expect = sum(len(alphabet) ** n for n in range(L + 1))
    if stats["strings"] != expect:
        raise Machinery("emitted %d final states, expected %d" % (stats["strings"], expect))
    ctx.count_distinct(expect)
    ctx.traces += stats["conform"]
    ctx.extra.setdefault("enumerations", []).append(
        {"alphabet": label, "L": L, "strings": expect, "variants": variants, "conform_exactly": stats["conform"],
         "judged_by_trace_spec": len(mism_events)})
    judge(ctx, mism_events, mism_texts, "enum-" + label)


def random_strings(ctx, n, base):
    rng = random.Random(ctx.seed + 1018)
    glyphs = list("abZ_é 0123456789.E+-*/^&=<>%×÷≥≤≠(){},;\"':$#!") + ["#REF!", "#N/A", "''", '""', "SUM(", "1.5E"]
    out = []
    for _ in range(n):
        k = rng.random()
        if base and k < 0.5:
            s = rng.choice(base)
            for _ in range(rng.randint(1, 3)):
                if not s:
                    break
                p = rng.randrange(len(s))
                op = rng.random()
                if op < 0.4:
                    s = s[:p] + s[p + 1:]
                elif op < 0.8:
                    s = s[:p] + rng.choice(glyphs) + s[p:]
                else:
                    q = rng.randrange(len(s))
                    s = s[:min(p, q)] + s[max(p, q):]
            out.append(s)
        else:
            out.append("".join(rng.choice(glyphs) for _ in range(rng.randint(1, 40))))
    return out


def rendered_refs_job(job):
    """reference texts the library itself produces (Cell.formula) for generated documents: table / sheet qualified A1 references and
    row / column references printed with header labels - plain ones, and labels that need quoting (operators, apostrophes, percent)"""
    (idx, seed) = job
    import tempfile
    warnings.simplefilter("ignore")
    from . import c09
    c09.LABEL.update({"w": "a-b", "v": "it's", "u": "50%", "t": "R&D (net)", "s": "Q1+Q2"})
    rng = random.Random(seed)
    texts = []
    scratch = tempfile.mkdtemp(prefix="nv-c18-")
    try:
        ns = [rng.sample(["A", "B", "C"], rng.randint(1, 3)) for _ in range(rng.randint(1, 3))]
        tabs = [(s + 1, t + 1) for s in range(len(ns)) for t in range(len(ns[s]))]
        pool = ["x", "y", "z", "", "w", "v", "u", "t", "s", "q", "r", "p", "o", "n"]
        labs = [[[rng.choice(pool) for _ in range(c09.NL)] for _ in sh] for sh in ns]
        refs = []
        for _ in range(30):
            i = rng.randint(1, c09.NL)
            j = rng.randint(i, c09.NL)
            refs.append((rng.choice(tabs), rng.choice(tabs), i, j, rng.random() < 0.5, i == j and rng.random() < 0.5))
        for e in c09.label_job((idx, ns, labs, "cols" if idx % 2 else "rows", refs, scratch, False)):
            if e.get("text"):
                texts.append(e["text"])
        pairs = [(h, t) for h in tabs for t in tabs]
        for e in c09.case_job((idx, ns, rng.sample(pairs, min(len(pairs), 6)), seed, scratch, None)):
            if e.get("text"):
                texts.append(e["text"])
    finally:
        import shutil
        shutil.rmtree(scratch, ignore_errors=True)
    return texts


def run(ctx):
    ctx.rule = ("every string over the class alphabet up to the length bound is enumerated by TLC and replayed into "
                "the real Tokenizer (distinct = distinct class strings); plus distinct reader-emitted formulas and "
                "random/mutated strings judged by Trace_Tokenizer; a case is non-trivial if it is a distinct input")
    ctx.assumptions = ["class alphabet with representatives covers the scanner's case analysis",
                       "Python re semantics for the two string regexes as characterised in Tokenizer.tla (validated by replay)"]
    # 1. model check + spec->code replay
    ctx.stage('enumerate+replay')
    if ctx.quick:
        replay_enumeration(ctx, FULL, 3, "full", 1)
        replay_enumeration(ctx, CORE, 5, "core", 1)
        replay_enumeration(ctx, QUOTE, 6, "quote", 1)
    else:
        replay_enumeration(ctx, FULL, 4, "full", 2)
        replay_enumeration(ctx, CORE, 6, "core", 2)
        replay_enumeration(ctx, QUOTE, 7, "quote", 1)
    ctx.stage('spec-mutants')
    # 2. anti-vacuity: the spec's own mutants must be caught by TLC
    for bug, inv in (("PopEmptyStack", "Total"), ("DropChar", True), ("SplitQuoted", "NoQuotedSplit")):
        ctx.tlc("Tokenizer", cfg(CORE, 4, bug=bug), what="Bug_%s" % bug, expect_violation=inv, count=False)
    # 3. code -> spec: reader-emitted formulas
    ctx.stage('fixture-formulas')
    fx = fixtures.readable_fixtures(ctx.workers)
    if ctx.quick:
        keep = ("test-all-forumulas", "test-all-formulas", "test-10", "test-formulas", "test-new-formulas", "test-extra-formulas",
                "named-ranges", "table-functions", "issue-78", "test-5", "test-1")
        fx = [p for p in fx if any(k in os.path.basename(p) for k in keep)] or fx[:8]
    texts, errors = fixtures.collect_formulas(fx, ctx.workers)
    ctx.extra["formula_read_errors"] = len(errors)
    formulas = sorted(set(texts))
    ctx.extra["fixture_formulas_distinct"] = len(formulas)
    ev, tx = [], []
    for f in formulas:
        o, it = run_real(f)
        ev.append(event(f, o, it, must=True))
        tx.append(f)
        ctx.count(1, ("f", f))
    for f in formulas[:3]:
        ctx.sample({"formula": f})
    judge(ctx, ev, tx, "fixture-formula")
    # 3b. reference texts rendered by the library for generated documents (qualified names, header labels incl. ones that need quoting)
    ctx.stage('rendered-references')
    rres = fixtures.pmap(rendered_refs_job, [(i, ctx.seed * 41 + i) for i in range(40 if ctx.quick else 600)], ctx.workers)
    rendered = sorted({t for lst in rres for t in lst})
    ctx.extra["rendered_reference_texts_distinct"] = len(rendered)
    ev, tx = [], []
    for f in rendered:
        o, it = run_real(f)
        ev.append(event(f, o, it, must=True))
        tx.append(f)
        ctx.count(1, ("g", f))
    if rendered:
        ctx.sample({"rendered_reference": next((f for f in rendered if "'" in f), rendered[0])})
    judge(ctx, ev, tx, "rendered-reference")
    # 4. random / mutated strings
    ctx.stage('random')
    n = 3000 if ctx.quick else 60000
    rs = set(random_strings(ctx, n, formulas))
    # error literals in other letter cases: not error codes for the tokenizer (which may refuse them) - but whatever it does, it must
    # not answer with the canonical spelling in place of the characters it was given
    for code in ERRCODES:
        for var in (code.lower(), code[:2] + code[2:].lower(), code[:-2].lower() + code[-2:], code.swapcase()):
            if var != code:
                for ctxt in ("%s", "SUM(%s)", "%s+1", "1+%s", "IF(A1,%s,2)", "{%s}", "%s×A4:A6", "SUM(1,%s)"):
                    rs.add(ctxt % var)
    rs = sorted(rs)
    ev, tx = [], []
    for s in rs:
        o, it = run_real(s)
        ev.append(event(s, o, it))
        tx.append(s)
        ctx.count(1, ("r", s))
    judge(ctx, ev, tx, "random")
    ctx.stage('selftest')
    # 5. binding self-test: a corrupted record must be rejected
    good = formulas[0] if formulas else "SUM(A1,\"x\"\"y\")"
    o, it = run_real(good)
    if o == "done" and it:
        bad1 = event(good, o, it)
        bad1["items"][0] = bad1["items"][0][:-1] if len(bad1["items"][0]) > 1 else bad1["items"][0] + [65]
        bad2 = event('"a""b"', "done", ['"a"', '"b"'])
        bad3 = event(")", "Other", None)
        path = os.path.join(ctx.scratch, "selftest.ndjson")
        with open(path, "w") as fh:
            for e in (bad1, bad2, bad3):
                fh.write(json.dumps(e) + "\n")
        res = ctx.tlc("Trace_Tokenizer", "Trace_Tokenizer.cfg", what="binding-selftest", env={"TRACE_FILE": path}, count=False)
        got = sorted(re.findall(r'^<<"V", (\d+), "([\w-]+)"', res.out, re.M))
        want = [("1", "lossless"), ("2", "quoted-split"), ("3", "total")]
        if got != want:
            raise Machinery("binding self-test: corrupted traces judged %s, expected %s" % (got, want))
        ctx.extra["binding_selftest"] = "3 corrupted records rejected (lossless, quoted-split, total)"


def replay(ctx, data):
    text = data["replay"]["input"]
    print("input:", repr(text))
    print("real :", run_real(text))
    return 0

"""The harness's own IWA framing code (independent of numbers_parser.iwafile): chunk reader/writer,
segment walker.  protobuf classes are used only for field access (ArchiveInfo.message_infos)."""
import hashlib
import struct

import snappy


def dg(b):
    """28-bit digest of exact bytes (fits TLC's integers)"""
    return int(hashlib.sha256(bytes(b)).hexdigest()[:7], 16)


def varint(n):
    out = bytearray()
    while True:
        b = n & 0x7F
        n >>= 7
        if n:
            out.append(b | 0x80)
        else:
            out.append(b)
            return bytes(out)


def read_varint(buf, pos):
    shift = 0
    val = 0
    while True:
        b = buf[pos]
        pos += 1
        val |= (b & 0x7F) << shift
        if not b & 0x80:
            return val, pos
        shift += 7
        if shift > 63:
            raise ValueError("varint too long")


def read_chunks(buf):
    """-> list of (marker, lenField, payload bytes); raises ValueError on a torn file"""
    out = []
    pos = 0
    n = len(buf)
    while pos < n:
        if pos + 4 > n:
            raise ValueError("torn chunk header")
        marker = buf[pos]
        ln = buf[pos + 1] | (buf[pos + 2] << 8) | (buf[pos + 3] << 16)
        payload = bytes(buf[pos + 4:pos + 4 + ln])
        if len(payload) != ln:
            raise ValueError("torn chunk payload")
        out.append((marker, ln, payload))
        pos += 4 + ln
    return out


def chunk_data(payload):
    try:
        return snappy.uncompress(payload), False
    except Exception:  # noqa: BLE001
        return payload, True


def stream_of(buf):
    return b"".join(chunk_data(p)[0] for _, _, p in read_chunks(buf))


def walk_segments(stream):
    """-> list of (header bytes, [message bytes], declared lengths)"""
    from numbers_parser.generated.TSPArchiveMessages_pb2 import ArchiveInfo
    out = []
    pos = 0
    n = len(stream)
    while pos < n:
        hl, p = read_varint(stream, pos)
        hdr = bytes(stream[p:p + hl])
        if len(hdr) != hl:
            raise ValueError("torn header")
        info = ArchiveInfo.FromString(hdr)
        p += hl
        msgs = []
        decl = []
        for mi in info.message_infos:
            msgs.append(bytes(stream[p:p + mi.length]))
            if len(msgs[-1]) != mi.length:
                raise ValueError("torn message")
            decl.append(mi.length)
            p += mi.length
        out.append((hdr, msgs, decl))
        pos = p
    return out


def frame(stream, cuts, stored=()):
    """cut the stream at the given chunk sizes; chunk k is stored uncompressed if k in stored"""
    out = bytearray()
    pos = 0
    for k, c in enumerate(cuts):
        data = stream[pos:pos + c]
        pos += c
        payload = snappy.compress(bytes(data))
        if k in stored:
            # a stored chunk is only unambiguous if its raw bytes are not themselves a valid snappy block
            try:
                snappy.uncompress(bytes(data))
            except Exception:  # noqa: BLE001
                payload = bytes(data)
        out += b"\x00" + struct.pack("<I", len(payload))[:3] + payload
    assert pos == len(stream)
    return bytes(out)


def seg_digest(hdr, msgs):
    return [dg(hdr), [dg(m) for m in msgs]]


def is_wellformed(buf):
    """the member is a sequence of chunks with marker 0 that covers the file exactly and holds a walkable stream"""
    try:
        if any(m != 0 for m, _, _ in read_chunks(buf)):
            return False
        walk_segments(stream_of(buf))
        return True
    except Exception:  # noqa: BLE001
        return False

"""Fault injector for C17: materialises a set of abstract faults (spec/Loader.tla) on a real document."""
import io
import os
import random
import struct
import zipfile

import snappy

from . import iwa, rewrite


def _positions(names):
    """the three member positions of the model: first, middle and last archive member"""
    idx = [i for i, n in enumerate(names) if n.endswith(".iwa")]
    if not idx:
        return {}
    return {1: idx[0], 2: idx[len(idx) // 2], 3: idx[-1]}


def _member_fault(data, kind, rng):
    chunks = None
    try:
        chunks = iwa.read_chunks(data)
    except Exception:  # noqa: BLE001
        pass
    if kind == "empty":
        return b""
    if len(data) < 8 and kind in ("cut-at-chunk", "cut-off-chunk", "trailing", "marker", "len-long", "len-short", "bad-snappy"):
        return data          # nothing left to damage (another fault already emptied the member)
    if kind == "short":
        return bytes([0, 1, 2][: rng.randint(1, 3)])
    if kind == "cut-at-chunk":
        if chunks and len(chunks) > 1:
            return data[: 4 + chunks[0][1]]
        return data[: max(4, len(data) // 2)][:4] + data[4: 4 + 0]     # header only: declares a payload that is not there
    if kind == "cut-off-chunk":
        return data[: max(5, len(data) - max(1, len(data) // 3))]
    if kind == "trailing":
        # 1..3 stray bytes after the last complete chunk (too short to be a chunk header; the first one looks like a chunk marker)
        return data + bytes([0, 7, 9][: rng.randint(1, 3)])
    if kind == "marker":
        return b"\x01" + data[1:]
    if kind == "len-long":
        ln = data[1] | (data[2] << 8) | (data[3] << 16)
        return data[:1] + struct.pack("<I", ln + 1)[:3] + data[4:]
    if kind == "len-short":
        ln = data[1] | (data[2] << 8) | (data[3] << 16)
        return data[:1] + struct.pack("<I", max(0, ln - 1))[:3] + data[4:]
    if kind == "bad-snappy":
        b = bytearray(data)
        for i in range(4, min(len(b), 40)):
            b[i] ^= 0xA5
        return bytes(b)
    if kind == "bad-varint":
        return iwa.frame(b"\xff" * 12 + b"\x01\x02", [14])
    if kind == "bad-archive-info":
        return iwa.frame(iwa.varint(6) + b"\xff\xff\xff\xff\xff\xff" + b"abc", [10])
    if kind == "no-messages":
        from numbers_parser.generated.TSPArchiveMessages_pb2 import ArchiveInfo
        hdr = ArchiveInfo(identifier=987655).SerializeToString()
        st = iwa.varint(len(hdr)) + hdr
        return iwa.frame(st, [len(st)])
    if kind == "unknown-type":
        from numbers_parser.generated.TSPArchiveMessages_pb2 import ArchiveInfo
        info = ArchiveInfo(identifier=987654)
        mi = info.message_infos.add(type=999999, length=3)
        mi.version.extend([1, 0, 5])
        hdr = info.SerializeToString()
        st = iwa.varint(len(hdr)) + hdr + b"\x08\x01\x10"
        return iwa.frame(st, [len(st)])
    raise ValueError(kind)


def materialise(src, faults, rng, out_base, nested=False):
    """-> path to open (it may not exist for 'missing').  faults: list of {"kind", "at"}"""
    kinds = {f["kind"] for f in faults}
    pkg = rewrite.Pkg.load(src)
    names = [n for n, _ in pkg.members]
    pos = _positions(names)
    members = list(pkg.members)
    crc_targets = []
    for f in faults:
        k, at = f["kind"], f.get("at", 0)
        if at and at in pos:
            i = pos[at]
            if k == "crc":
                crc_targets.append(members[i][0])
            else:
                members[i] = (members[i][0], _member_fault(members[i][1], k, rng))
    if "bad-plist" in kinds:
        members = [(n, b"not a plist" if n.endswith("Metadata/Properties.plist") else d) for n, d in members]
    if "plist-xml-garbage" in kinds:
        members = [(n, b"<?xml version='1.0'?><plist><dict><key>fileFormatVers" if n.endswith("Metadata/Properties.plist") else d) for n, d in members]
    if "plist-no-version" in kinds:
        import plistlib
        members = [(n, plistlib.dumps({"revision": "0::0"}) if n.endswith("Metadata/Properties.plist") else d) for n, d in members]
    if "plist-version-type" in kinds:
        import plistlib
        members = [(n, plistlib.dumps(rng.choice([{"fileFormatVersion": 14}, ["fileFormatVersion", "14.1"], {"fileFormatVersion": b"14.1"}]))
                    if n.endswith("Metadata/Properties.plist") else d) for n, d in members]
    if "missing-plist" in kinds:
        members = [(n, d) for n, d in members if not n.endswith("Metadata/Properties.plist")]
    if "missing-build-history" in kinds:
        members = [(n, d) for n, d in members if not n.endswith("Metadata/BuildVersionHistory.plist")]
    if "encrypted" in kinds:
        members.append((".iwph", b"\x00" * 16))
    if "no-objects" in kinds:
        members = [(n, d) for n, d in members if not n.endswith(".iwa")]
    suffix = ".numberz" if "wrong-suffix" in kinds else ".numbers"
    path = out_base + suffix
    if nested == "package":
        # the folder form of a document: the archives in Index.zip, every other member a loose file (a wrapper folder is dropped)
        import re
        import shutil
        if os.path.exists(path):
            shutil.rmtree(path)
        os.makedirs(path)
        if "missing" in kinds:
            shutil.rmtree(path)
            return path + ".absent", None
        with zipfile.ZipFile(os.path.join(path, "Index.zip"), "w", zipfile.ZIP_DEFLATED) as zi:
            for n, d in members:
                if n.endswith(".iwa"):
                    zi.writestr(re.sub(r"^[^/]*\.numbers/", "", n), d)
        for n, d in members:
            if not n.endswith(".iwa") and not n.endswith("/"):
                q = os.path.join(path, re.sub(r"^[^/]*\.numbers/", "", n))
                os.makedirs(os.path.dirname(q), exist_ok=True)
                with open(q, "wb") as fh:
                    fh.write(d)
        return path, None
    buf = io.BytesIO()
    with zipfile.ZipFile(buf, "w", zipfile.ZIP_DEFLATED) as zf:
        if nested:
            inner = io.BytesIO()
            with zipfile.ZipFile(inner, "w", zipfile.ZIP_DEFLATED) as zi:
                for n, d in members:
                    if n.endswith(".iwa"):
                        zi.writestr(n, d)
            ib = inner.getvalue()
            if "nested-index-damaged" in kinds:
                # the inner zip itself is damaged: empty, a few bytes, cut somewhere, garbage, or its directory flipped
                v = rng.randrange(6)
                if v == 0:
                    ib = b""
                elif v == 1:
                    ib = ib[: rng.randint(1, 3)]
                elif v == 2:
                    ib = ib[: rng.randint(4, max(5, len(ib) - 1))]
                elif v == 3:
                    ib = bytes(rng.getrandbits(8) for _ in range(200))
                elif v == 4:
                    ib = ib[:-22] + bytes(22)
                else:
                    bb = bytearray(ib)
                    for _ in range(6):
                        bb[-rng.randint(1, min(len(bb), 60))] ^= 1 << rng.randrange(8)
                    ib = bytes(bb)
            zf.writestr("Index.zip", ib)
            for n, d in members:
                if not n.endswith(".iwa"):
                    zf.writestr(n, d)
        else:
            for n, d in members:
                zf.writestr(n, d)
    raw = bytearray(buf.getvalue())
    zf = zipfile.ZipFile(io.BytesIO(bytes(raw)))
    infos = {zi.filename: zi for zi in zf.infolist()}
    start_dir = zf.start_dir

    def data_range(zi):
        ho = zi.header_offset
        n, m = struct.unpack("<HH", raw[ho + 26:ho + 30])
        s = ho + 30 + n + m
        return s, s + zi.compress_size
    for name in crc_targets:
        target = "Index.zip" if nested else name
        if target in infos:
            s, e = data_range(infos[target])
            if e > s:
                raw[s + (e - s) // 2] ^= 0x55
    first = next((zi for zi in zf.infolist() if zi.compress_size > 8), None)
    if "truncated-0" in kinds:
        raw = raw[:0]
    elif "truncated-local-header" in kinds:
        raw = raw[:10]
    elif "truncated-in-member" in kinds and first is not None:
        s, e = data_range(first)
        raw = raw[: (s + e) // 2]
    elif "truncated-central-dir" in kinds:
        raw = raw[: start_dir + 7]
    elif "truncated-end-record" in kinds:
        raw = raw[:-5]
    if "zip-feature" in kinds and not (kinds & {"truncated-0", "truncated-local-header", "truncated-in-member", "truncated-central-dir", "truncated-end-record"}):
        # an intact zip that asks for something Python's zipfile does not do: a "version needed to extract" above 6.3 (refused when
        # the directory is read), an unknown compression method, an encrypted member or "compressed patched data" (refused when
        # the member is read).  Central directory record: PK\1\2, version needed at +6, flags at +8, method at +10.
        recs = []
        p = start_dir
        while raw[p:p + 4] == b"PK\x01\x02":
            n, m, c = struct.unpack("<HHH", raw[p + 28:p + 34])
            recs.append(p)
            p += 46 + n + m + c
        if recs:
            rec = recs[rng.randrange(len(recs))] if rng.random() < 0.5 else recs[0]
            v = rng.randrange(4)
            if v == 0:
                raw[rec + 6] = rng.choice([64, 84, 148, 255])
            elif v == 1:
                raw[rec + 10:rec + 12] = struct.pack("<H", rng.choice([1, 6, 99]))
            elif v == 2:
                raw[rec + 8] |= 0x01
            else:
                raw[rec + 8] |= 0x20
    if "missing" in kinds:
        return path + ".absent", None
    with open(path, "wb") as fh:
        fh.write(bytes(raw))
    regions = {"all": (0, len(raw)), "dir": (start_dir, len(raw))}
    return path, regions


def random_damage(src, rng, out_base, mode):
    """truncation at a random length or 1-4 bit flips at random offsets stratified by zip region"""
    pkg = rewrite.Pkg.load(src)
    buf = io.BytesIO()
    with zipfile.ZipFile(buf, "w", zipfile.ZIP_DEFLATED) as zf:
        for n, d in pkg.members:
            zf.writestr(n, d)
    raw = bytearray(buf.getvalue())
    zf = zipfile.ZipFile(io.BytesIO(bytes(raw)))
    start_dir = zf.start_dir
    desc = {}
    if mode == "truncate":
        n = rng.choice([rng.randrange(0, len(raw)), rng.randrange(start_dir, len(raw)), rng.randrange(0, 60), len(raw) - rng.randint(1, 30)])
        raw = raw[: max(0, n)]
        desc = {"truncate": n}
    else:
        k = rng.randint(1, 4)
        offs = []
        for _ in range(k):
            region = rng.choice(["data", "dir", "hdr"])
            if region == "dir":
                o = rng.randrange(start_dir, len(raw))
            elif region == "hdr":
                zi = rng.choice(zf.infolist())
                o = zi.header_offset + rng.randrange(0, 30 + len(zi.filename))
            else:
                o = rng.randrange(0, start_dir)
            raw[o] ^= 1 << rng.randrange(8)
            offs.append(o)
        desc = {"flips": offs}
    path = out_base + ".numbers"
    with open(path, "wb") as fh:
        fh.write(bytes(raw))
    return path, desc
